#!/bin/bash
# Run once after a fresh restore, offline: build the harness (release) and the getrandom shim.
set -e
ROOT="$(cd "$(dirname "${BASH_SOURCE[0]}")" && pwd)"
export CARGO_NET_OFFLINE=true
unset RUSTFLAGS
mkdir -p "$ROOT/target" "$ROOT/evidence" "$ROOT/replays"
cc -O2 -shared -fPIC -o "$ROOT/target/libdetrand.so" "$ROOT/shim/detrand.c" -ldl || echo "warning: shim not built; randomness not owned"
cd "$ROOT/harness" && cargo build --release --offline -p vcheck
echo "setup ok"
