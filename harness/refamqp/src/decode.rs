//! Strict decoder: accepts exactly what the AMQP 1.0 encoding rules (Part 1, section 1.6 and the ABNF in 1.2) allow.

use crate::value::{code_info, err, is_scalar, Kind, RErr, RType, RVal};
use std::collections::HashSet;

/// Maximum nesting depth (descriptors, compound members and array elements all count); deeper input is an error.
pub const MAX_DEPTH: usize = 256;
/// Elements whose encoding is zero octets wide (array constructors null/true/false/uint0/ulong0/list0) are not
/// bounded by the size field, so one decode call refuses to materialise more than this many of them in total.
/// This is a resource limit of this decoder, not a rule of the specification.
pub const MAX_ZERO_WIDTH_ELEMS: usize = 1 << 20;

/// Strictly decode exactly one value from the front of `buf`; returns the value and the number of bytes consumed.
pub fn decode(buf: &[u8]) -> Result<(RVal, usize), RErr> {
    let mut d = Dec { buf, pos: 0, end: buf.len(), zero_budget: MAX_ZERO_WIDTH_ELEMS, lenient_empty_array: false };
    let v = d.value(0)?;
    Ok((v, d.pos))
}

/// Like `decode_all`, but additionally accepts an EMPTY array that carries no element constructor
/// (`e0 01 00` / `f0 00000004 00000000`).  The ABNF makes the constructor mandatory, but the prose of the
/// specification does not spell the empty case out; a judge that must not raise false alarms on an
/// encoder's output uses this permissive reading.
pub fn decode_all_lenient_empty_array(buf: &[u8]) -> Result<RVal, RErr> {
    let mut d = Dec { buf, pos: 0, end: buf.len(), zero_budget: MAX_ZERO_WIDTH_ELEMS, lenient_empty_array: true };
    let v = d.value(0)?;
    if d.pos != buf.len() {
        return err(d.pos, format!("{} trailing bytes after the value", buf.len() - d.pos));
    }
    Ok(v)
}

/// `decode` + require that all of `buf` was consumed.
pub fn decode_all(buf: &[u8]) -> Result<RVal, RErr> {
    let (v, n) = decode(buf)?;
    if n != buf.len() {
        return err(n, format!("{} trailing bytes after the value", buf.len() - n));
    }
    Ok(v)
}

/// An array's element constructor: a primitive format code, possibly wrapped in descriptors.
enum Ctor {
    Prim(u8),
    Desc(RVal, Box<Ctor>),
}

struct Dec<'a> {
    buf: &'a [u8],
    pos: usize,
    /// reads must stay below this offset: the end of the innermost enclosing compound/array, else of the buffer
    end: usize,
    zero_budget: usize,
    lenient_empty_array: bool,
}

impl<'a> Dec<'a> {
    fn take(&mut self, n: usize) -> Result<&'a [u8], RErr> {
        if n > self.end - self.pos {
            let what = if self.end == self.buf.len() { "the input" } else { "the enclosing size field" };
            return err(self.pos, format!("need {n} bytes but only {} left in {what}", self.end - self.pos));
        }
        let s = &self.buf[self.pos..self.pos + n];
        self.pos += n;
        Ok(s)
    }

    /// 1- or 4-octet big-endian unsigned (size, count and length fields)
    fn uint(&mut self, width: usize) -> Result<usize, RErr> {
        let b = self.take(width)?;
        Ok(b.iter().fold(0usize, |acc, x| (acc << 8) | *x as usize))
    }

    fn check_depth(&self, depth: usize) -> Result<(), RErr> {
        if depth > MAX_DEPTH {
            return err(self.pos, format!("nesting deeper than {MAX_DEPTH}"));
        }
        Ok(())
    }

    /// value = constructor data ; constructor = format-code / 0x00 descriptor constructor ; descriptor = value
    fn value(&mut self, depth: usize) -> Result<RVal, RErr> {
        self.check_depth(depth)?;
        let at = self.pos;
        let code = self.take(1)?[0];
        if code == 0x00 {
            let d = self.value(depth + 1)?;
            let v = self.value(depth + 1)?;
            return Ok(RVal::Described(Box::new(d), Box::new(v)));
        }
        self.data(code, at, depth)
    }

    /// The data that follows primitive constructor `code` (which was read at offset `at`).
    fn data(&mut self, code: u8, at: usize, depth: usize) -> Result<RVal, RErr> {
        self.check_depth(depth)?;
        let Some((_, ty, kind)) = code_info(code) else {
            return err(at, format!("unknown format code {code:#04x}"));
        };
        match kind {
            Kind::Fixed(n) => fixed(code, self.take(n)?, at),
            Kind::Var(w) => {
                let n = self.uint(w)?;
                let at = self.pos;
                let b = self.take(n)?;
                match ty {
                    RType::Binary => Ok(RVal::Binary(b.to_vec())),
                    RType::Str => match std::str::from_utf8(b) {
                        Ok(s) => Ok(RVal::Str(s.to_owned())),
                        Err(e) => err(at + e.valid_up_to(), "invalid UTF-8 in string"),
                    },
                    _ => match b.iter().position(|c| !c.is_ascii()) {
                        None => Ok(RVal::Sym(b.to_vec())),
                        Some(i) => err(at + i, "non-ASCII octet in symbol"),
                    },
                }
            }
            Kind::Compound(w) | Kind::Array(w) => {
                let size = self.uint(w)?;
                if size > self.end - self.pos {
                    return err(at, format!("size {size} exceeds the {} bytes available", self.end - self.pos));
                }
                if size < w {
                    return err(at, format!("size {size} cannot even hold the {w}-byte count field"));
                }
                let end = self.pos + size;
                let outer_end = std::mem::replace(&mut self.end, end);
                let count = self.uint(w)?;
                let v = match ty {
                    RType::List => RVal::List(self.items(count, depth)?),
                    RType::Map => RVal::Map(self.pairs(count, at, depth)?),
                    _ => self.array(count, depth)?,
                };
                if self.pos != end {
                    return err(at, format!("size field covers {} more bytes than the {count} encoded items", end - self.pos));
                }
                self.end = outer_end;
                Ok(v)
            }
        }
    }

    fn items(&mut self, count: usize, depth: usize) -> Result<Vec<RVal>, RErr> {
        // every value occupies at least its one-octet constructor
        if count > self.end - self.pos {
            return err(self.pos, format!("count {count} exceeds the {} bytes the size field leaves", self.end - self.pos));
        }
        let mut out = Vec::with_capacity(count);
        for _ in 0..count {
            out.push(self.value(depth + 1)?);
        }
        Ok(out)
    }

    fn pairs(&mut self, count: usize, at: usize, depth: usize) -> Result<Vec<(RVal, RVal)>, RErr> {
        if count % 2 != 0 {
            return err(at, format!("odd map count {count}"));
        }
        let mut it = self.items(count, depth)?.into_iter();
        let mut kvs = Vec::with_capacity(count / 2);
        while let (Some(k), Some(v)) = (it.next(), it.next()) {
            kvs.push((k, v));
        }
        // 1.6.23: "a map in which there exist two identical key values is invalid"
        let mut seen = HashSet::with_capacity(kvs.len());
        if let Some((k, _)) = kvs.iter().find(|(k, _)| !seen.insert(k)) {
            return err(at, format!("duplicate map key {k:?}"));
        }
        Ok(kvs)
    }

    /// array = size count constructor *data : the constructor is there even when count is 0
    fn array(&mut self, count: usize, depth: usize) -> Result<RVal, RErr> {
        if self.lenient_empty_array && count == 0 && self.pos == self.end {
            return Ok(RVal::Array(RType::Null, vec![]));
        }
        let ctor = self.ctor(depth + 1)?;
        let (ety, min_width) = ctor_type(&ctor);
        if min_width == 0 {
            match self.zero_budget.checked_sub(count) {
                Some(left) => self.zero_budget = left,
                None => return err(self.pos, format!("more than {MAX_ZERO_WIDTH_ELEMS} zero-width array elements")),
            }
        } else if count > (self.end - self.pos) / min_width {
            return err(self.pos, format!("count {count} exceeds what fits in the {} bytes left", self.end - self.pos));
        }
        let mut elems = Vec::with_capacity(count);
        for _ in 0..count {
            elems.push(self.elem(&ctor, depth + 1)?);
        }
        Ok(RVal::Array(ety, elems))
    }

    fn ctor(&mut self, depth: usize) -> Result<Ctor, RErr> {
        self.check_depth(depth)?;
        let at = self.pos;
        let code = self.take(1)?[0];
        if code == 0x00 {
            let d = self.value(depth + 1)?;
            return Ok(Ctor::Desc(d, Box::new(self.ctor(depth + 1)?)));
        }
        if code_info(code).is_none() {
            return err(at, format!("unknown format code {code:#04x} as array element constructor"));
        }
        Ok(Ctor::Prim(code))
    }

    fn elem(&mut self, ctor: &Ctor, depth: usize) -> Result<RVal, RErr> {
        match ctor {
            Ctor::Prim(code) => self.data(*code, self.pos, depth),
            Ctor::Desc(d, inner) => Ok(RVal::Described(Box::new(d.clone()), Box::new(self.elem(inner, depth + 1)?))),
        }
    }
}

/// Element type of an array constructor and the least number of octets one element occupies.
fn ctor_type(c: &Ctor) -> (RType, usize) {
    match c {
        Ctor::Prim(code) => {
            let (_, ty, kind) = code_info(*code).expect("constructor codes are checked when read");
            let min = match kind {
                Kind::Fixed(n) => n,
                Kind::Var(w) | Kind::Compound(w) | Kind::Array(w) => w,
            };
            (ty, min)
        }
        Ctor::Desc(d, inner) => {
            let (ty, min) = ctor_type(inner);
            (RType::Described(Box::new(d.clone()), Box::new(ty)), min)
        }
    }
}

fn fixed(code: u8, b: &[u8], at: usize) -> Result<RVal, RErr> {
    fn arr<const N: usize>(b: &[u8]) -> [u8; N] {
        b.try_into().expect("width comes from the format-code table")
    }
    Ok(match code {
        0x40 => RVal::Null,
        0x41 => RVal::Bool(true),
        0x42 => RVal::Bool(false),
        0x56 => match b[0] {
            0 => RVal::Bool(false),
            1 => RVal::Bool(true),
            x => return err(at + 1, format!("boolean octet must be 0x00 or 0x01, found {x:#04x}")),
        },
        0x50 => RVal::Ubyte(b[0]),
        0x60 => RVal::Ushort(u16::from_be_bytes(arr(b))),
        0x70 => RVal::Uint(u32::from_be_bytes(arr(b))),
        0x52 => RVal::Uint(b[0] as u32),
        0x43 => RVal::Uint(0),
        0x80 => RVal::Ulong(u64::from_be_bytes(arr(b))),
        0x53 => RVal::Ulong(b[0] as u64),
        0x44 => RVal::Ulong(0),
        0x51 => RVal::Byte(b[0] as i8),
        0x61 => RVal::Short(i16::from_be_bytes(arr(b))),
        0x71 => RVal::Int(i32::from_be_bytes(arr(b))),
        0x54 => RVal::Int(b[0] as i8 as i32),
        0x81 => RVal::Long(i64::from_be_bytes(arr(b))),
        0x55 => RVal::Long(b[0] as i8 as i64),
        0x72 => RVal::Float(u32::from_be_bytes(arr(b))),
        0x82 => RVal::Double(u64::from_be_bytes(arr(b))),
        0x74 => RVal::Dec32(arr(b)),
        0x84 => RVal::Dec64(arr(b)),
        0x94 => RVal::Dec128(arr(b)),
        0x73 => match u32::from_be_bytes(arr(b)) {
            c if is_scalar(c) => RVal::Char(c),
            c => return err(at + 1, format!("char {c:#x} is not a unicode scalar value")),
        },
        0x83 => RVal::Timestamp(i64::from_be_bytes(arr(b))),
        0x98 => RVal::Uuid(arr(b)),
        0x45 => RVal::List(Vec::new()),
        _ => unreachable!("{code:#04x} is not a fixed-width format code"),
    })
}
