//! Frame layout (AMQP 1.0 Part 2, section 2.3):
//!
//! ```text
//!   octets 0-3  SIZE     total frame size including these 4 octets, big-endian; at least 8
//!   octet  4    DOFF     data offset in 4-octet words; at least 2
//!   octet  5    TYPE     0x00 AMQP, 0x01 SASL
//!   octets 6-7  channel (AMQP frames; ignored for SASL frames)
//!   octets 8 .. 4*DOFF            extended header (ignored)
//!   octets 4*DOFF .. SIZE         frame body: performative + payload; empty for a heartbeat
//! ```

use crate::decode::decode;
use crate::value::{err, RErr, RVal};

#[derive(Debug, Clone, PartialEq, Eq)]
pub struct RFrame {
    pub size: u32,
    pub doff: u8,
    /// 0 amqp, 1 sasl
    pub ftype: u8,
    pub channel: u16,
    pub ext_header: Vec<u8>,
    /// bytes after the (doff*4)-byte header, may be empty (heartbeat)
    pub body: Vec<u8>,
}

/// Parse as many complete frames as `buf` holds (the 8-byte protocol header has already been removed by the caller).
/// Returns the frames and the number of bytes consumed; an incomplete trailing frame is left unconsumed.
/// A malformed frame header (size < 8, doff < 2, doff*4 > size) is an Err as soon as the offending octets are present.
pub fn parse_frames(buf: &[u8]) -> Result<(Vec<RFrame>, usize), RErr> {
    let mut frames = Vec::new();
    let mut pos = 0;
    loop {
        let rest = &buf[pos..];
        if rest.len() < 4 {
            break;
        }
        let size = u32::from_be_bytes([rest[0], rest[1], rest[2], rest[3]]);
        if size < 8 {
            return err(pos, format!("frame size {size} is smaller than the 8-byte frame header"));
        }
        if rest.len() < 5 {
            break;
        }
        let doff = rest[4];
        if doff < 2 {
            return err(pos + 4, format!("data offset {doff} is smaller than 2"));
        }
        let data_start = doff as usize * 4;
        if data_start > size as usize {
            return err(pos + 4, format!("data offset {doff} points beyond the frame size {size}"));
        }
        if rest.len() < size as usize {
            break;
        }
        frames.push(RFrame {
            size,
            doff,
            ftype: rest[5],
            channel: u16::from_be_bytes([rest[6], rest[7]]),
            ext_header: rest[8..data_start].to_vec(),
            body: rest[data_start..size as usize].to_vec(),
        });
        pos += size as usize;
    }
    Ok((frames, pos))
}

/// A frame without extended header (doff = 2).
pub fn encode_frame(ftype: u8, channel: u16, body: &[u8]) -> Vec<u8> {
    let size = u32::try_from(body.len() + 8).expect("frame size fits 32 bits");
    let mut out = Vec::with_capacity(body.len() + 8);
    out.extend_from_slice(&size.to_be_bytes());
    out.push(2);
    out.push(ftype);
    out.extend_from_slice(&channel.to_be_bytes());
    out.extend_from_slice(body);
    out
}

/// Split a frame body into (performative value, payload bytes that follow it). Empty body -> Ok(None).
pub fn split_body(body: &[u8]) -> Result<Option<(RVal, &[u8])>, RErr> {
    if body.is_empty() {
        return Ok(None);
    }
    let (v, n) = decode(body)?;
    Ok(Some((v, &body[n..])))
}
