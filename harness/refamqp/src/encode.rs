//! Encoder with an explicit choice of encoding variant at every node.
//!
//! Node visiting order (this is what `chooser`, `variant_counts` and `encode_script` see) is pre-order:
//!  * described value: the node itself (one variant, 0x00), then the descriptor, then the value;
//!  * list: the node, then each element; map: the node, then k1, v1, k2, v2, ...;
//!  * array: the node - its variant fixes the width (array8/array32) AND the one element constructor -, then the
//!    descriptor(s) of a described element type (they are written once, in the constructor), then every element.
//!    Elements are visited like any other node but are offered only the variants whose code is the element
//!    constructor chosen at the array (exactly one for everything except arrays inside arrays), their constructor
//!    octet is not written, and the descriptor of a described element is neither visited nor written again.
//!
//! `variants` is deliberately conservative about the 8-bit compound forms: list8/map8/array8 are offered only if the
//! body fits into 255 octets even when every descendant picks its widest variant (and, for arrays, the widest element
//! constructor). That way every script over `variant_counts` is encodable and the counts do not depend on choices
//! made at other nodes. `encode_narrowest` does not have that restriction: it sizes every 8-bit form exactly (all
//! descendants narrowest), so it can emit e.g. a list8 that no script reaches. Its only deviation from "shortest
//! possible" is that arrays of booleans use the 0x56 element constructor, never the zero-width 0x41/0x42.

use crate::value::{code_info, RType, RVal};

#[derive(Debug, Clone, PartialEq, Eq)]
pub struct Variant {
    /// the format code written for this node (0x00 for a described value)
    pub code: u8,
    /// for array nodes: the primitive format code of the shared element constructor
    pub elem_code: Option<u8>,
    pub name: &'static str,
}

/// All legal encoding variants of this node, narrowest first.
pub fn variants(v: &RVal) -> Vec<Variant> {
    plan(v, false).vars
}

pub fn encode_with(v: &RVal, chooser: &mut dyn FnMut(&RVal, &[Variant]) -> usize) -> Vec<u8> {
    let mut out = Vec::new();
    Enc { chooser, narrow: false }.node(v, None, &mut out);
    out
}

/// Always the smallest legal variant (for bool arrays the 0x56 constructor, never the zero-width 0x41/0x42).
pub fn encode_narrowest(v: &RVal) -> Vec<u8> {
    let mut out = Vec::new();
    Enc { chooser: &mut |_, vars| pick(vars, true), narrow: true }.node(v, None, &mut out);
    out
}

/// Always the widest variant.
pub fn encode_widest(v: &RVal) -> Vec<u8> {
    encode_with(v, &mut |_, vars| pick(vars, false))
}

/// Number of variants per node in pre-order.
pub fn variant_counts(v: &RVal) -> Vec<usize> {
    let mut counts = Vec::new();
    encode_with(v, &mut |_, vars| {
        counts.push(vars.len());
        0
    });
    counts
}

/// Encode using the given pre-order script of choices (index per node; missing entries = 0).
pub fn encode_script(v: &RVal, script: &[usize]) -> Vec<u8> {
    let mut i = 0;
    encode_with(v, &mut |_, _| {
        i += 1;
        script.get(i - 1).copied().unwrap_or(0)
    })
}

// ---------------------------------------------------------------------------------------------------------------------

fn variant(code: u8, elem_code: Option<u8>) -> Variant {
    let name = if code == 0 { "described" } else { code_info(code).expect("known code").0 };
    Variant { code, elem_code, name }
}

/// Variants are ordered narrowest first. (In a `narrow` plan the zero-width boolean element constructors 0x41/0x42
/// are not offered at all, so index 0 is what `encode_narrowest` is specified to produce.)
fn pick(vars: &[Variant], narrow: bool) -> usize {
    if narrow {
        0
    } else {
        vars.len() - 1
    }
}

/// The variants of a node together with the number of data octets (everything after the constructor octet) each one
/// produces, assuming all descendants encode `narrow`est (exact lengths) or widest (upper bounds).
struct Plan {
    vars: Vec<Variant>,
    lens: Vec<usize>,
}

fn total_len(v: &RVal, narrow: bool) -> usize {
    let p = plan(v, narrow);
    1 + p.lens[pick(&p.vars, narrow)]
}

fn fits8(count: usize, body: usize) -> bool {
    count <= 255 && body + 1 <= 255
}

fn plan(v: &RVal, narrow: bool) -> Plan {
    let mut p = Plan { vars: Vec::new(), lens: Vec::new() };
    let mut add = |code: u8, elem_code: Option<u8>, len: usize| {
        p.vars.push(variant(code, elem_code));
        p.lens.push(len);
    };
    let compound = |add: &mut dyn FnMut(u8, Option<u8>, usize), count: usize, body: usize, c8: u8, c32: u8| {
        if fits8(count, body) {
            add(c8, None, 2 + body);
        }
        add(c32, None, 8 + body);
    };
    match v {
        RVal::Described(d, x) => add(0x00, None, total_len(d, narrow) + total_len(x, narrow)),
        RVal::List(items) => {
            if items.is_empty() {
                add(0x45, None, 0);
            }
            let body = items.iter().map(|x| total_len(x, narrow)).sum();
            compound(&mut add, items.len(), body, 0xc0, 0xd0);
        }
        RVal::Map(kvs) => {
            let body = kvs.iter().map(|(k, x)| total_len(k, narrow) + total_len(x, narrow)).sum();
            compound(&mut add, kvs.len() * 2, body, 0xc1, 0xd1);
        }
        RVal::Array(ty, elems) => {
            let (mut ctor_len, mut inner_ty) = (1, ty);
            while let RType::Described(d, t) = inner_ty {
                ctor_len += 1 + total_len(d, narrow);
                inner_ty = t;
            }
            let plans: Vec<Plan> = elems.iter().map(|e| plan(innermost(e, ty), narrow)).collect();
            // element constructors able to represent every element
            let mut ecs = type_codes(inner_ty);
            ecs.retain(|ec| plans.iter().all(|p| p.vars.iter().any(|x| x.code == *ec)));
            if narrow {
                ecs.retain(|ec| !matches!(ec, 0x41 | 0x42));
            }
            assert!(!ecs.is_empty(), "no single constructor can encode all elements of {v:?}");
            let body_with = |ec: u8| -> usize {
                let elem_len = |p: &Plan| {
                    let idx: Vec<usize> = (0..p.vars.len()).filter(|i| p.vars[*i].code == ec).collect();
                    let vars: Vec<Variant> = idx.iter().map(|i| p.vars[*i].clone()).collect();
                    p.lens[idx[pick(&vars, narrow)]]
                };
                ctor_len + plans.iter().map(elem_len).sum::<usize>()
            };
            let bodies: Vec<usize> = ecs.iter().map(|ec| body_with(*ec)).collect();
            let widest_body = *bodies.last().expect("non-empty");
            for (code, hdr) in [(0xe0, 2), (0xf0, 8)] {
                for (ec, body) in ecs.iter().zip(&bodies) {
                    if code == 0xf0 || fits8(elems.len(), if narrow { *body } else { widest_body }) {
                        add(code, Some(*ec), hdr + body);
                    }
                }
            }
        }
        leaf => {
            for code in leaf_codes(leaf) {
                add(code, None, leaf_len(leaf, code));
            }
        }
    }
    p
}

/// Strip the `Described` wrappers that the element type announces.
fn innermost<'a>(mut e: &'a RVal, mut ty: &RType) -> &'a RVal {
    while let RType::Described(_, t) = ty {
        match e {
            RVal::Described(_, x) => e = x,
            other => panic!("array element {other:?} is not described although the element type is"),
        }
        ty = t;
    }
    e
}

/// Every constructor that exists for a (non-described) type, narrowest first.
fn type_codes(ty: &RType) -> Vec<u8> {
    match ty {
        RType::Null => vec![0x40],
        RType::Bool => vec![0x41, 0x42, 0x56],
        RType::Ubyte => vec![0x50],
        RType::Ushort => vec![0x60],
        RType::Uint => vec![0x43, 0x52, 0x70],
        RType::Ulong => vec![0x44, 0x53, 0x80],
        RType::Byte => vec![0x51],
        RType::Short => vec![0x61],
        RType::Int => vec![0x54, 0x71],
        RType::Long => vec![0x55, 0x81],
        RType::Float => vec![0x72],
        RType::Double => vec![0x82],
        RType::Dec32 => vec![0x74],
        RType::Dec64 => vec![0x84],
        RType::Dec128 => vec![0x94],
        RType::Char => vec![0x73],
        RType::Timestamp => vec![0x83],
        RType::Uuid => vec![0x98],
        RType::Binary => vec![0xa0, 0xb0],
        RType::Str => vec![0xa1, 0xb1],
        RType::Sym => vec![0xa3, 0xb3],
        RType::List => vec![0x45, 0xc0, 0xd0],
        RType::Map => vec![0xc1, 0xd1],
        RType::Array => vec![0xe0, 0xf0],
        RType::Described(_, inner) => type_codes(inner),
    }
}

fn var_codes(len: usize, c8: u8, c32: u8) -> Vec<u8> {
    assert!(len <= u32::MAX as usize, "variable-width value longer than 2^32-1 octets");
    if len <= 255 {
        vec![c8, c32]
    } else {
        vec![c32]
    }
}

fn leaf_codes(v: &RVal) -> Vec<u8> {
    match v {
        RVal::Null => vec![0x40],
        RVal::Bool(true) => vec![0x41, 0x56],
        RVal::Bool(false) => vec![0x42, 0x56],
        RVal::Ubyte(_) => vec![0x50],
        RVal::Ushort(_) => vec![0x60],
        RVal::Uint(0) => vec![0x43, 0x52, 0x70],
        RVal::Uint(x) if *x <= 255 => vec![0x52, 0x70],
        RVal::Uint(_) => vec![0x70],
        RVal::Ulong(0) => vec![0x44, 0x53, 0x80],
        RVal::Ulong(x) if *x <= 255 => vec![0x53, 0x80],
        RVal::Ulong(_) => vec![0x80],
        RVal::Byte(_) => vec![0x51],
        RVal::Short(_) => vec![0x61],
        RVal::Int(x) if (-128..=127).contains(x) => vec![0x54, 0x71],
        RVal::Int(_) => vec![0x71],
        RVal::Long(x) if (-128..=127).contains(x) => vec![0x55, 0x81],
        RVal::Long(_) => vec![0x81],
        RVal::Float(_) => vec![0x72],
        RVal::Double(_) => vec![0x82],
        RVal::Dec32(_) => vec![0x74],
        RVal::Dec64(_) => vec![0x84],
        RVal::Dec128(_) => vec![0x94],
        RVal::Char(_) => vec![0x73],
        RVal::Timestamp(_) => vec![0x83],
        RVal::Uuid(_) => vec![0x98],
        RVal::Binary(b) => var_codes(b.len(), 0xa0, 0xb0),
        RVal::Str(s) => var_codes(s.len(), 0xa1, 0xb1),
        RVal::Sym(s) => var_codes(s.len(), 0xa3, 0xb3),
        RVal::List(_) | RVal::Map(_) | RVal::Array(..) | RVal::Described(..) => unreachable!("not a leaf"),
    }
}

fn leaf_len(v: &RVal, code: u8) -> usize {
    let mut out = Vec::new();
    leaf_data(v, code, &mut out);
    out.len()
}

/// The data octets of leaf `v` under constructor `code`. All multi-octet numbers are big-endian.
fn leaf_data(v: &RVal, code: u8, out: &mut Vec<u8>) {
    let small = |x: u64| u8::try_from(x).expect("small variant offered only for values <= 255");
    let var = |bytes: &[u8], out: &mut Vec<u8>| {
        if code & 0xf0 == 0xa0 {
            out.push(u8::try_from(bytes.len()).expect("8-bit variant offered only for lengths <= 255"));
        } else {
            out.extend_from_slice(&u32::try_from(bytes.len()).expect("length fits 32 bits").to_be_bytes());
        }
        out.extend_from_slice(bytes);
    };
    match (v, code) {
        (RVal::Null, 0x40) | (RVal::Bool(true), 0x41) | (RVal::Bool(false), 0x42) => {}
        (RVal::Uint(0), 0x43) | (RVal::Ulong(0), 0x44) => {}
        (RVal::Bool(b), 0x56) => out.push(*b as u8),
        (RVal::Ubyte(x), 0x50) => out.push(*x),
        (RVal::Ushort(x), 0x60) => out.extend_from_slice(&x.to_be_bytes()),
        (RVal::Uint(x), 0x52) => out.push(small(*x as u64)),
        (RVal::Uint(x), 0x70) => out.extend_from_slice(&x.to_be_bytes()),
        (RVal::Ulong(x), 0x53) => out.push(small(*x)),
        (RVal::Ulong(x), 0x80) => out.extend_from_slice(&x.to_be_bytes()),
        (RVal::Byte(x), 0x51) => out.push(*x as u8),
        (RVal::Short(x), 0x61) => out.extend_from_slice(&x.to_be_bytes()),
        (RVal::Int(x), 0x54) => out.push(i8::try_from(*x).expect("smallint range") as u8),
        (RVal::Int(x), 0x71) => out.extend_from_slice(&x.to_be_bytes()),
        (RVal::Long(x), 0x55) => out.push(i8::try_from(*x).expect("smalllong range") as u8),
        (RVal::Long(x), 0x81) => out.extend_from_slice(&x.to_be_bytes()),
        (RVal::Float(x), 0x72) => out.extend_from_slice(&x.to_be_bytes()),
        (RVal::Double(x), 0x82) => out.extend_from_slice(&x.to_be_bytes()),
        (RVal::Dec32(x), 0x74) => out.extend_from_slice(x),
        (RVal::Dec64(x), 0x84) => out.extend_from_slice(x),
        (RVal::Dec128(x), 0x94) => out.extend_from_slice(x),
        (RVal::Char(x), 0x73) => out.extend_from_slice(&x.to_be_bytes()),
        (RVal::Timestamp(x), 0x83) => out.extend_from_slice(&x.to_be_bytes()),
        (RVal::Uuid(x), 0x98) => out.extend_from_slice(x),
        (RVal::Binary(b), 0xa0 | 0xb0) => var(b, out),
        (RVal::Str(s), 0xa1 | 0xb1) => var(s.as_bytes(), out),
        (RVal::Sym(s), 0xa3 | 0xb3) => var(s, out),
        _ => panic!("format code {code:#04x} cannot encode {v:?}"),
    }
}

struct Enc<'a> {
    chooser: &'a mut dyn FnMut(&RVal, &[Variant]) -> usize,
    /// descendants are sized for their narrowest encoding (only sound if the chooser always picks narrowest)
    narrow: bool,
}

impl Enc<'_> {
    /// Encode one node. `forced` = this node is an array element: its constructor was fixed (and written) by the array.
    fn node(&mut self, v: &RVal, forced: Option<u8>, out: &mut Vec<u8>) {
        let mut vars = plan(v, self.narrow).vars;
        if let Some(code) = forced {
            vars.retain(|x| x.code == code);
        }
        let i = (self.chooser)(v, &vars);
        assert!(i < vars.len(), "choice {i} out of range: {v:?} has {} variants here", vars.len());
        let var = vars.swap_remove(i);
        if forced.is_none() {
            out.push(var.code);
        }
        match v {
            RVal::Described(d, x) => {
                self.node(d, None, out);
                self.node(x, None, out);
            }
            RVal::List(_) if var.code == 0x45 => {}
            RVal::List(items) => {
                let mut body = Vec::new();
                items.iter().for_each(|x| self.node(x, None, &mut body));
                compound(var.code, items.len(), &body, out);
            }
            RVal::Map(kvs) => {
                let mut body = Vec::new();
                for (k, x) in kvs {
                    self.node(k, None, &mut body);
                    self.node(x, None, &mut body);
                }
                compound(var.code, kvs.len() * 2, &body, out);
            }
            RVal::Array(ty, elems) => {
                let ec = var.elem_code.expect("array variants carry the element constructor");
                let mut body = Vec::new();
                let mut t = ty;
                while let RType::Described(d, inner) = t {
                    body.push(0x00);
                    self.node(d, None, &mut body);
                    t = inner;
                }
                body.push(ec);
                for e in elems {
                    assert!(e.rtype() == *ty, "array element {e:?} is not of the element type {ty:?}");
                    self.elem(e, ty, ec, &mut body);
                }
                compound(var.code, elems.len(), &body, out);
            }
            leaf => leaf_data(leaf, var.code, out),
        }
    }

    fn elem(&mut self, e: &RVal, ty: &RType, ec: u8, out: &mut Vec<u8>) {
        match (ty, e) {
            (RType::Described(_, inner), RVal::Described(_, x)) => {
                let i = (self.chooser)(e, &[variant(0x00, None)]);
                assert!(i == 0, "choice {i} out of range: a described value has 1 variant");
                self.elem(x, inner, ec, out);
            }
            _ => self.node(e, Some(ec), out),
        }
    }
}

/// size and count (both 1 or both 4 octets wide), then the body; size covers the count field and the body.
fn compound(code: u8, count: usize, body: &[u8], out: &mut Vec<u8>) {
    if code & 0xf0 == 0xc0 || code & 0xf0 == 0xe0 {
        assert!(fits8(count, body.len()), "body of {} bytes / {count} items does not fit {code:#04x}", body.len());
        out.push((body.len() + 1) as u8);
        out.push(count as u8);
    } else {
        let size = u32::try_from(body.len() + 4).expect("compound body fits 32 bits");
        out.extend_from_slice(&size.to_be_bytes());
        out.extend_from_slice(&u32::try_from(count).expect("count fits 32 bits").to_be_bytes());
    }
    out.extend_from_slice(body);
}
