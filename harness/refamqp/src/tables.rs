//! Composite-type tables transcribed from the AMQP 1.0 specification XML (Part 2 transport, Part 3 messaging,
//! Part 4 transactions, Part 5 security), plus validation of composites and of the message format (Part 3, 3.2).
//!
//! Restricted types are recorded by their source type: handle, delivery-number, transfer-number, sequence-no,
//! message-format, milliseconds, seconds, terminus-durability -> uint; role -> boolean; sender-settle-mode,
//! receiver-settle-mode, sasl-code -> ubyte; delivery-tag -> binary; ietf-language-tag, terminus-expiry-policy,
//! error-condition, distribution-mode -> symbol; fields, node-properties, filter-set -> map.
//! `type="*" requires="X"`: X in {address, message-id, txn-id, global-tx-id} is provided by restricted primitive types
//! only and is recorded as `Any`; X in {source, target, delivery-state, outcome} is provided by composites and is
//! recorded as `Composite(X)`. `type="error"` is `Composite("error")`.

use crate::decode::decode;
use crate::value::{err, RErr, RType, RVal};

#[derive(Debug, Clone, Copy, PartialEq, Eq)]
pub enum FType {
    Null,
    Bool,
    Ubyte,
    Ushort,
    Uint,
    Ulong,
    Byte,
    Short,
    Int,
    Long,
    Float,
    Double,
    Char,
    Timestamp,
    Uuid,
    Binary,
    Str,
    Sym,
    List,
    Map,
    /// "*": any value
    Any,
    /// a described value providing the named archetype ("source", "target", "delivery-state", "outcome") or being the
    /// named composite ("error")
    Composite(&'static str),
}

#[derive(Debug, Clone, Copy)]
pub struct Field {
    pub name: &'static str,
    pub ty: FType,
    pub mandatory: bool,
    pub multiple: bool,
    /// the spec's default attribute verbatim
    pub default: Option<&'static str>,
}

#[derive(Debug, Clone, Copy)]
pub struct Composite {
    pub name: &'static str,
    /// 0x00000000_000000NN
    pub code: u64,
    /// e.g. "amqp:open:list"
    pub symbol: &'static str,
    pub fields: &'static [Field],
}

const fn f(name: &'static str, ty: FType) -> Field {
    Field { name, ty, mandatory: false, multiple: false, default: None }
}
impl Field {
    const fn req(self) -> Field {
        Field { mandatory: true, ..self }
    }
    const fn multi(self) -> Field {
        Field { multiple: true, ..self }
    }
    const fn dflt(self, d: &'static str) -> Field {
        Field { default: Some(d), ..self }
    }
}
const fn c(name: &'static str, code: u64, symbol: &'static str, fields: &'static [Field]) -> Composite {
    Composite { name, code, symbol, fields }
}

use FType::*;

const ERROR_FIELD: &[Field] = &[f("error", Composite("error"))];

pub static COMPOSITES: &[Composite] = &[
    // ---- Part 2: transport performatives ----
    c("open", 0x10, "amqp:open:list", &[
        f("container-id", Str).req(),
        f("hostname", Str),
        f("max-frame-size", Uint).dflt("4294967295"),
        f("channel-max", Ushort).dflt("65535"),
        f("idle-time-out", Uint),
        f("outgoing-locales", Sym).multi(),
        f("incoming-locales", Sym).multi(),
        f("offered-capabilities", Sym).multi(),
        f("desired-capabilities", Sym).multi(),
        f("properties", Map),
    ]),
    c("begin", 0x11, "amqp:begin:list", &[
        f("remote-channel", Ushort),
        f("next-outgoing-id", Uint).req(),
        f("incoming-window", Uint).req(),
        f("outgoing-window", Uint).req(),
        f("handle-max", Uint).dflt("4294967295"),
        f("offered-capabilities", Sym).multi(),
        f("desired-capabilities", Sym).multi(),
        f("properties", Map),
    ]),
    c("attach", 0x12, "amqp:attach:list", &[
        f("name", Str).req(),
        f("handle", Uint).req(),
        f("role", Bool).req(),
        f("snd-settle-mode", Ubyte).dflt("mixed"),
        f("rcv-settle-mode", Ubyte).dflt("first"),
        f("source", Composite("source")),
        f("target", Composite("target")),
        f("unsettled", Map),
        f("incomplete-unsettled", Bool).dflt("false"),
        f("initial-delivery-count", Uint),
        f("max-message-size", Ulong),
        f("offered-capabilities", Sym).multi(),
        f("desired-capabilities", Sym).multi(),
        f("properties", Map),
    ]),
    c("flow", 0x13, "amqp:flow:list", &[
        f("next-incoming-id", Uint),
        f("incoming-window", Uint).req(),
        f("next-outgoing-id", Uint).req(),
        f("outgoing-window", Uint).req(),
        f("handle", Uint),
        f("delivery-count", Uint),
        f("link-credit", Uint),
        f("available", Uint),
        f("drain", Bool).dflt("false"),
        f("echo", Bool).dflt("false"),
        f("properties", Map),
    ]),
    c("transfer", 0x14, "amqp:transfer:list", &[
        f("handle", Uint).req(),
        f("delivery-id", Uint),
        f("delivery-tag", Binary),
        f("message-format", Uint),
        f("settled", Bool),
        f("more", Bool).dflt("false"),
        f("rcv-settle-mode", Ubyte),
        f("state", Composite("delivery-state")),
        f("resume", Bool).dflt("false"),
        f("aborted", Bool).dflt("false"),
        f("batchable", Bool).dflt("false"),
    ]),
    c("disposition", 0x15, "amqp:disposition:list", &[
        f("role", Bool).req(),
        f("first", Uint).req(),
        f("last", Uint),
        f("settled", Bool).dflt("false"),
        f("state", Composite("delivery-state")),
        f("batchable", Bool).dflt("false"),
    ]),
    c("detach", 0x16, "amqp:detach:list", &[
        f("handle", Uint).req(),
        f("closed", Bool).dflt("false"),
        f("error", Composite("error")),
    ]),
    c("end", 0x17, "amqp:end:list", ERROR_FIELD),
    c("close", 0x18, "amqp:close:list", ERROR_FIELD),
    c("error", 0x1d, "amqp:error:list", &[
        f("condition", Sym).req(),
        f("description", Str),
        f("info", Map),
    ]),
    // ---- Part 5: security (SASL frame bodies) ----
    c("sasl-mechanisms", 0x40, "amqp:sasl-mechanisms:list", &[f("sasl-server-mechanisms", Sym).multi().req()]),
    c("sasl-init", 0x41, "amqp:sasl-init:list", &[
        f("mechanism", Sym).req(),
        f("initial-response", Binary),
        f("hostname", Str),
    ]),
    c("sasl-challenge", 0x42, "amqp:sasl-challenge:list", &[f("challenge", Binary).req()]),
    c("sasl-response", 0x43, "amqp:sasl-response:list", &[f("response", Binary).req()]),
    c("sasl-outcome", 0x44, "amqp:sasl-outcome:list", &[f("code", Ubyte).req(), f("additional-data", Binary)]),
    // ---- Part 3: messaging ----
    c("header", 0x70, "amqp:header:list", &[
        f("durable", Bool).dflt("false"),
        f("priority", Ubyte).dflt("4"),
        f("ttl", Uint),
        f("first-acquirer", Bool).dflt("false"),
        f("delivery-count", Uint).dflt("0"),
    ]),
    c("properties", 0x73, "amqp:properties:list", &[
        f("message-id", Any),
        f("user-id", Binary),
        f("to", Any),
        f("subject", Str),
        f("reply-to", Any),
        f("correlation-id", Any),
        f("content-type", Sym),
        f("content-encoding", Sym),
        f("absolute-expiry-time", Timestamp),
        f("creation-time", Timestamp),
        f("group-id", Str),
        f("group-sequence", Uint),
        f("reply-to-group-id", Str),
    ]),
    c("source", 0x28, "amqp:source:list", &[
        f("address", Any),
        f("durable", Uint).dflt("none"),
        f("expiry-policy", Sym).dflt("session-end"),
        f("timeout", Uint).dflt("0"),
        f("dynamic", Bool).dflt("false"),
        f("dynamic-node-properties", Map),
        f("distribution-mode", Sym),
        f("filter", Map),
        f("default-outcome", Composite("outcome")),
        f("outcomes", Sym).multi(),
        f("capabilities", Sym).multi(),
    ]),
    c("target", 0x29, "amqp:target:list", &[
        f("address", Any),
        f("durable", Uint).dflt("none"),
        f("expiry-policy", Sym).dflt("session-end"),
        f("timeout", Uint).dflt("0"),
        f("dynamic", Bool).dflt("false"),
        f("dynamic-node-properties", Map),
        f("capabilities", Sym).multi(),
    ]),
    c("received", 0x23, "amqp:received:list", &[f("section-number", Uint).req(), f("section-offset", Ulong).req()]),
    c("accepted", 0x24, "amqp:accepted:list", &[]),
    c("rejected", 0x25, "amqp:rejected:list", ERROR_FIELD),
    c("released", 0x26, "amqp:released:list", &[]),
    c("modified", 0x27, "amqp:modified:list", &[
        f("delivery-failed", Bool),
        f("undeliverable-here", Bool),
        f("message-annotations", Map),
    ]),
    c("delete-on-close", 0x2b, "amqp:delete-on-close:list", &[]),
    c("delete-on-no-links", 0x2c, "amqp:delete-on-no-links:list", &[]),
    c("delete-on-no-messages", 0x2d, "amqp:delete-on-no-messages:list", &[]),
    c("delete-on-no-links-or-messages", 0x2e, "amqp:delete-on-no-links-or-messages:list", &[]),
    // ---- Part 4: transactions ----
    c("coordinator", 0x30, "amqp:coordinator:list", &[f("capabilities", Sym).multi()]),
    c("declare", 0x31, "amqp:declare:list", &[f("global-id", Any)]),
    c("discharge", 0x32, "amqp:discharge:list", &[f("txn-id", Any).req(), f("fail", Bool)]),
    c("declared", 0x33, "amqp:declared:list", &[f("txn-id", Any).req()]),
    c("transactional-state", 0x34, "amqp:transactional-state:list", &[
        f("txn-id", Any).req(),
        f("outcome", Composite("outcome")),
    ]),
];

/// The spec's `provides="..."` attribute of a composite (what archetypes it can stand in for); "error" for error itself.
pub fn composite_provides(name: &str) -> &'static [&'static str] {
    match name {
        "open" | "begin" | "attach" | "flow" | "transfer" | "disposition" | "detach" | "end" | "close" => &["frame"],
        "sasl-mechanisms" | "sasl-init" | "sasl-challenge" | "sasl-response" | "sasl-outcome" => &["sasl-frame"],
        "error" => &["error"],
        "header" | "properties" => &["section"],
        "source" => &["source"],
        "target" | "coordinator" => &["target"],
        "received" | "transactional-state" => &["delivery-state"],
        "accepted" | "rejected" | "released" | "modified" | "declared" => &["delivery-state", "outcome"],
        "delete-on-close" | "delete-on-no-links" | "delete-on-no-messages" | "delete-on-no-links-or-messages" => {
            &["lifetime-policy"]
        }
        _ => &[],
    }
}

pub fn composite_by_code(code: u64) -> Option<&'static Composite> {
    COMPOSITES.iter().find(|c| c.code == code)
}
pub fn composite_by_symbol(sym: &[u8]) -> Option<&'static Composite> {
    COMPOSITES.iter().find(|c| c.symbol.as_bytes() == sym)
}
pub fn composite_by_name(name: &str) -> Option<&'static Composite> {
    COMPOSITES.iter().find(|c| c.name == name)
}

pub fn composite_by_descriptor(d: &RVal) -> Option<&'static Composite> {
    match d {
        RVal::Ulong(code) => composite_by_code(*code),
        RVal::Sym(s) => composite_by_symbol(s),
        _ => None,
    }
}

fn primitive_rtype(t: FType) -> Option<RType> {
    Some(match t {
        Null => RType::Null,
        Bool => RType::Bool,
        Ubyte => RType::Ubyte,
        Ushort => RType::Ushort,
        Uint => RType::Uint,
        Ulong => RType::Ulong,
        Byte => RType::Byte,
        Short => RType::Short,
        Int => RType::Int,
        Long => RType::Long,
        Float => RType::Float,
        Double => RType::Double,
        Char => RType::Char,
        Timestamp => RType::Timestamp,
        Uuid => RType::Uuid,
        Binary => RType::Binary,
        Str => RType::Str,
        Sym => RType::Sym,
        List => RType::List,
        Map => RType::Map,
        Any | Composite(_) => return None,
    })
}

/// Does the single (non-null) value `v` fit a field of type `t`?
fn check_single(t: FType, v: &RVal) -> Result<(), String> {
    match t {
        Any => Ok(()),
        Composite(arch) => {
            let RVal::Described(d, _) = v else {
                return Err(format!("expected a described value providing {arch}, found {:?}", v.rtype()));
            };
            match composite_by_descriptor(d) {
                // an unknown descriptor is an extension we cannot judge - except that "error" is a concrete type
                None if arch == "error" => Err(format!("expected an error, found descriptor {d:?}")),
                None => Ok(()),
                Some(c) if !composite_provides(c.name).contains(&arch) => {
                    Err(format!("{} does not provide {arch}", c.name))
                }
                Some(c) => validate_composite(v).map(|_| ()).map_err(|e| format!("in nested {}: {}", c.name, e.msg)),
            }
        }
        prim => {
            let want = primitive_rtype(prim).expect("primitive");
            if v.rtype() == want {
                Ok(())
            } else {
                Err(format!("expected {want:?}, found {:?}", v.rtype()))
            }
        }
    }
}

/// Validate that `v` is a well-formed instance of a known composite: Described(ulong code | symbol name, List(fields))
/// with no more fields than the table has, every present non-null field of the right type (for `multiple` fields:
/// either a single value of the type or an array of it), every mandatory field present and non-null; nested values of
/// known composite types are validated too. Returns the composite and the field vector padded with Null to full
/// length. `RErr::offset` is the index of the offending field (0 if the problem is not in a field).
pub fn validate_composite(v: &RVal) -> Result<(&'static Composite, Vec<RVal>), RErr> {
    let RVal::Described(d, body) = v else {
        return err(0, "not a described value");
    };
    let Some(comp) = composite_by_descriptor(d) else {
        return err(0, format!("descriptor {d:?} is not a known composite"));
    };
    let RVal::List(items) = &**body else {
        return err(0, format!("{}: described value is a {:?}, not a list", comp.name, body.rtype()));
    };
    if items.len() > comp.fields.len() {
        return err(comp.fields.len(), format!("{}: {} fields, only {} defined", comp.name, items.len(), comp.fields.len()));
    }
    let mut fields = items.clone();
    fields.resize(comp.fields.len(), RVal::Null);
    for (i, (fd, val)) in comp.fields.iter().zip(&fields).enumerate() {
        let res = match val {
            RVal::Null if fd.mandatory => Err("mandatory field is null or absent".to_string()),
            RVal::Null => Ok(()),
            RVal::Array(ety, elems) if fd.multiple => match (fd.ty, primitive_rtype(fd.ty)) {
                (_, Some(want)) if *ety == want => Ok(()),
                (_, Some(want)) => Err(format!("expected {want:?} or an array of it, found array of {ety:?}")),
                (t, None) => elems.iter().try_for_each(|e| check_single(t, e)),
            },
            single => check_single(fd.ty, single),
        };
        if let Err(msg) = res {
            return err(i, format!("{}.{}: {msg}", comp.name, fd.name));
        }
    }
    Ok((comp, fields))
}

// ---------------------------------------------------------------------------------------------------------------------
// message format (Part 3, section 3.2)

const SECTIONS: &[(u64, &str, &str)] = &[
    (0x70, "header", "amqp:header:list"),
    (0x71, "delivery-annotations", "amqp:delivery-annotations:map"),
    (0x72, "message-annotations", "amqp:message-annotations:map"),
    (0x73, "properties", "amqp:properties:list"),
    (0x74, "application-properties", "amqp:application-properties:map"),
    (0x75, "data", "amqp:data:binary"),
    (0x76, "amqp-sequence", "amqp:amqp-sequence:list"),
    (0x77, "amqp-value", "amqp:amqp-value:*"),
    (0x78, "footer", "amqp:footer:map"),
];

/// Non-composite described section codes of the message format: delivery-annotations 0x71 (map), message-annotations
/// 0x72 (map), application-properties 0x74 (map), data 0x75 (binary), amqp-sequence 0x76 (list), amqp-value 0x77 (any),
/// footer 0x78 (map). (header 0x70 and properties 0x73 are composites, see `COMPOSITES`.)
pub fn section_name(code: u64) -> Option<&'static str> {
    SECTIONS.iter().find(|s| s.0 == code && s.0 != 0x70 && s.0 != 0x73).map(|s| s.1)
}

/// Section code (0x70..=0x78) of a described value whose descriptor is a section's ulong code or symbol.
pub fn section_code(v: &RVal) -> Option<u64> {
    let RVal::Described(d, _) = v else { return None };
    match &**d {
        RVal::Ulong(code) => SECTIONS.iter().find(|s| s.0 == *code).map(|s| s.0),
        RVal::Sym(sym) => SECTIONS.iter().find(|s| s.2.as_bytes() == &sym[..]).map(|s| s.0),
        _ => None,
    }
}

/// Check the body of one section against its source type. annotations: map with symbol or ulong keys;
/// application-properties: map with string keys and values that are not map, list or array.
fn check_section(code: u64, v: &RVal) -> Result<(), String> {
    let RVal::Described(_, body) = v else { unreachable!("section_code matched a described value") };
    match (code, &**body) {
        (0x70 | 0x73, _) => validate_composite(v).map(|_| ()).map_err(|e| e.msg),
        (0x71 | 0x72 | 0x78, RVal::Map(kvs)) => match kvs.iter().find(|(k, _)| !matches!(k, RVal::Sym(_) | RVal::Ulong(_))) {
            Some((k, _)) => Err(format!("annotation key {k:?} is neither symbol nor ulong")),
            None => Ok(()),
        },
        (0x74, RVal::Map(kvs)) => {
            for (k, x) in kvs {
                if !matches!(k, RVal::Str(_)) {
                    return Err(format!("application-properties key {k:?} is not a string"));
                }
                if matches!(x, RVal::List(_) | RVal::Map(_) | RVal::Array(..)) {
                    return Err(format!("application-properties value of {k:?} is a {:?}, not a simple type", x.rtype()));
                }
            }
            Ok(())
        }
        (0x75, RVal::Binary(_)) | (0x76, RVal::List(_)) | (0x77, _) => Ok(()),
        (_, other) => Err(format!("wrong source type {:?}", other.rtype())),
    }
}

/// Parse a bare message (concatenated described sections) into its sections, strictly, checking the contents of each
/// section and section order/multiplicity: header? delivery-annotations? message-annotations? properties?
/// application-properties? body footer?, where body is one amqp-value | 1+ data | 1+ amqp-sequence | nothing.
/// (The spec requires a body; its absence is tolerated here because links may carry empty transfers.)
pub fn parse_message(buf: &[u8]) -> Result<Vec<RVal>, RErr> {
    let mut sections = Vec::new();
    let mut pos = 0;
    let mut last: u64 = 0; // code of the previous section
    while pos < buf.len() {
        let (v, n) = decode(&buf[pos..]).map_err(|e| RErr { offset: pos + e.offset, msg: e.msg })?;
        let Some(code) = section_code(&v) else {
            return err(pos, format!("not a message section: {:?}", v.rtype()));
        };
        let name = SECTIONS.iter().find(|s| s.0 == code).expect("known").1;
        let body = |c: u64| (0x75..=0x77).contains(&c);
        let order_ok = if body(code) && body(last) {
            code == last && code != 0x77 // data and amqp-sequence may repeat; no mixing; one amqp-value only
        } else {
            code > last
        };
        if !order_ok {
            let prev = SECTIONS.iter().find(|s| s.0 == last).expect("known").1;
            return err(pos, format!("section {name} must not follow {prev}"));
        }
        if let Err(msg) = check_section(code, &v) {
            return err(pos, format!("section {name}: {msg}"));
        }
        last = code;
        sections.push(v);
        pos += n;
    }
    Ok(sections)
}
