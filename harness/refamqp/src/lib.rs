//! refamqp: a small, independent reference implementation of the AMQP 1.0 type system and wire encoding, written from
//! the OASIS AMQP 1.0 specification. std only. It exists to serve as an oracle for judging other implementations, so
//! it prefers being obviously right (and strict) over being fast or convenient.
//!
//!  * `value`  - value model (`RVal`, `RType`), the format-code table
//!  * `decode` - strict decoder
//!  * `encode` - encoder with an explicit choice of encoding variant per node
//!  * `frame`  - frame header parsing/encoding
//!  * `tables` - composite-type tables of the spec, composite validation, message-format parsing

pub mod decode;
pub mod encode;
pub mod frame;
pub mod tables;
pub mod value;

pub use decode::{decode, decode_all, decode_all_lenient_empty_array, MAX_DEPTH, MAX_ZERO_WIDTH_ELEMS};
pub use encode::{encode_narrowest, encode_script, encode_widest, encode_with, variant_counts, variants, Variant};
pub use frame::{encode_frame, parse_frames, split_body, RFrame};
pub use tables::{
    composite_by_code, composite_by_name, composite_by_symbol, composite_provides, parse_message, section_code,
    section_name, validate_composite, Composite, FType, Field, COMPOSITES,
};
pub use value::{code_info, Kind, RErr, RType, RVal};
