//! Value model of the AMQP 1.0 type system (OASIS AMQP 1.0 Part 1) and the format-code table (section 1.6).

use std::collections::HashSet;
use std::fmt;

#[derive(Debug, Clone, PartialEq, Eq, Hash, PartialOrd, Ord)]
pub enum RVal {
    Null,
    Bool(bool),
    Ubyte(u8),
    Ushort(u16),
    Uint(u32),
    Ulong(u64),
    Byte(i8),
    Short(i16),
    Int(i32),
    Long(i64),
    /// IEEE 754 binary32 bit pattern
    Float(u32),
    /// IEEE 754 binary64 bit pattern
    Double(u64),
    Dec32([u8; 4]),
    Dec64([u8; 8]),
    Dec128([u8; 16]),
    /// Unicode code point (UTF-32BE on the wire)
    Char(u32),
    /// milliseconds since the unix epoch
    Timestamp(i64),
    Uuid([u8; 16]),
    Binary(Vec<u8>),
    Str(String),
    /// symbol bytes; ASCII per spec (the decoder rejects non-ASCII, the encoder writes whatever it is given)
    Sym(Vec<u8>),
    List(Vec<RVal>),
    /// key/value pairs in wire order
    Map(Vec<(RVal, RVal)>),
    /// element type + elements; every element must have exactly that type
    Array(RType, Vec<RVal>),
    /// descriptor, value
    Described(Box<RVal>, Box<RVal>),
}

/// The type of a value. For described types it carries the descriptor, so that an (even empty) array of
/// described values knows the constructor `0x00 descriptor primitive-constructor` it has to write.
#[derive(Debug, Clone, PartialEq, Eq, Hash, PartialOrd, Ord)]
pub enum RType {
    Null,
    Bool,
    Ubyte,
    Ushort,
    Uint,
    Ulong,
    Byte,
    Short,
    Int,
    Long,
    Float,
    Double,
    Dec32,
    Dec64,
    Dec128,
    Char,
    Timestamp,
    Uuid,
    Binary,
    Str,
    Sym,
    List,
    Map,
    Array,
    Described(Box<RVal>, Box<RType>),
}

impl RVal {
    pub fn rtype(&self) -> RType {
        match self {
            RVal::Null => RType::Null,
            RVal::Bool(_) => RType::Bool,
            RVal::Ubyte(_) => RType::Ubyte,
            RVal::Ushort(_) => RType::Ushort,
            RVal::Uint(_) => RType::Uint,
            RVal::Ulong(_) => RType::Ulong,
            RVal::Byte(_) => RType::Byte,
            RVal::Short(_) => RType::Short,
            RVal::Int(_) => RType::Int,
            RVal::Long(_) => RType::Long,
            RVal::Float(_) => RType::Float,
            RVal::Double(_) => RType::Double,
            RVal::Dec32(_) => RType::Dec32,
            RVal::Dec64(_) => RType::Dec64,
            RVal::Dec128(_) => RType::Dec128,
            RVal::Char(_) => RType::Char,
            RVal::Timestamp(_) => RType::Timestamp,
            RVal::Uuid(_) => RType::Uuid,
            RVal::Binary(_) => RType::Binary,
            RVal::Str(_) => RType::Str,
            RVal::Sym(_) => RType::Sym,
            RVal::List(_) => RType::List,
            RVal::Map(_) => RType::Map,
            RVal::Array(..) => RType::Array,
            RVal::Described(d, v) => RType::Described(d.clone(), Box::new(v.rtype())),
        }
    }

    /// Ok iff the strict decoder accepts every encoding of this value, i.e. `decode_all(encode_*(v)) == Ok(v)`:
    /// chars are Unicode scalar values, symbols ASCII, array elements all of the declared type, map keys distinct.
    pub fn well_formed(&self) -> Result<(), String> {
        match self {
            RVal::Char(c) if !is_scalar(*c) => Err(format!("char {c:#x} is not a unicode scalar value")),
            RVal::Sym(s) if !s.is_ascii() => Err("symbol is not ASCII".into()),
            RVal::List(items) => items.iter().try_for_each(RVal::well_formed),
            RVal::Map(kvs) => {
                let mut seen = HashSet::new();
                for (k, v) in kvs {
                    k.well_formed()?;
                    v.well_formed()?;
                    if !seen.insert(k) {
                        return Err(format!("duplicate map key {k:?}"));
                    }
                }
                Ok(())
            }
            RVal::Array(ty, elems) => {
                let mut t = ty;
                while let RType::Described(d, inner) = t {
                    d.well_formed()?;
                    t = inner;
                }
                for e in elems {
                    if e.rtype() != *ty {
                        return Err(format!("array element {e:?} is not of the element type {ty:?}"));
                    }
                    e.well_formed()?;
                }
                Ok(())
            }
            RVal::Described(d, v) => d.well_formed().and_then(|_| v.well_formed()),
            _ => Ok(()),
        }
    }
}

pub(crate) fn is_scalar(c: u32) -> bool {
    c <= 0x10FFFF && !(0xD800..=0xDFFF).contains(&c)
}

#[derive(Debug, Clone, PartialEq, Eq)]
pub struct RErr {
    pub offset: usize,
    pub msg: String,
}

impl fmt::Display for RErr {
    fn fmt(&self, f: &mut fmt::Formatter<'_>) -> fmt::Result {
        write!(f, "{} (at offset {})", self.msg, self.offset)
    }
}
impl std::error::Error for RErr {}

pub(crate) fn err<T>(offset: usize, msg: impl Into<String>) -> Result<T, RErr> {
    Err(RErr { offset, msg: msg.into() })
}

/// Shape of the data that follows a (primitive) constructor.
#[derive(Debug, Clone, Copy, PartialEq, Eq)]
pub enum Kind {
    /// fixed number of data octets (0, 1, 2, 4, 8 or 16)
    Fixed(usize),
    /// variable width: a 1- or 4-octet length, then that many octets
    Var(usize),
    /// list/map: size and count fields of the given width (1 or 4), then `count` values with constructors
    Compound(usize),
    /// array: size and count of the given width, one element constructor, then `count` bare elements
    Array(usize),
}

/// The primitive format codes of AMQP 1.0: (spec name, type, data shape). `None` for every other octet
/// (0x00, the described-type marker, is not a format code in this sense).
pub fn code_info(code: u8) -> Option<(&'static str, RType, Kind)> {
    use Kind::*;
    Some(match code {
        0x40 => ("null", RType::Null, Fixed(0)),
        0x56 => ("boolean", RType::Bool, Fixed(1)),
        0x41 => ("true", RType::Bool, Fixed(0)),
        0x42 => ("false", RType::Bool, Fixed(0)),
        0x50 => ("ubyte", RType::Ubyte, Fixed(1)),
        0x60 => ("ushort", RType::Ushort, Fixed(2)),
        0x70 => ("uint", RType::Uint, Fixed(4)),
        0x52 => ("smalluint", RType::Uint, Fixed(1)),
        0x43 => ("uint0", RType::Uint, Fixed(0)),
        0x80 => ("ulong", RType::Ulong, Fixed(8)),
        0x53 => ("smallulong", RType::Ulong, Fixed(1)),
        0x44 => ("ulong0", RType::Ulong, Fixed(0)),
        0x51 => ("byte", RType::Byte, Fixed(1)),
        0x61 => ("short", RType::Short, Fixed(2)),
        0x71 => ("int", RType::Int, Fixed(4)),
        0x54 => ("smallint", RType::Int, Fixed(1)),
        0x81 => ("long", RType::Long, Fixed(8)),
        0x55 => ("smalllong", RType::Long, Fixed(1)),
        0x72 => ("float", RType::Float, Fixed(4)),
        0x82 => ("double", RType::Double, Fixed(8)),
        0x74 => ("decimal32", RType::Dec32, Fixed(4)),
        0x84 => ("decimal64", RType::Dec64, Fixed(8)),
        0x94 => ("decimal128", RType::Dec128, Fixed(16)),
        0x73 => ("char", RType::Char, Fixed(4)),
        0x83 => ("timestamp", RType::Timestamp, Fixed(8)),
        0x98 => ("uuid", RType::Uuid, Fixed(16)),
        0xa0 => ("vbin8", RType::Binary, Var(1)),
        0xb0 => ("vbin32", RType::Binary, Var(4)),
        0xa1 => ("str8-utf8", RType::Str, Var(1)),
        0xb1 => ("str32-utf8", RType::Str, Var(4)),
        0xa3 => ("sym8", RType::Sym, Var(1)),
        0xb3 => ("sym32", RType::Sym, Var(4)),
        0x45 => ("list0", RType::List, Fixed(0)),
        0xc0 => ("list8", RType::List, Compound(1)),
        0xd0 => ("list32", RType::List, Compound(4)),
        0xc1 => ("map8", RType::Map, Compound(1)),
        0xd1 => ("map32", RType::Map, Compound(4)),
        0xe0 => ("array8", RType::Array, Array(1)),
        0xf0 => ("array32", RType::Array, Array(4)),
        _ => return None,
    })
}
