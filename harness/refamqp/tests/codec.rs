use refamqp::*;
use RVal::*;

fn sym(s: &str) -> RVal {
    Sym(s.as_bytes().to_vec())
}
fn st(s: &str) -> RVal {
    Str(s.to_string())
}
fn desc(d: RVal, v: RVal) -> RVal {
    Described(Box::new(d), Box::new(v))
}
fn dtype(d: RVal, t: RType) -> RType {
    RType::Described(Box::new(d), Box::new(t))
}

/// every leaf type at its boundary values
fn leaves() -> Vec<RVal> {
    let mut v = vec![Null, Bool(true), Bool(false)];
    v.extend([0, 1, 127, 128, 255].map(Ubyte));
    v.extend([0, 1, 255, 256, 0x1234, 65535].map(Ushort));
    v.extend([0, 1, 255, 256, 0x12345678, u32::MAX].map(Uint));
    v.extend([0, 1, 0x10, 255, 256, 0x0123456789abcdef, u64::MAX].map(Ulong));
    v.extend([-128, -1, 0, 1, 127].map(Byte));
    v.extend([i16::MIN, -129, -1, 0, 255, i16::MAX].map(Short));
    v.extend([i32::MIN, -129, -128, -1, 0, 1, 127, 128, i32::MAX].map(Int));
    v.extend([i64::MIN, -129, -128, -1, 0, 1, 127, 128, i64::MAX].map(Long));
    v.extend([0.0f32, -0.0, 1.0, f32::MIN_POSITIVE, f32::INFINITY, f32::NEG_INFINITY, f32::NAN].map(|x| Float(x.to_bits())));
    v.extend([0x7fc00001, 0xffffffff].map(Float)); // NaN payloads survive as bit patterns
    v.extend([0.0f64, -0.0, 1.0, f64::MAX, f64::INFINITY, f64::NAN].map(|x| Double(x.to_bits())));
    v.extend([0x7ff8000000000001, u64::MAX].map(Double));
    v.extend([Dec32([0; 4]), Dec32([0x22, 0x50, 0, 1]), Dec64([0; 8]), Dec64([1, 2, 3, 4, 5, 6, 7, 8])]);
    v.extend([Dec128([0; 16]), Dec128([0xff; 16])]);
    v.extend([0, 0x61, 0xd7ff, 0xe000, 0x1f600, 0x10ffff].map(Char));
    v.extend([i64::MIN, -1, 0, 1, 1_700_000_000_000, i64::MAX].map(Timestamp));
    v.extend([Uuid([0; 16]), Uuid([0, 1, 2, 3, 4, 5, 6, 7, 8, 9, 10, 11, 12, 13, 14, 15])]);
    for n in [0, 1, 2, 255, 256, 1000] {
        v.push(Binary((0..n).map(|i| i as u8).collect()));
        v.push(Str("x".repeat(n)));
        v.push(Sym(vec![b's'; n]));
    }
    v.extend([st("\u{e9}"), st("\u{20ac}\u{1f600}"), st(&"\u{e9}".repeat(127)), st(&"\u{e9}".repeat(128)), st("\0")]);
    v
}

fn compounds() -> Vec<RVal> {
    let mut v = Vec::new();
    let ls = leaves();
    // lists
    v.push(List(vec![]));
    v.extend(ls.iter().map(|x| List(vec![x.clone()])));
    v.push(List(ls.clone()));
    v.push(List(vec![Uint(0), Ulong(0), Bool(true)]));
    v.push(List(vec![Null, Null, st("a"), sym("b"), Binary(vec![1])]));
    v.push(List(vec![List(vec![])]));
    v.push(List(vec![List(vec![List(vec![]), List(vec![Uint(1)])]), Map(vec![])]));
    for n in [253, 254, 255, 256] {
        v.push(List(vec![Null; n])); // around the list8 size/count limits
    }
    v.push(List(vec![Uint(0); 50])); // 50..250 body bytes depending on the children
    v.push(List(vec![st(&"y".repeat(250))]));
    v.push(List(vec![st(&"y".repeat(251))]));
    // maps, including compound keys
    v.push(Map(vec![]));
    v.push(Map(vec![(sym("a"), Bool(true))]));
    v.push(Map(vec![(st("k1"), Uint(0)), (st("k2"), Ulong(300)), (Uint(7), Null), (Null, Null)]));
    v.push(Map(vec![(List(vec![Uint(1)]), Map(vec![])), (Map(vec![(Null, Null)]), List(vec![]))]));
    v.push(Map(vec![(Array(RType::Uint, vec![Uint(1)]), st("v")), (desc(Ulong(1), Null), Null)]));
    v.push(Map((0..127).map(|i| (Ubyte(i), Null)).collect()));
    v.push(Map((0..128).map(|i| (Ubyte(i), Null)).collect()));
    // described
    v.push(desc(Ulong(0x10), List(vec![])));
    v.push(desc(sym("amqp:open:list"), List(vec![st("c")])));
    v.push(desc(Ulong(0x77), desc(Ulong(0x1_0000_0000), Int(5))));
    v.push(desc(desc(Ulong(0), sym("d")), Null));
    v.push(desc(List(vec![Uint(0)]), Map(vec![(Null, Bool(false))])));
    // arrays of every leaf type: empty, singletons, everything of one type together
    let mut types: Vec<RType> = ls.iter().map(RVal::rtype).collect();
    types.dedup();
    for t in &types {
        let of_type: Vec<RVal> = ls.iter().filter(|x| x.rtype() == *t).cloned().collect();
        v.push(Array(t.clone(), vec![]));
        v.extend(of_type.iter().map(|x| Array(t.clone(), vec![x.clone()])));
        v.push(Array(t.clone(), of_type));
    }
    v.push(Array(RType::Null, vec![Null; 3]));
    v.push(Array(RType::Bool, vec![Bool(true), Bool(true)]));
    v.push(Array(RType::Bool, vec![Bool(false), Bool(false)]));
    v.push(Array(RType::Bool, vec![Bool(true), Bool(false)]));
    v.push(Array(RType::Uint, vec![Uint(0), Uint(0)]));
    v.push(Array(RType::Uint, vec![Uint(0), Uint(255)]));
    v.push(Array(RType::Ulong, vec![Ulong(0), Ulong(0), Ulong(0)]));
    v.push(Array(RType::Long, vec![Long(-128), Long(127)]));
    v.push(Array(RType::Str, vec![st("a"), st("bc")]));
    v.push(Array(RType::Sym, vec![sym("ANONYMOUS"), sym("PLAIN"), sym(&"M".repeat(256))]));
    for n in [252, 253, 254, 255, 256] {
        v.push(Array(RType::Ubyte, vec![Ubyte(9); n])); // around the array8 limits
        v.push(Array(RType::Bool, vec![Bool(true); n]));
    }
    // arrays of compounds
    v.push(Array(RType::List, vec![]));
    v.push(Array(RType::List, vec![List(vec![]), List(vec![])]));
    v.push(Array(RType::List, vec![List(vec![Uint(1)]), List(vec![])]));
    v.push(Array(RType::List, vec![List(vec![st("a")]), List(vec![Null, Null]), List(vec![List(vec![Uint(0)])])]));
    v.push(Array(RType::Map, vec![]));
    v.push(Array(RType::Map, vec![Map(vec![(sym("a"), Bool(true))])]));
    v.push(Array(RType::Map, vec![Map(vec![]), Map(vec![(Uint(0), Uint(0)), (Uint(1), Array(RType::Null, vec![]))])]));
    v.push(Array(RType::Array, vec![]));
    v.push(Array(RType::Array, vec![Array(RType::Ubyte, vec![Ubyte(1), Ubyte(2)]), Array(RType::Ubyte, vec![Ubyte(3)])]));
    v.push(Array(RType::Array, vec![Array(RType::Uint, vec![]), Array(RType::Str, vec![st("a")])]));
    v.push(Array(RType::Array, vec![Array(RType::Bool, vec![Bool(true); 254]), Array(RType::Bool, vec![])]));
    v.push(Array(RType::Array, vec![Array(RType::Bool, vec![Bool(true); 253]), Array(RType::Bool, vec![])]));
    v.push(Array(
        RType::Array,
        vec![Array(RType::Array, vec![Array(RType::Uint, vec![Uint(0)]), Array(RType::List, vec![List(vec![])])])],
    ));
    // arrays of described values
    let d_uint = dtype(Ulong(0x10), RType::Uint);
    v.push(Array(d_uint.clone(), vec![]));
    v.push(Array(d_uint.clone(), vec![desc(Ulong(0x10), Uint(1)), desc(Ulong(0x10), Uint(300))]));
    v.push(Array(d_uint.clone(), vec![desc(Ulong(0x10), Uint(0))]));
    let d_sym_list = dtype(sym("x:y"), RType::List);
    v.push(Array(d_sym_list.clone(), vec![desc(sym("x:y"), List(vec![])), desc(sym("x:y"), List(vec![Ulong(0), st("s")]))]));
    let d_nested = dtype(Ulong(1), dtype(Ulong(0), RType::Str));
    v.push(Array(d_nested.clone(), vec![]));
    v.push(Array(d_nested, vec![desc(Ulong(1), desc(Ulong(0), st("a"))), desc(Ulong(1), desc(Ulong(0), st("")))]));
    let d_arr = dtype(desc(Ulong(0), Uint(0)), RType::Array);
    v.push(Array(d_arr, vec![desc(desc(Ulong(0), Uint(0)), Array(RType::Uint, vec![Uint(0)]))]));
    v.push(List(vec![Array(d_uint, vec![desc(Ulong(0x10), Uint(7))]), Array(RType::List, vec![List(vec![Bool(true)])])]));
    v
}

/// Every script if there are at most 4096, else all-narrow, all-wide and a few hundred pseudo-random ones.
fn scripts(counts: &[usize]) -> (Vec<Vec<usize>>, bool) {
    let total = counts.iter().try_fold(1usize, |acc, c| acc.checked_mul(*c).filter(|t| *t <= 4096));
    let mut out = Vec::new();
    if total.is_some() {
        let mut s = vec![0; counts.len()];
        loop {
            out.push(s.clone());
            let Some(i) = (0..s.len()).rev().find(|i| s[*i] + 1 < counts[*i]) else { break };
            s[i] += 1;
            s[i + 1..].fill(0);
        }
        assert_eq!(out.len(), total.unwrap());
    } else {
        out.push(vec![0; counts.len()]);
        out.push(counts.iter().map(|c| c - 1).collect());
        let mut x: u64 = 0x9e3779b97f4a7c15;
        for _ in 0..300 {
            out.push(counts.iter().map(|c| (lcg(&mut x) % *c as u64) as usize).collect());
        }
    }
    (out, total.is_some())
}

fn has_bool_array(v: &RVal) -> bool {
    match v {
        Array(t, elems) => {
            let mut t = t;
            while let RType::Described(_, inner) = t {
                t = inner;
            }
            *t == RType::Bool || elems.iter().any(has_bool_array)
        }
        List(items) => items.iter().any(has_bool_array),
        Map(kvs) => kvs.iter().any(|(k, x)| has_bool_array(k) || has_bool_array(x)),
        Described(d, x) => has_bool_array(d) || has_bool_array(x),
        _ => false,
    }
}

fn lcg(x: &mut u64) -> u64 {
    *x = x.wrapping_mul(6364136223846793005).wrapping_add(1442695040888963407);
    *x >> 33
}

#[test]
fn roundtrip_every_variant_script() {
    let mut values = leaves();
    values.extend(compounds());
    assert!(values.len() > 300, "{}", values.len());
    let (mut exhaustive, mut encodings) = (0, 0);
    for v in &values {
        v.well_formed().unwrap_or_else(|e| panic!("{v:?}: {e}"));
        let counts = variant_counts(v);
        assert_eq!(counts[0], variants(v).len());
        let narrowest = encode_narrowest(v);
        let widest = encode_widest(v);
        assert_eq!(decode_all(&narrowest).as_ref(), Ok(v), "narrowest {narrowest:02x?}");
        assert_eq!(decode_all(&widest).as_ref(), Ok(v), "widest {widest:02x?}");
        let (all, is_exhaustive) = scripts(&counts);
        exhaustive += is_exhaustive as usize;
        let mut distinct = std::collections::HashSet::new();
        for s in &all {
            let bytes = encode_script(v, s);
            assert_eq!(decode(&bytes), Ok((v.clone(), bytes.len())), "script {s:?} -> {bytes:02x?}");
            // ("narrowest" is specified to use 0x56 for boolean arrays, so the zero-width 0x41/0x42 forms can undercut it)
            assert!(narrowest.len() <= bytes.len() || has_bool_array(v), "{v:?} {s:?}");
            assert!(bytes.len() <= widest.len(), "{v:?} {s:?}");
            distinct.insert(bytes);
        }
        if is_exhaustive {
            assert_eq!(distinct.len(), all.len(), "scripts of {v:?} must give pairwise different encodings");
        }
        encodings += all.len();
        assert_eq!(encode_script(v, &[]), encode_with(v, &mut |_, _| 0));
    }
    println!("{} values, {exhaustive} exhaustively, {encodings} encodings", values.len());
}

#[test]
fn variants_per_node() {
    let codes = |v: &RVal| variants(v).iter().map(|x| (x.code, x.elem_code)).collect::<Vec<_>>();
    let names = |v: &RVal| variants(v).iter().map(|x| x.name).collect::<Vec<_>>();
    assert_eq!(names(&Uint(0)), ["uint0", "smalluint", "uint"]);
    assert_eq!(codes(&Uint(0)), [(0x43, None), (0x52, None), (0x70, None)]);
    assert_eq!(codes(&Uint(255)), [(0x52, None), (0x70, None)]);
    assert_eq!(codes(&Uint(300)), [(0x70, None)]);
    assert_eq!(codes(&Ulong(0)), [(0x44, None), (0x53, None), (0x80, None)]);
    assert_eq!(codes(&Bool(true)), [(0x41, None), (0x56, None)]);
    assert_eq!(codes(&Bool(false)), [(0x42, None), (0x56, None)]);
    assert_eq!(codes(&Int(-128)), [(0x54, None), (0x71, None)]);
    assert_eq!(codes(&Int(128)), [(0x71, None)]);
    assert_eq!(codes(&Long(127)), [(0x55, None), (0x81, None)]);
    assert_eq!(codes(&Long(-129)), [(0x81, None)]);
    assert_eq!(names(&List(vec![])), ["list0", "list8", "list32"]);
    assert_eq!(names(&List(vec![Null])), ["list8", "list32"]);
    assert_eq!(names(&List(vec![Null; 256])), ["list32"]);
    assert_eq!(names(&Map(vec![])), ["map8", "map32"]);
    assert_eq!(names(&st("a")), ["str8-utf8", "str32-utf8"]);
    assert_eq!(names(&Str("a".repeat(256))), ["str32-utf8"]);
    assert_eq!(names(&sym("a")), ["sym8", "sym32"]);
    assert_eq!(names(&Binary(vec![])), ["vbin8", "vbin32"]);
    assert_eq!(names(&desc(Null, Null)), ["described"]);
    let arr = |xs: &[u32]| Array(RType::Uint, xs.iter().map(|x| Uint(*x)).collect());
    assert_eq!(codes(&arr(&[1, 2])), [(0xe0, Some(0x52)), (0xe0, Some(0x70)), (0xf0, Some(0x52)), (0xf0, Some(0x70))]);
    assert_eq!(codes(&arr(&[0, 0]))[..3], [(0xe0, Some(0x43)), (0xe0, Some(0x52)), (0xe0, Some(0x70))]);
    assert_eq!(codes(&arr(&[0, 300])), [(0xe0, Some(0x70)), (0xf0, Some(0x70))]);
    assert_eq!(codes(&arr(&[])).len(), 6);
    assert_eq!(codes(&Array(RType::Bool, vec![Bool(true); 2]))[..2], [(0xe0, Some(0x41)), (0xe0, Some(0x56))]);
    assert_eq!(codes(&Array(RType::Bool, vec![Bool(true), Bool(false)])), [(0xe0, Some(0x56)), (0xf0, Some(0x56))]);
    assert_eq!(codes(&Array(RType::List, vec![List(vec![]); 2])).len(), 6); // list0 | list8 | list32 element constructor
    assert_eq!(codes(&Array(RType::List, vec![List(vec![]), List(vec![Null])])).len(), 4);
    // pre-order counts: list, uint0, described, descriptor, value
    assert_eq!(variant_counts(&List(vec![Uint(0), desc(Ulong(1), Bool(true))])), [2, 3, 1, 2, 2]);
    // array, descriptor (once, in the constructor), then per element: described wrapper, forced inner value
    let a = Array(dtype(Ulong(0), RType::Uint), vec![desc(Ulong(0), Uint(1)), desc(Ulong(0), Uint(2))]);
    assert_eq!(variant_counts(&a), [4, 3, 1, 1, 1, 1]);
}

fn goldens() -> Vec<(RVal, Vec<u8>, Vec<u8>)> {
    let g = |v: RVal, narrow: &[u8], wide: &[u8]| (v, narrow.to_vec(), wide.to_vec());
    let uuid: [u8; 16] = [0xf8, 0x1d, 0x4f, 0xae, 0x7d, 0xec, 0x11, 0xd0, 0xa7, 0x65, 0x00, 0xa0, 0xc9, 0x1e, 0x6b, 0xf6];
    vec![
        g(Null, &[0x40], &[0x40]),
        g(Bool(true), &[0x41], &[0x56, 0x01]),
        g(Bool(false), &[0x42], &[0x56, 0x00]),
        g(Ubyte(7), &[0x50, 0x07], &[0x50, 0x07]),
        g(Ushort(0x1234), &[0x60, 0x12, 0x34], &[0x60, 0x12, 0x34]),
        g(Uint(0), &[0x43], &[0x70, 0, 0, 0, 0]),
        g(Uint(1), &[0x52, 0x01], &[0x70, 0, 0, 0, 1]),
        g(Uint(0x12345678), &[0x70, 0x12, 0x34, 0x56, 0x78], &[0x70, 0x12, 0x34, 0x56, 0x78]),
        g(Ulong(0), &[0x44], &[0x80, 0, 0, 0, 0, 0, 0, 0, 0]),
        g(Ulong(0x10), &[0x53, 0x10], &[0x80, 0, 0, 0, 0, 0, 0, 0, 0x10]),
        g(Ulong(256), &[0x80, 0, 0, 0, 0, 0, 0, 1, 0], &[0x80, 0, 0, 0, 0, 0, 0, 1, 0]),
        g(Byte(-1), &[0x51, 0xff], &[0x51, 0xff]),
        g(Short(-2), &[0x61, 0xff, 0xfe], &[0x61, 0xff, 0xfe]),
        g(Int(-1), &[0x54, 0xff], &[0x71, 0xff, 0xff, 0xff, 0xff]),
        g(Int(128), &[0x71, 0, 0, 0, 0x80], &[0x71, 0, 0, 0, 0x80]),
        g(Long(-128), &[0x55, 0x80], &[0x81, 0xff, 0xff, 0xff, 0xff, 0xff, 0xff, 0xff, 0x80]),
        g(Long(128), &[0x81, 0, 0, 0, 0, 0, 0, 0, 0x80], &[0x81, 0, 0, 0, 0, 0, 0, 0, 0x80]),
        g(Float(1.0f32.to_bits()), &[0x72, 0x3f, 0x80, 0, 0], &[0x72, 0x3f, 0x80, 0, 0]),
        g(Double(1.0f64.to_bits()), &[0x82, 0x3f, 0xf0, 0, 0, 0, 0, 0, 0], &[0x82, 0x3f, 0xf0, 0, 0, 0, 0, 0, 0]),
        g(Dec32([1, 2, 3, 4]), &[0x74, 1, 2, 3, 4], &[0x74, 1, 2, 3, 4]),
        g(Dec64([1, 2, 3, 4, 5, 6, 7, 8]), &[0x84, 1, 2, 3, 4, 5, 6, 7, 8], &[0x84, 1, 2, 3, 4, 5, 6, 7, 8]),
        g(Dec128([9; 16]), &[[0x94].as_slice(), &[9; 16]].concat(), &[[0x94].as_slice(), &[9; 16]].concat()),
        g(Char(0x61), &[0x73, 0, 0, 0, 0x61], &[0x73, 0, 0, 0, 0x61]),
        g(Char(0x1f600), &[0x73, 0, 0x01, 0xf6, 0x00], &[0x73, 0, 0x01, 0xf6, 0x00]),
        g(Timestamp(1), &[0x83, 0, 0, 0, 0, 0, 0, 0, 1], &[0x83, 0, 0, 0, 0, 0, 0, 0, 1]),
        g(Timestamp(-1), &[0x83, 0xff, 0xff, 0xff, 0xff, 0xff, 0xff, 0xff, 0xff], &[[0x83].as_slice(), &[0xff; 8]].concat()),
        g(Uuid(uuid), &[[0x98].as_slice(), &uuid].concat(), &[[0x98].as_slice(), &uuid].concat()),
        g(Binary(vec![1, 2]), &[0xa0, 0x02, 1, 2], &[0xb0, 0, 0, 0, 2, 1, 2]),
        g(st("a"), &[0xa1, 1, 0x61], &[0xb1, 0, 0, 0, 1, 0x61]),
        g(st("\u{e9}"), &[0xa1, 2, 0xc3, 0xa9], &[0xb1, 0, 0, 0, 2, 0xc3, 0xa9]), // length in bytes
        g(sym("ab"), &[0xa3, 2, 0x61, 0x62], &[0xb3, 0, 0, 0, 2, 0x61, 0x62]),
        g(List(vec![]), &[0x45], &[0xd0, 0, 0, 0, 4, 0, 0, 0, 0]),
        g(List(vec![Uint(1)]), &[0xc0, 0x03, 0x01, 0x52, 0x01], &[0xd0, 0, 0, 0, 9, 0, 0, 0, 1, 0x70, 0, 0, 0, 1]),
        g(Map(vec![]), &[0xc1, 0x01, 0x00], &[0xd1, 0, 0, 0, 4, 0, 0, 0, 0]),
        g(
            Map(vec![(sym("a"), Bool(true))]),
            &[0xc1, 0x05, 0x02, 0xa3, 0x01, 0x61, 0x41],
            &[0xd1, 0, 0, 0, 12, 0, 0, 0, 2, 0xb3, 0, 0, 0, 1, 0x61, 0x56, 0x01],
        ),
        g(
            Array(RType::Uint, vec![Uint(1), Uint(2)]),
            &[0xe0, 0x04, 0x02, 0x52, 0x01, 0x02],
            &[0xf0, 0, 0, 0, 13, 0, 0, 0, 2, 0x70, 0, 0, 0, 1, 0, 0, 0, 2],
        ),
        g(Array(RType::Null, vec![Null; 3]), &[0xe0, 0x02, 0x03, 0x40], &[0xf0, 0, 0, 0, 5, 0, 0, 0, 3, 0x40]),
        g(
            Array(RType::Bool, vec![Bool(true), Bool(false)]),
            &[0xe0, 0x04, 0x02, 0x56, 0x01, 0x00],
            &[0xf0, 0, 0, 0, 7, 0, 0, 0, 2, 0x56, 0x01, 0x00],
        ),
        g(
            Array(RType::Bool, vec![Bool(true), Bool(true)]), // narrowest uses 0x56, not the zero-width 0x41
            &[0xe0, 0x04, 0x02, 0x56, 0x01, 0x01],
            &[0xf0, 0, 0, 0, 7, 0, 0, 0, 2, 0x56, 0x01, 0x01],
        ),
        g(
            Array(RType::Str, vec![st("a"), st("bc")]),
            &[0xe0, 0x07, 0x02, 0xa1, 0x01, 0x61, 0x02, 0x62, 0x63],
            &[0xf0, 0, 0, 0, 16, 0, 0, 0, 2, 0xb1, 0, 0, 0, 1, 0x61, 0, 0, 0, 2, 0x62, 0x63],
        ),
        g(Array(RType::Str, vec![]), &[0xe0, 0x02, 0x00, 0xa1], &[0xf0, 0, 0, 0, 5, 0, 0, 0, 0, 0xb1]),
        g(
            Array(RType::List, vec![List(vec![Uint(1)]), List(vec![])]),
            &[0xe0, 0x08, 0x02, 0xc0, 0x03, 0x01, 0x52, 0x01, 0x01, 0x00],
            &[0xf0, 0, 0, 0, 26, 0, 0, 0, 2, 0xd0, 0, 0, 0, 9, 0, 0, 0, 1, 0x70, 0, 0, 0, 1, 0, 0, 0, 4, 0, 0, 0, 0],
        ),
        g(
            Array(RType::Map, vec![Map(vec![(sym("a"), Bool(true))])]),
            &[0xe0, 0x08, 0x01, 0xc1, 0x05, 0x02, 0xa3, 0x01, 0x61, 0x41],
            &[0xf0, 0, 0, 0, 21, 0, 0, 0, 1, 0xd1, 0, 0, 0, 12, 0, 0, 0, 2, 0xb3, 0, 0, 0, 1, 0x61, 0x56, 0x01],
        ),
        g(
            Array(RType::Array, vec![Array(RType::Ubyte, vec![Ubyte(1), Ubyte(2)]), Array(RType::Ubyte, vec![Ubyte(3)])]),
            &[0xe0, 0x0b, 0x02, 0xe0, 0x04, 0x02, 0x50, 0x01, 0x02, 0x03, 0x01, 0x50, 0x03],
            &[0xf0, 0, 0, 0, 26, 0, 0, 0, 2, 0xf0, 0, 0, 0, 7, 0, 0, 0, 2, 0x50, 1, 2, 0, 0, 0, 6, 0, 0, 0, 1, 0x50, 3],
        ),
        g(desc(Ulong(0x10), List(vec![])), &[0x00, 0x53, 0x10, 0x45], &[0, 0x80, 0, 0, 0, 0, 0, 0, 0, 0x10, 0xd0, 0, 0, 0, 4, 0, 0, 0, 0]),
        g(
            desc(sym("a:b"), st("x")),
            &[0x00, 0xa3, 0x03, 0x61, 0x3a, 0x62, 0xa1, 0x01, 0x78],
            &[0x00, 0xb3, 0, 0, 0, 3, 0x61, 0x3a, 0x62, 0xb1, 0, 0, 0, 1, 0x78],
        ),
        g(
            Array(dtype(Ulong(0x10), RType::Uint), vec![desc(Ulong(0x10), Uint(1)), desc(Ulong(0x10), Uint(2))]),
            &[0xe0, 0x07, 0x02, 0x00, 0x53, 0x10, 0x52, 0x01, 0x02],
            &[0xf0, 0, 0, 0, 23, 0, 0, 0, 2, 0x00, 0x80, 0, 0, 0, 0, 0, 0, 0, 0x10, 0x70, 0, 0, 0, 1, 0, 0, 0, 2],
        ),
        g(
            Array(dtype(Ulong(0x10), RType::Uint), vec![]),
            &[0xe0, 0x05, 0x00, 0x00, 0x53, 0x10, 0x43],
            &[0xf0, 0, 0, 0, 15, 0, 0, 0, 0, 0x00, 0x80, 0, 0, 0, 0, 0, 0, 0, 0x10, 0x70],
        ),
        // an "open" performative: container-id "c", hostname null, max-frame-size 512
        g(
            desc(Ulong(0x10), List(vec![st("c"), Null, Uint(512)])),
            &[0x00, 0x53, 0x10, 0xc0, 0x0a, 0x03, 0xa1, 0x01, 0x63, 0x40, 0x70, 0, 0, 2, 0],
            &[0, 0x80, 0, 0, 0, 0, 0, 0, 0, 0x10, 0xd0, 0, 0, 0, 16, 0, 0, 0, 3, 0xb1, 0, 0, 0, 1, 0x63, 0x40, 0x70, 0, 0, 2, 0],
        ),
    ]
}

#[test]
fn golden_vectors() {
    for (v, narrow, wide) in goldens() {
        assert_eq!(encode_narrowest(&v), narrow, "narrowest of {v:?}");
        assert_eq!(encode_widest(&v), wide, "widest of {v:?}");
        assert_eq!(decode_all(&narrow), Ok(v.clone()));
        assert_eq!(decode_all(&wide), Ok(v.clone()));
    }
    // scripted in-between forms
    assert_eq!(encode_script(&Uint(0), &[1]), [0x52, 0x00]);
    assert_eq!(encode_script(&List(vec![]), &[1]), [0xc0, 0x01, 0x00]);
    assert_eq!(encode_script(&Array(RType::Bool, vec![Bool(true); 2]), &[0]), [0xe0, 0x02, 0x02, 0x41]);
    assert_eq!(encode_script(&Array(RType::Bool, vec![Bool(false); 2]), &[0]), [0xe0, 0x02, 0x02, 0x42]);
    assert_eq!(encode_script(&Array(RType::Uint, vec![Uint(0); 3]), &[0]), [0xe0, 0x02, 0x03, 0x43]);
    assert_eq!(encode_script(&Array(RType::List, vec![List(vec![]); 2]), &[0]), [0xe0, 0x02, 0x02, 0x45]);
    assert_eq!(encode_script(&List(vec![Uint(1)]), &[0, 1]), [0xc0, 0x06, 0x01, 0x70, 0, 0, 0, 1]);
    assert_eq!(encode_script(&List(vec![Uint(1)]), &[1, 0]), [0xd0, 0, 0, 0, 6, 0, 0, 0, 1, 0x52, 1]);
    // things only the decoder sees: zero-width boolean constructors, decode() leaving a tail
    assert_eq!(decode_all(&[0xe0, 0x02, 0x02, 0x42]), Ok(Array(RType::Bool, vec![Bool(false); 2])));
    assert_eq!(decode(&[0x40, 0x41]), Ok((Null, 1)));
    assert_eq!(decode_all(&[0xf0, 0, 0, 0, 5, 0, 0, 1, 0, 0x40]), Ok(Array(RType::Null, vec![Null; 256])));
    // true narrowest may use an 8-bit form that `variants` (conservatively) does not offer
    let l = List(vec![Uint(0); 100]);
    assert_eq!(variants(&l).len(), 1);
    assert_eq!(encode_narrowest(&l)[..3], [0xc0, 101, 100]);
    assert_eq!(decode_all(&encode_narrowest(&l)), Ok(l));
}

fn nested_list32(depth: usize) -> Vec<u8> {
    let mut b = vec![0x45];
    for _ in 0..depth {
        let mut outer = vec![0xd0];
        outer.extend(((b.len() + 4) as u32).to_be_bytes());
        outer.extend(1u32.to_be_bytes());
        outer.extend(b);
        b = outer;
    }
    b
}

#[test]
fn strictness() {
    let bad: &[&[u8]] = &[
        &[],
        &[0x3f],                                  // unknown format code
        &[0x00],                                  // described without descriptor
        &[0x00, 0x53, 0x10],                      // described without value
        &[0x00, 0x3f, 0x40],                      // descriptor is not a valid value
        &[0x00, 0x40, 0x3f],                      // described value is not a valid value
        &[0xc0, 0x01, 0x01],                      // count 1, no element
        &[0xc0, 0x00],                            // size cannot hold the count
        &[0xd0, 0, 0, 0, 3, 0, 0, 0],             // ditto, 32 bit
        &[0xc0, 0x04, 0x01, 0x52, 0x01, 0x40],    // size larger than the encoded element
        &[0xc0, 0x02, 0x01, 0x52, 0x01],          // size smaller than the encoded element
        &[0xc0, 0x03, 0x02, 0x52, 0x01],          // count larger than the number of elements
        &[0xc0, 0x03, 0x00, 0x52, 0x01],          // count smaller than the number of elements
        &[0xc0, 0x03, 0xff, 0x52, 0x01],          // count beyond what size can hold
        &[0xc1, 0x02, 0x01, 0x40],                // odd map count
        &[0xc1, 0x06, 0x04, 0x43, 0x40, 0x52, 0x00, 0x40], // duplicate key (uint 0 twice, differently encoded)
        &[0xa1, 0x02, 0xff, 0xfe],                // bad utf-8
        &[0xa1, 0x03, 0xed, 0xa0, 0x80],          // utf-8 encoded surrogate
        &[0xb1, 0xff, 0xff, 0xff, 0xff, 0x61],    // length beyond input
        &[0xa3, 0x01, 0x80],                      // non-ASCII symbol
        &[0x56, 0x02],                            // boolean octet not 0/1
        &[0x73, 0x00, 0x00, 0xd8, 0x00],          // surrogate char
        &[0x73, 0x00, 0x11, 0x00, 0x00],          // char beyond U+10FFFF
        &[0xe0, 0x01, 0x01, 0x40],                // size 1: constructor missing
        &[0xe0, 0x01, 0x00],                      // even an empty array has a constructor
        &[0xe0, 0x02, 0x00, 0x3f],                // unknown element constructor
        &[0xe0, 0x04, 0x03, 0x52, 0x01, 0x02],    // count 3, two elements
        &[0xe0, 0x04, 0x01, 0x52, 0x01, 0x02],    // count 1, two elements
        &[0xe0, 0x05, 0x02, 0x52, 0x01, 0x02],    // size one too large (input truncated)
        &[0xe0, 0x05, 0x02, 0x52, 0x01, 0x02, 0x40], // size one too large (swallows a following value)
        &[0xe0, 0x03, 0x02, 0x52, 0x01, 0x02],    // size one too small
        &[0xe0, 0x03, 0x01, 0x56, 0x02],          // boolean element not 0/1
        &[0xe0, 0x04, 0x01, 0x00, 0x3f, 0x40],    // described element constructor with invalid descriptor
        &[0xe0, 0x03, 0x00, 0x00, 0x40],          // described element constructor without primitive constructor
        &[0xf0, 0, 0, 0, 5, 0xff, 0xff, 0xff, 0xff, 0x40], // 2^32-1 nulls: over the zero-width budget
        &[0xf0, 0, 0, 0, 6, 0xff, 0xff, 0xff, 0xff, 0x50, 0x01], // count beyond what size can hold
    ];
    for b in bad {
        assert!(decode(b).is_err(), "{b:02x?} decoded to {:?}", decode(b));
    }
    assert!(decode_all(&[0x40, 0x40]).is_err());
    assert!(decode_all(&nested_list32(100)).is_ok());
    assert!(decode_all(&nested_list32(MAX_DEPTH + 10)).is_err());
    let mut deep_desc = vec![0x00; 100_000];
    deep_desc.push(0x40);
    assert!(decode(&deep_desc).is_err());
    let mut deep_ctor = vec![0xf0, 0, 1, 0, 0, 0, 0, 0, 0];
    deep_ctor.extend(std::iter::repeat([0x00, 0x40]).take(0x8000 - 2).flatten());
    assert!(decode(&deep_ctor).is_err());

    // every proper prefix of every golden vector is an error, and so is a wrong outer size field
    for (v, narrow, wide) in goldens() {
        for enc in [&narrow, &wide] {
            for cut in 0..enc.len() {
                assert!(decode(&enc[..cut]).is_err(), "{v:?}: prefix {:02x?}", &enc[..cut]);
            }
            let size_at = match enc[0] {
                0xc0 | 0xc1 | 0xe0 => 1,
                0xd0 | 0xd1 | 0xf0 => 4,
                _ => continue,
            };
            for delta in [1u8, 0xff] {
                let mut m = enc.clone();
                m[size_at] = m[size_at].wrapping_add(delta);
                assert!(decode(&m).is_err(), "{v:?}: size field off by {}", delta as i8);
                m.extend([0x40; 8]); // also when there is more input to swallow
                assert!(decode(&m).is_err(), "{v:?}: size field off by {}, with tail", delta as i8);
            }
        }
    }
}

/// Whatever decodes must be well-formed and must re-encode (narrowest and widest) to something that decodes to itself.
fn check_decode(buf: &[u8]) -> bool {
    match decode(buf) {
        Ok((v, n)) => {
            assert!(n <= buf.len() && n > 0);
            v.well_formed().unwrap_or_else(|e| panic!("{buf:02x?} -> {v:?}: {e}"));
            assert_eq!(decode_all(&encode_narrowest(&v)).as_ref(), Ok(&v), "{buf:02x?}");
            assert_eq!(decode_all(&encode_widest(&v)).as_ref(), Ok(&v), "{buf:02x?}");
            true
        }
        Err(e) => {
            assert!(e.offset <= buf.len(), "{buf:02x?}: {e}");
            false
        }
    }
}

#[test]
fn decode_never_panics_small_inputs() {
    let mut ok = 0usize;
    check_decode(&[]);
    for a in 0..=255u8 {
        ok += check_decode(&[a]) as usize;
        for b in 0..=255u8 {
            ok += check_decode(&[a, b]) as usize;
        }
    }
    let alphabet: [u8; 40] = [
        0x00, 0x01, 0x02, 0x03, 0x04, 0x05, 0x08, 0x40, 0x41, 0x42, 0x43, 0x44, 0x45, 0x50, 0x52, 0x53, 0x54, 0x55, 0x56, 0x60,
        0x70, 0x73, 0x7f, 0x80, 0x98, 0xa0, 0xa1, 0xa3, 0xb0, 0xb1, 0xc0, 0xc1, 0xd0, 0xd1, 0xe0, 0xf0, 0xfe, 0xff, 0x3f, 0x61,
    ];
    for a in alphabet {
        for b in alphabet {
            for c in alphabet {
                ok += check_decode(&[a, b, c]) as usize;
                ok += check_decode(&[a, b, c, 0x40]) as usize;
                ok += check_decode(&[0xe0, 0x04, a, b, c, 0x00]) as usize;
                ok += check_decode(&[0xc1, 0x04, 0x02, a, b, c]) as usize;
            }
        }
    }
    assert!(ok > 1000, "{ok}");
}

#[test]
fn decode_never_panics_mutations_and_noise() {
    let mut x: u64 = 12345;
    let mut seeds: Vec<Vec<u8>> = goldens().into_iter().flat_map(|(_, n, w)| [n, w]).collect();
    seeds.extend(compounds().iter().filter(|v| variant_counts(v).len() < 40).map(encode_narrowest));
    let mut ok = 0usize;
    for s in &seeds {
        for i in 0..s.len().min(64) {
            for val in [0x00, 0x01, 0x02, 0x40, 0x45, 0x56, 0x7f, 0x80, 0xa1, 0xc0, 0xd0, 0xe0, 0xf0, 0xff, s[i] ^ 1, s[i].wrapping_add(1)] {
                let mut m = s.clone();
                m[i] = val;
                ok += check_decode(&m) as usize;
            }
            let mut m = s.clone();
            m.remove(i);
            ok += check_decode(&m) as usize;
            m = s.clone();
            m.insert(i, (lcg(&mut x) & 0xff) as u8);
            ok += check_decode(&m) as usize;
        }
    }
    let interesting = [0x00u8, 0x40, 0x41, 0x43, 0x45, 0x52, 0x53, 0x56, 0xa1, 0xa3, 0xc0, 0xc1, 0xd0, 0xe0, 0xf0, 0x01, 0x02, 0x03, 0x04, 0x08];
    for _ in 0..200_000 {
        let len = (lcg(&mut x) % 24) as usize;
        let buf: Vec<u8> = (0..len)
            .map(|_| match lcg(&mut x) % 4 {
                0 => (lcg(&mut x) & 0xff) as u8,
                _ => interesting[(lcg(&mut x) % interesting.len() as u64) as usize],
            })
            .collect();
        ok += check_decode(&buf) as usize;
    }
    println!("{ok} inputs decoded");
}

#[test]
fn frames() {
    let perf = encode_narrowest(&desc(Ulong(0x14), List(vec![Uint(0), Uint(1), Binary(vec![9])])));
    let mut body = perf.clone();
    body.extend([0xde, 0xad, 0xbe, 0xef]);
    let f1 = encode_frame(0, 7, &body);
    let f2 = encode_frame(0, 0, &[]); // heartbeat
    let f3 = encode_frame(1, 0, &encode_narrowest(&desc(Ulong(0x44), List(vec![Ubyte(0)]))));
    assert_eq!(f2, [0, 0, 0, 8, 2, 0, 0, 0]);
    assert_eq!(f1[..8], [0, 0, 0, (8 + body.len()) as u8, 2, 0, 0, 7]);
    assert_eq!(f3[..8], [0, 0, 0, 16, 2, 1, 0, 0]);
    assert_eq!(f3[8..], [0x00, 0x53, 0x44, 0xc0, 0x03, 0x01, 0x50, 0x00]);

    let stream = [f1.clone(), f2.clone(), f3.clone()].concat();
    let (frames, used) = parse_frames(&stream).unwrap();
    assert_eq!(used, stream.len());
    assert_eq!(frames.len(), 3);
    assert_eq!(frames[0], RFrame { size: f1.len() as u32, doff: 2, ftype: 0, channel: 7, ext_header: vec![], body: body.clone() });
    assert_eq!(frames[1], RFrame { size: 8, doff: 2, ftype: 0, channel: 0, ext_header: vec![], body: vec![] });
    assert_eq!((frames[2].ftype, frames[2].size), (1, 16));
    assert_eq!(frames.iter().flat_map(|f| encode_frame(f.ftype, f.channel, &f.body)).collect::<Vec<u8>>(), stream);

    // split at every offset: the complete frames before the cut are returned, the rest is left unconsumed
    let ends = [f1.len(), f1.len() + f2.len(), stream.len()];
    for cut in 0..=stream.len() {
        let (got, used) = parse_frames(&stream[..cut]).unwrap();
        let n = ends.iter().filter(|e| **e <= cut).count();
        assert_eq!(got, frames[..n], "cut {cut}");
        assert_eq!(used, if n == 0 { 0 } else { ends[n - 1] }, "cut {cut}");
        let (rest, used2) = parse_frames(&stream[used..]).unwrap();
        assert_eq!((rest, used + used2), (frames[n..].to_vec(), stream.len()));
    }

    // bodies
    let (v, payload) = split_body(&frames[0].body).unwrap().unwrap();
    assert_eq!(v, desc(Ulong(0x14), List(vec![Uint(0), Uint(1), Binary(vec![9])])));
    assert_eq!(payload, [0xde, 0xad, 0xbe, 0xef]);
    assert_eq!(split_body(&frames[1].body), Ok(None));
    assert!(split_body(&[0x00, 0x53]).is_err());

    // extended header: doff 3
    let ext = [0, 0, 0, 13, 3, 0, 0, 5, 0xaa, 0xbb, 0xcc, 0xdd, 0x40];
    let (got, used) = parse_frames(&ext).unwrap();
    assert_eq!(used, 13);
    assert_eq!(got[0], RFrame { size: 13, doff: 3, ftype: 0, channel: 5, ext_header: vec![0xaa, 0xbb, 0xcc, 0xdd], body: vec![0x40] });
    let (got, _) = parse_frames(&[0, 0, 0, 12, 3, 0, 0, 5, 1, 2, 3, 4]).unwrap(); // doff*4 == size: empty body
    assert_eq!((got[0].ext_header.len(), got[0].body.len()), (4, 0));

    // malformed headers, reported as soon as the offending octet is there
    assert!(parse_frames(&[0, 0, 0, 7]).is_err()); // size < 8
    assert!(parse_frames(&[0, 0, 0, 0, 2, 0, 0, 0]).is_err());
    assert!(parse_frames(&[0, 0, 0, 8, 1]).is_err()); // doff < 2
    assert!(parse_frames(&[0, 0, 0, 8, 0, 0, 0, 0]).is_err());
    assert!(parse_frames(&[0, 0, 0, 8, 3, 0, 0, 0]).is_err()); // doff*4 > size
    assert!(parse_frames(&[f2.as_slice(), &[0, 0, 0, 11, 3]].concat()).is_err()); // second frame malformed
    assert_eq!(parse_frames(&[0, 0, 0]), Ok((vec![], 0)));
    assert_eq!(parse_frames(&[0xff, 0xff, 0xff, 0xff, 0xff, 0, 0, 0]).unwrap().1, 0); // huge but well-formed: incomplete
}
