use refamqp::*;
use std::collections::HashSet;
use RVal::*;

fn sym(s: &str) -> RVal {
    Sym(s.as_bytes().to_vec())
}
fn st(s: &str) -> RVal {
    Str(s.to_string())
}
fn comp(code: u64, fields: Vec<RVal>) -> RVal {
    Described(Box::new(Ulong(code)), Box::new(List(fields)))
}
fn section(code: u64, body: RVal) -> RVal {
    Described(Box::new(Ulong(code)), Box::new(body))
}

#[test]
fn table_self_test() {
    let expected: &[(&str, u64, usize, &[&str])] = &[
        ("open", 0x10, 10, &["container-id"]),
        ("begin", 0x11, 8, &["next-outgoing-id", "incoming-window", "outgoing-window"]),
        ("attach", 0x12, 14, &["name", "handle", "role"]),
        ("flow", 0x13, 11, &["incoming-window", "next-outgoing-id", "outgoing-window"]),
        ("transfer", 0x14, 11, &["handle"]),
        ("disposition", 0x15, 6, &["role", "first"]),
        ("detach", 0x16, 3, &["handle"]),
        ("end", 0x17, 1, &[]),
        ("close", 0x18, 1, &[]),
        ("error", 0x1d, 3, &["condition"]),
        ("received", 0x23, 2, &["section-number", "section-offset"]),
        ("accepted", 0x24, 0, &[]),
        ("rejected", 0x25, 1, &[]),
        ("released", 0x26, 0, &[]),
        ("modified", 0x27, 3, &[]),
        ("source", 0x28, 11, &[]),
        ("target", 0x29, 7, &[]),
        ("delete-on-close", 0x2b, 0, &[]),
        ("delete-on-no-links", 0x2c, 0, &[]),
        ("delete-on-no-messages", 0x2d, 0, &[]),
        ("delete-on-no-links-or-messages", 0x2e, 0, &[]),
        ("coordinator", 0x30, 1, &[]),
        ("declare", 0x31, 1, &[]),
        ("discharge", 0x32, 2, &["txn-id"]),
        ("declared", 0x33, 1, &["txn-id"]),
        ("transactional-state", 0x34, 2, &["txn-id"]),
        ("sasl-mechanisms", 0x40, 1, &["sasl-server-mechanisms"]),
        ("sasl-init", 0x41, 3, &["mechanism"]),
        ("sasl-challenge", 0x42, 1, &["challenge"]),
        ("sasl-response", 0x43, 1, &["response"]),
        ("sasl-outcome", 0x44, 2, &["code"]),
        ("header", 0x70, 5, &[]),
        ("properties", 0x73, 13, &[]),
    ];
    assert_eq!(COMPOSITES.len(), expected.len());
    let (mut codes, mut symbols, mut names) = (HashSet::new(), HashSet::new(), HashSet::new());
    for c in COMPOSITES {
        assert!(codes.insert(c.code), "duplicate code {:#x}", c.code);
        assert!(symbols.insert(c.symbol), "duplicate symbol {}", c.symbol);
        assert!(names.insert(c.name), "duplicate name {}", c.name);
        assert_eq!(c.symbol, format!("amqp:{}:list", c.name));
        assert!(c.code <= 0xff && section_name(c.code).is_none());
        let (_, code, nfields, mandatory) = expected.iter().find(|e| e.0 == c.name).unwrap_or_else(|| panic!("unexpected {}", c.name));
        assert_eq!(c.code, *code, "{}", c.name);
        assert_eq!(c.fields.len(), *nfields, "{}", c.name);
        let m: Vec<&str> = c.fields.iter().filter(|f| f.mandatory).map(|f| f.name).collect();
        assert_eq!(m, *mandatory, "{}", c.name);
        let field_names: HashSet<&str> = c.fields.iter().map(|f| f.name).collect();
        assert_eq!(field_names.len(), c.fields.len(), "{}: duplicate field name", c.name);
        assert_eq!(composite_by_code(c.code).unwrap().name, c.name);
        assert_eq!(composite_by_symbol(c.symbol.as_bytes()).unwrap().name, c.name);
        assert_eq!(composite_by_name(c.name).unwrap().code, c.code);
        assert!(!composite_provides(c.name).is_empty() || matches!(c.name, "declare" | "discharge"), "{}", c.name);
    }
    assert!(composite_by_code(0x19).is_none() && composite_by_symbol(b"amqp:nope:list").is_none() && composite_by_name("nope").is_none());

    // spot checks of types / multiple / default against the spec text
    let field = |c: &str, f: &str| *composite_by_name(c).unwrap().fields.iter().find(|x| x.name == f).unwrap();
    let multiple: Vec<String> =
        COMPOSITES.iter().flat_map(|c| c.fields.iter().filter(|f| f.multiple).map(move |f| format!("{}.{}", c.name, f.name))).collect();
    assert_eq!(
        multiple,
        [
            "open.outgoing-locales", "open.incoming-locales", "open.offered-capabilities", "open.desired-capabilities",
            "begin.offered-capabilities", "begin.desired-capabilities", "attach.offered-capabilities", "attach.desired-capabilities",
            "sasl-mechanisms.sasl-server-mechanisms", "source.outcomes", "source.capabilities", "target.capabilities",
            "coordinator.capabilities",
        ]
    );
    assert!(COMPOSITES.iter().flat_map(|c| c.fields).filter(|f| f.multiple).all(|f| f.ty == FType::Sym));
    assert_eq!(field("open", "max-frame-size").default, Some("4294967295"));
    assert_eq!(field("open", "channel-max").default, Some("65535"));
    assert_eq!(field("open", "channel-max").ty, FType::Ushort);
    assert_eq!(field("begin", "remote-channel").ty, FType::Ushort);
    assert_eq!(field("begin", "handle-max").default, Some("4294967295"));
    assert_eq!(field("attach", "role").ty, FType::Bool);
    assert_eq!(field("attach", "snd-settle-mode").default, Some("mixed"));
    assert_eq!(field("attach", "rcv-settle-mode").default, Some("first"));
    assert_eq!(field("attach", "rcv-settle-mode").ty, FType::Ubyte);
    assert_eq!(field("attach", "max-message-size").ty, FType::Ulong);
    assert_eq!(field("attach", "source").ty, FType::Composite("source"));
    assert_eq!(field("attach", "target").ty, FType::Composite("target"));
    assert_eq!(field("transfer", "delivery-tag").ty, FType::Binary);
    assert_eq!(field("transfer", "state").ty, FType::Composite("delivery-state"));
    assert_eq!(field("transfer", "settled").default, None);
    assert_eq!(field("transfer", "more").default, Some("false"));
    assert_eq!(field("disposition", "settled").default, Some("false"));
    assert_eq!(field("header", "priority").default, Some("4"));
    assert_eq!(field("header", "priority").ty, FType::Ubyte);
    assert_eq!(field("header", "delivery-count").default, Some("0"));
    assert_eq!(field("properties", "message-id").ty, FType::Any);
    assert_eq!(field("properties", "absolute-expiry-time").ty, FType::Timestamp);
    assert_eq!(field("properties", "content-type").ty, FType::Sym);
    assert_eq!(field("source", "durable").default, Some("none"));
    assert_eq!(field("source", "expiry-policy").default, Some("session-end"));
    assert_eq!(field("source", "default-outcome").ty, FType::Composite("outcome"));
    assert_eq!(field("received", "section-offset").ty, FType::Ulong);
    assert_eq!(field("sasl-outcome", "code").ty, FType::Ubyte);
    assert_eq!(field("error", "info").ty, FType::Map);
    let defaults = COMPOSITES.iter().flat_map(|c| c.fields).filter(|f| f.default.is_some()).count();
    assert_eq!(defaults, 2 + 1 + 3 + 2 + 4 + 2 + 1 + 4 + 4 + 4); // open begin attach flow transfer disposition detach header source target

    for (code, name) in [(0x71, "delivery-annotations"), (0x72, "message-annotations"), (0x74, "application-properties"),
        (0x75, "data"), (0x76, "amqp-sequence"), (0x77, "amqp-value"), (0x78, "footer")] {
        assert_eq!(section_name(code), Some(name));
    }
    assert_eq!(section_name(0x79), None);
}

#[test]
fn validate_composites() {
    // open, trailing fields omitted
    let (c, fields) = validate_composite(&comp(0x10, vec![st("id"), Null, Uint(4096)])).unwrap();
    assert_eq!(c.name, "open");
    assert_eq!(fields.len(), 10);
    assert_eq!(fields[..3], [st("id"), Null, Uint(4096)]);
    assert!(fields[3..].iter().all(|f| *f == Null));
    // by symbol descriptor
    let by_sym = Described(Box::new(sym("amqp:begin:list")), Box::new(List(vec![Null, Uint(0), Uint(1), Uint(2)])));
    assert_eq!(validate_composite(&by_sym).unwrap().0.name, "begin");
    // multiple: single symbol or array of symbols
    let open = |caps: RVal| comp(0x10, vec![st("id"), Null, Null, Null, Null, Null, Null, caps]);
    assert!(validate_composite(&open(sym("A"))).is_ok());
    assert!(validate_composite(&open(Array(RType::Sym, vec![sym("A"), sym("B")]))).is_ok());
    assert!(validate_composite(&open(Array(RType::Sym, vec![]))).is_ok());
    assert_eq!(validate_composite(&open(Array(RType::Str, vec![st("A")]))).unwrap_err().offset, 7);
    assert!(validate_composite(&open(st("A"))).is_err());
    assert!(validate_composite(&open(List(vec![sym("A")]))).is_err());
    // arrays only where multiple
    assert!(validate_composite(&comp(0x10, vec![Array(RType::Str, vec![st("id")])])).is_err());
    // errors
    assert!(validate_composite(&Null).is_err());
    assert!(validate_composite(&comp(0x99, vec![])).is_err());
    assert!(validate_composite(&Described(Box::new(Uint(0x10)), Box::new(List(vec![st("id")])))).is_err()); // descriptor must be ulong
    assert!(validate_composite(&section(0x10, Map(vec![]))).is_err());
    assert_eq!(validate_composite(&comp(0x10, vec![])).unwrap_err().offset, 0); // container-id missing
    assert!(validate_composite(&comp(0x10, vec![Null])).is_err()); // ... or null
    assert!(validate_composite(&comp(0x10, vec![sym("id")])).is_err()); // symbol is not string
    assert_eq!(validate_composite(&comp(0x10, vec![st("id"), Null, Ulong(1)])).unwrap_err().offset, 2);
    assert!(validate_composite(&comp(0x10, vec![st("id"), Null, Null, Uint(1)])).is_err()); // channel-max is ushort
    assert!(validate_composite(&comp(0x17, vec![Null, Null])).is_err()); // end has one field
    assert!(validate_composite(&comp(0x24, vec![])).is_ok());
    assert!(validate_composite(&comp(0x24, vec![Null])).is_err()); // accepted has none
    assert!(validate_composite(&comp(0x11, vec![Null, Uint(0), Uint(1)])).is_err()); // begin: outgoing-window missing
    assert!(validate_composite(&comp(0x40, vec![Null])).is_err()); // mandatory multiple
    assert!(validate_composite(&comp(0x40, vec![Array(RType::Sym, vec![sym("PLAIN")])])).is_ok());
    assert!(validate_composite(&comp(0x44, vec![Ubyte(0)])).is_ok());
    assert!(validate_composite(&comp(0x44, vec![Uint(0)])).is_err());

    // nested composites and archetypes
    let err = comp(0x1d, vec![sym("amqp:internal-error"), st("boom")]);
    assert!(validate_composite(&comp(0x18, vec![err.clone()])).is_ok());
    assert!(validate_composite(&comp(0x18, vec![comp(0x1d, vec![])])).is_err()); // nested error lacks condition
    assert!(validate_composite(&comp(0x18, vec![comp(0x24, vec![])])).is_err()); // accepted is not an error
    assert!(validate_composite(&comp(0x18, vec![section(0x999, List(vec![]))])).is_err()); // unknown thing is not an error
    assert!(validate_composite(&comp(0x18, vec![List(vec![])])).is_err());
    let attach = |source: RVal, target: RVal| comp(0x12, vec![st("l"), Uint(0), Bool(false), Null, Null, source, target]);
    let source = comp(0x28, vec![st("q"), Uint(0), Null, Null, Null, Null, Null, Null, comp(0x26, vec![]), sym("amqp:accepted:list")]);
    let target = comp(0x29, vec![st("q")]);
    assert!(validate_composite(&attach(source.clone(), target.clone())).is_ok());
    assert!(validate_composite(&attach(source.clone(), comp(0x30, vec![sym("amqp:local-transactions")]))).is_ok()); // coordinator
    assert!(validate_composite(&attach(Null, Null)).is_ok());
    assert!(validate_composite(&attach(target.clone(), target.clone())).is_err()); // target where source is required
    assert!(validate_composite(&attach(source.clone(), source.clone())).is_err());
    assert!(validate_composite(&attach(source.clone(), section(0x1234_0000_0001, Null))).is_ok()); // extension target
    assert!(validate_composite(&attach(st("q"), target.clone())).is_err());
    let bad_source = comp(0x28, vec![st("q"), Null, Null, Null, Null, Null, Null, Null, comp(0x23, vec![Uint(0), Ulong(0)])]);
    assert!(validate_composite(&attach(bad_source, target)).is_err()); // received is a delivery-state but no outcome
    let disposition = |state: RVal| comp(0x15, vec![Bool(true), Uint(0), Null, Bool(true), state]);
    assert!(validate_composite(&disposition(comp(0x24, vec![]))).is_ok());
    assert!(validate_composite(&disposition(comp(0x23, vec![Uint(0), Ulong(0)]))).is_ok());
    assert!(validate_composite(&disposition(comp(0x23, vec![Uint(0)]))).is_err());
    assert!(validate_composite(&disposition(comp(0x25, vec![err]))).is_ok());
    assert!(validate_composite(&disposition(comp(0x34, vec![Binary(vec![1]), comp(0x24, vec![])]))).is_ok());
    assert!(validate_composite(&disposition(comp(0x34, vec![Binary(vec![1]), comp(0x23, vec![Uint(0), Ulong(0)])]))).is_err());
    assert!(validate_composite(&disposition(comp(0x33, vec![Binary(vec![1])]))).is_ok());
    assert!(validate_composite(&disposition(comp(0x28, vec![]))).is_err()); // a source is no delivery-state
    assert!(validate_composite(&disposition(Bool(true))).is_err());
}

#[test]
fn messages() {
    let enc = |sections: &[RVal]| sections.iter().flat_map(encode_narrowest).collect::<Vec<u8>>();
    let header = comp(0x70, vec![Bool(true), Ubyte(4)]);
    let da = section(0x71, Map(vec![(sym("x-opt"), Uint(1))]));
    let ma = section(0x72, Map(vec![(Ulong(5), st("v"))]));
    let props = comp(0x73, vec![Ulong(1), Null, st("to")]);
    let ap = section(0x74, Map(vec![(st("k"), Int(1)), (st("t"), Timestamp(0))]));
    let data = section(0x75, Binary(vec![1, 2, 3]));
    let seq = section(0x76, List(vec![Uint(1), st("x")]));
    let value = section(0x77, Map(vec![(List(vec![]), Array(RType::Uint, vec![]))]));
    let footer = section(0x78, Map(vec![]));

    let full = [header.clone(), da.clone(), ma.clone(), props.clone(), ap.clone(), value.clone(), footer.clone()];
    assert_eq!(parse_message(&enc(&full)).unwrap(), full);
    assert_eq!(parse_message(&full.iter().flat_map(encode_widest).collect::<Vec<u8>>()).unwrap(), full);
    assert_eq!(parse_message(&[]).unwrap(), vec![]);
    for ok in [
        vec![value.clone()],
        vec![data.clone()],
        vec![data.clone(), data.clone(), data.clone(), footer.clone()],
        vec![header.clone(), seq.clone(), seq.clone()],
        vec![props.clone(), ap.clone()],
        vec![header.clone(), footer.clone()],
        vec![section(0x77, Null)],
        vec![Described(Box::new(sym("amqp:amqp-value:*")), Box::new(st("hi")))],
        vec![Described(Box::new(sym("amqp:data:binary")), Box::new(Binary(vec![])))],
        vec![Described(Box::new(sym("amqp:header:list")), Box::new(List(vec![])))],
    ] {
        assert_eq!(parse_message(&enc(&ok)).unwrap(), ok);
    }
    for bad in [
        vec![value.clone(), value.clone()],       // one amqp-value only
        vec![data.clone(), seq.clone()],          // no mixing of body kinds
        vec![seq.clone(), value.clone()],
        vec![value.clone(), data.clone()],
        vec![props.clone(), header.clone()],      // order
        vec![header.clone(), header.clone()],     // multiplicity
        vec![footer.clone(), data.clone()],
        vec![data.clone(), footer.clone(), footer.clone()],
        vec![ap.clone(), props.clone()],
        vec![ma.clone(), da.clone()],
        vec![section(0x75, st("not binary"))],
        vec![section(0x76, Map(vec![]))],
        vec![section(0x71, List(vec![]))],
        vec![section(0x72, Map(vec![(st("string key"), Null)]))],
        vec![section(0x74, Map(vec![(sym("symbol key"), Null)]))],
        vec![section(0x74, Map(vec![(st("k"), List(vec![]))]))],
        vec![section(0x74, Map(vec![(st("k"), Array(RType::Uint, vec![]))]))],
        vec![comp(0x70, vec![Uint(1)])],          // durable is boolean
        vec![comp(0x73, vec![Null, st("user-id is binary")])],
        vec![comp(0x10, vec![st("id")])],         // a performative is no section
        vec![Uint(1)],
        vec![section(0x79, Null)],
    ] {
        assert!(parse_message(&enc(&bad)).is_err(), "{bad:?}");
    }
    // truncation / garbage inside the stream is an error with an absolute offset
    let bytes = enc(&[header, data]);
    for cut in 1..bytes.len() {
        if cut != encode_narrowest(&full[0]).len() {
            assert!(parse_message(&bytes[..cut]).is_err(), "cut {cut}");
        }
    }
    let mut garbage = bytes.clone();
    garbage.push(0x3f);
    assert_eq!(parse_message(&garbage).unwrap_err().offset, bytes.len());
}
