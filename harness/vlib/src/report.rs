//! Common check driver: CLI, evidence file, known findings, violation/replay output.
use serde_json::{json, Value as J};
use std::collections::BTreeMap;
use std::path::PathBuf;
use std::time::Instant;

#[derive(Debug, Clone, Copy, PartialEq, Eq)]
pub enum Tier {
    Quick,
    Thorough,
}

#[derive(Debug, Clone)]
pub struct Ctx {
    pub id: String,
    pub tier: Tier,
    pub seed: u64,
    /// wall-clock budget in seconds for the enumeration (internal cap)
    pub budget_s: f64,
    pub start: Instant,
    pub replay: Option<PathBuf>,
    pub threads: usize,
}

/// Properties whose thorough bound runs in a few seconds: their quick tier runs the same bound
/// (the evidence says so: coverage.quick_tier_runs_thorough_bound).
pub const QUICK_RUNS_THOROUGH_BOUND: [&str; 6] = ["C03", "C04", "C06", "C15", "C19", "C20"];

impl Ctx {
    pub fn quick(&self) -> bool {
        self.tier == Tier::Quick && !QUICK_RUNS_THOROUGH_BOUND.contains(&self.id.as_str())
    }
    pub fn elapsed(&self) -> f64 {
        self.start.elapsed().as_secs_f64()
    }
    pub fn over_budget(&self) -> bool {
        self.elapsed() > self.budget_s
    }
}

/// One violation of the property found by a check.
#[derive(Debug, Clone)]
pub struct Violation {
    /// canonical class of the failure: shape without magnitudes; matched against known_findings.json
    pub signature: String,
    /// human readable explanation (what was expected, what was observed)
    pub detail: String,
    /// everything needed to re-execute the case: input / tape / history
    pub replay: J,
}

/// What a check returns.
#[derive(Debug, Default)]
pub struct Outcome {
    pub level: &'static str,
    /// evidence "coverage" object
    pub coverage: BTreeMap<String, J>,
    pub assumptions: Vec<String>,
    pub violations: Vec<Violation>,
    /// machinery errors: never a verdict
    pub machinery_errors: Vec<String>,
}

impl Outcome {
    pub fn new(level: &'static str) -> Self {
        Outcome {
            level,
            ..Default::default()
        }
    }
    pub fn set(&mut self, k: &str, v: impl Into<J>) {
        self.coverage.insert(k.to_string(), v.into());
    }
    pub fn add(&mut self, k: &str, n: u64) {
        let cur = self.coverage.get(k).and_then(|v| v.as_u64()).unwrap_or(0);
        self.coverage.insert(k.to_string(), json!(cur + n));
    }
    pub fn violation(&mut self, signature: impl Into<String>, detail: impl Into<String>, replay: J) {
        self.violations.push(Violation {
            signature: signature.into(),
            detail: detail.into(),
            replay,
        });
    }
    pub fn assume(&mut self, s: impl Into<String>) {
        let s = s.into();
        if !self.assumptions.contains(&s) {
            self.assumptions.push(s);
        }
    }
}

#[derive(Debug, Clone, serde::Deserialize)]
pub struct Finding {
    pub property: String,
    pub signature: String,
    pub what: String,
    pub status: String, // "open" | "fixed"
    #[serde(default)]
    pub commit: Option<String>,
}

pub fn verif_root() -> PathBuf {
    std::env::var("VERIF_ROOT")
        .map(PathBuf::from)
        .unwrap_or_else(|_| PathBuf::from("/verif"))
}

pub fn load_findings() -> Vec<Finding> {
    let p = verif_root().join("known_findings.json");
    let Ok(s) = std::fs::read_to_string(&p) else {
        return vec![];
    };
    #[derive(serde::Deserialize)]
    struct F {
        findings: Vec<Finding>,
    }
    match serde_json::from_str::<F>(&s) {
        Ok(f) => f.findings,
        Err(e) => {
            eprintln!("MACHINERY: cannot parse {}: {e}", p.display());
            std::process::exit(2);
        }
    }
}

/// Signature match: exact, or the finding's signature ends with '*' and is a prefix.
fn sig_matches(pattern: &str, sig: &str) -> bool {
    if let Some(p) = pattern.strip_suffix('*') {
        sig.starts_with(p)
    } else {
        pattern == sig
    }
}

pub fn parse_args(id: &str, args: &[String]) -> Ctx {
    let mut tier = match std::env::var("VERIF_TIER").as_deref() {
        Ok("thorough") => Tier::Thorough,
        _ => Tier::Quick,
    };
    let mut replay = None;
    let mut i = 0;
    while i < args.len() {
        match args[i].as_str() {
            "--tier" => {
                i += 1;
                tier = match args.get(i).map(|s| s.as_str()) {
                    Some("thorough") => Tier::Thorough,
                    Some("quick") => Tier::Quick,
                    other => {
                        eprintln!("MACHINERY: bad tier {other:?}");
                        std::process::exit(2)
                    }
                };
            }
            "--replay" => {
                i += 1;
                replay = args.get(i).map(PathBuf::from);
            }
            other => {
                eprintln!("MACHINERY: unknown argument {other}");
                std::process::exit(2)
            }
        }
        i += 1;
    }
    let seed = std::env::var("VERIF_SEED")
        .ok()
        .and_then(|s| s.parse::<i64>().ok())
        .unwrap_or(0) as u64;
    let default_budget = if tier == Tier::Quick { 45.0 } else { 900.0 };
    let budget_s = std::env::var("VERIF_BUDGET_S")
        .ok()
        .and_then(|s| s.parse::<f64>().ok())
        .unwrap_or(default_budget);
    let threads = std::env::var("VERIF_THREADS")
        .ok()
        .and_then(|s| s.parse::<usize>().ok())
        .unwrap_or_else(|| std::thread::available_parallelism().map(|n| n.get()).unwrap_or(4));
    Ctx {
        id: id.to_string(),
        tier,
        seed,
        budget_s,
        start: Instant::now(),
        replay,
        threads,
    }
}

/// Write evidence, print verdict lines, return the process exit code.
pub fn finish(ctx: &Ctx, mut out: Outcome) -> i32 {
    let root = verif_root();
    let findings = load_findings();
    let mut unlisted: Vec<&Violation> = vec![];
    let mut known_hit: BTreeMap<usize, usize> = BTreeMap::new();
    for v in &out.violations {
        let hit = findings
            .iter()
            .position(|f| f.property == ctx.id && f.status == "open" && sig_matches(&f.signature, &v.signature));
        match hit {
            Some(i) => *known_hit.entry(i).or_insert(0) += 1,
            None => unlisted.push(v),
        }
    }
    // group unlisted by signature, keep first (smallest) of each
    let mut by_sig: BTreeMap<String, (&Violation, usize)> = BTreeMap::new();
    for v in &unlisted {
        by_sig
            .entry(v.signature.clone())
            .and_modify(|e| e.1 += 1)
            .or_insert((v, 1));
    }
    let replay_dir = root.join("replays").join(&ctx.id);
    let mut lines = vec![];
    if !by_sig.is_empty() && ctx.replay.is_none() {
        let _ = std::fs::create_dir_all(&replay_dir);
    }
    for (n, (sig, (v, count))) in by_sig.iter().enumerate() {
        let path = if let Some(p) = &ctx.replay {
            p.clone()
        } else {
            let p = replay_dir.join(format!("{}.json", n));
            let body = json!({"property": ctx.id, "signature": sig, "detail": v.detail, "count_in_run": count, "replay": v.replay});
            if let Err(e) = std::fs::write(&p, serde_json::to_string_pretty(&body).unwrap()) {
                eprintln!("MACHINERY: cannot write replay {}: {e}", p.display());
            }
            p
        };
        println!("  violation class [{sig}] x{count}: {}", v.detail);
        lines.push(format!("VIOLATION property={} replay={}", ctx.id, path.display()));
    }
    for (i, n) in &known_hit {
        let f = &findings[*i];
        println!("KNOWN-FINDING: property={} {} [{} x{}]", ctx.id, f.what, f.signature, n);
    }
    for f in findings.iter().enumerate().filter(|(i, f)| {
        f.property == ctx.id && f.status == "open" && !known_hit.contains_key(i)
    }) {
        println!(
            "note: listed finding not reproduced in this run (tier bound may not reach it): {} [{}]",
            f.1.what, f.1.signature
        );
    }
    // evidence
    let wall = ctx.elapsed();
    out.coverage.insert(
        "known_findings_matched".into(),
        json!(known_hit.values().sum::<usize>()),
    );
    if ctx.tier == Tier::Quick && QUICK_RUNS_THOROUGH_BOUND.contains(&ctx.id.as_str()) {
        out.coverage.insert("quick_tier_runs_thorough_bound".into(), json!(true));
    }
    let ev = json!({
        "property_id": ctx.id,
        "tier": if ctx.tier == Tier::Quick {"quick"} else {"thorough"},
        "seed": ctx.seed as i64,
        "level": out.level,
        "coverage": out.coverage,
        "assumptions": out.assumptions,
        "wall_s": (wall * 1000.0).round() / 1000.0,
        "violations": by_sig.len(),
        "machinery_errors": out.machinery_errors,
    });
    if ctx.replay.is_none() {
        let evdir = root.join("evidence");
        let _ = std::fs::create_dir_all(&evdir);
        let p = evdir.join(format!("{}.json", ctx.id));
        if let Err(e) = std::fs::write(&p, serde_json::to_string_pretty(&ev).unwrap() + "\n") {
            eprintln!("MACHINERY: cannot write evidence {}: {e}", p.display());
            return 2;
        }
    }
    for l in &lines {
        println!("{l}");
    }
    if !out.machinery_errors.is_empty() {
        for e in &out.machinery_errors {
            eprintln!("MACHINERY: {e}");
        }
        if lines.is_empty() {
            return 2;
        }
    }
    if lines.is_empty() {
        println!(
            "OK property={} tier={:?} wall={:.1}s",
            ctx.id, ctx.tier, wall
        );
        0
    } else {
        1
    }
}
