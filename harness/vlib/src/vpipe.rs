//! In-memory byte transport between two ends, with tape-controlled read/write granularity, byte and
//! virtual-time logging, and fault injection.  One end can be driven synchronously by a scripted peer.
use crate::tape::{self, Kind};
use std::collections::VecDeque;
use std::io;
use std::pin::Pin;
use std::sync::{Arc, Mutex};
use std::task::{Context, Poll, Waker};
use std::time::Duration;
use tokio::io::{AsyncRead, AsyncWrite, ReadBuf};

#[derive(Debug, Clone, PartialEq, Eq)]
pub enum Chunking {
    /// hand over everything available / accept everything offered
    Whole,
    /// ask the tape: 0 = whole, 1 = one byte, 2 = spurious Pending (self-waking)
    Tape,
    /// at most k bytes per call
    Fixed(usize),
    /// successive chunk sizes, then Whole
    Script(VecDeque<usize>),
}

#[derive(Debug, Clone, Copy, PartialEq, Eq)]
pub enum FaultMode {
    /// reader sees EOF after the bytes before the cut; writers get BrokenPipe
    Eof,
    /// both directions fail with ConnectionReset
    Reset,
    /// nothing is delivered any more; EOF after the given virtual duration
    StallThenEof(Duration),
}

#[derive(Debug, Clone, Copy)]
pub struct Fault {
    /// direction whose byte count triggers the fault: 0 = A->B, 1 = B->A
    pub dir: usize,
    /// fault triggers when this many bytes have been written in `dir` (bytes beyond are discarded)
    pub at: usize,
    pub mode: FaultMode,
}

#[derive(Debug, Clone)]
pub struct LogEntry {
    pub t: Duration,
    pub dir: usize,
    pub bytes: Vec<u8>,
}

struct Dir {
    buf: VecDeque<u8>,
    /// writer closed (shutdown or dropped)
    closed: bool,
    reader_waker: Option<Waker>,
    writer_waker: Option<Waker>,
    written: usize,
    read_chunk: Chunking,
    write_chunk: Chunking,
    /// writes return Pending while stalled (models a full socket buffer)
    write_stalled: bool,
    /// max bytes buffered before writes return Pending (usize::MAX = unbounded)
    capacity: usize,
}

impl Dir {
    fn new() -> Self {
        Dir {
            buf: VecDeque::new(),
            closed: false,
            reader_waker: None,
            writer_waker: None,
            written: 0,
            read_chunk: Chunking::Whole,
            write_chunk: Chunking::Whole,
            write_stalled: false,
            capacity: usize::MAX,
        }
    }
}

#[derive(Clone, Copy, PartialEq, Eq, Debug)]
enum Broken {
    No,
    Eof,
    Reset,
    Stalled,
}

struct State {
    dirs: [Dir; 2],
    fault: Option<Fault>,
    broken: Broken,
    stall_until: Option<tokio::time::Instant>,
    log: Vec<LogEntry>,
    t0: tokio::time::Instant,
    shutdown_fails_when_broken: bool,
    shutdown_fails: bool,
    /// (dir, at, bytes): when `at` bytes have been written in `dir`, `bytes` appear in the OTHER direction
    inject: Option<(usize, usize, Vec<u8>)>,
    inject_fired: bool,
}

#[derive(Clone)]
pub struct Pipe {
    st: Arc<Mutex<State>>,
}

/// One async end of the pipe. End 0 writes dir 0 and reads dir 1; end 1 the reverse.
pub struct End {
    st: Arc<Mutex<State>>,
    side: usize,
}

impl std::fmt::Debug for End {
    fn fmt(&self, f: &mut std::fmt::Formatter<'_>) -> std::fmt::Result {
        write!(f, "vpipe::End({})", self.side)
    }
}

impl Pipe {
    pub fn new() -> (Pipe, End, End) {
        let st = Arc::new(Mutex::new(State {
            dirs: [Dir::new(), Dir::new()],
            fault: None,
            broken: Broken::No,
            stall_until: None,
            log: vec![],
            t0: tokio::time::Instant::now(),
            shutdown_fails_when_broken: false,
            shutdown_fails: false,
            inject: None,
            inject_fired: false,
        }));
        (
            Pipe { st: st.clone() },
            End {
                st: st.clone(),
                side: 0,
            },
            End { st, side: 1 },
        )
    }
    /// make `poll_shutdown` fail with NotConnected once the connection is broken (as TCP does after a reset)
    pub fn set_shutdown_fails_when_broken(&self, on: bool) {
        self.st.lock().unwrap().shutdown_fails_when_broken = on;
    }
    /// make `poll_shutdown` fail with NotConnected from now on while reads and writes still work: the peer went
    /// away right behind the last bytes it sent, the local socket buffer still accepts what is written
    pub fn set_shutdown_fails(&self, on: bool) {
        self.st.lock().unwrap().shutdown_fails = on;
    }
    /// at the very moment `at` bytes have been written in direction `dir`, the other side writes `bytes`
    /// (lets a scripted peer act between two frames of one burst of the library's output)
    pub fn set_inject(&self, dir: usize, at: usize, bytes: Vec<u8>) {
        let mut g = self.st.lock().unwrap();
        g.inject = Some((dir, at, bytes));
        g.inject_fired = false;
    }
    pub fn inject_fired(&self) -> bool {
        self.st.lock().unwrap().inject_fired
    }
    pub fn set_fault(&self, f: Fault) {
        self.st.lock().unwrap().fault = Some(f);
    }
    pub fn set_read_chunking(&self, dir: usize, c: Chunking) {
        self.st.lock().unwrap().dirs[dir].read_chunk = c;
    }
    pub fn set_write_chunking(&self, dir: usize, c: Chunking) {
        self.st.lock().unwrap().dirs[dir].write_chunk = c;
    }
    pub fn set_capacity(&self, dir: usize, cap: usize) {
        self.st.lock().unwrap().dirs[dir].capacity = cap;
    }
    pub fn stall_writes(&self, dir: usize, on: bool) {
        let mut g = self.st.lock().unwrap();
        g.dirs[dir].write_stalled = on;
        if !on {
            if let Some(w) = g.dirs[dir].writer_waker.take() {
                w.wake();
            }
        }
    }
    pub fn written(&self, dir: usize) -> usize {
        self.st.lock().unwrap().dirs[dir].written
    }
    pub fn log(&self) -> Vec<LogEntry> {
        self.st.lock().unwrap().log.clone()
    }
    pub fn broken(&self) -> bool {
        self.st.lock().unwrap().broken != Broken::No
    }
    /// Break the connection now (as the fault would).
    pub fn break_now(&self, mode: FaultMode) {
        let mut g = self.st.lock().unwrap();
        trigger(&mut g, mode);
    }
    // ---- synchronous access for a scripted peer sitting on `side` ----
    /// bytes the other side has written for `side` to read
    pub fn take_bytes(&self, side: usize) -> Vec<u8> {
        let mut g = self.st.lock().unwrap();
        let d = &mut g.dirs[1 - side];
        let v: Vec<u8> = d.buf.drain(..).collect();
        if let Some(w) = d.writer_waker.take() {
            w.wake();
        }
        v
    }
    /// the scripted peer on `side` writes bytes
    pub fn push_bytes(&self, side: usize, bytes: &[u8]) {
        let mut g = self.st.lock().unwrap();
        write_into(&mut g, side, bytes);
    }
    /// the scripted peer on `side` closes its write half (other side reads EOF)
    pub fn close_write(&self, side: usize) {
        let mut g = self.st.lock().unwrap();
        g.dirs[side].closed = true;
        if let Some(w) = g.dirs[side].reader_waker.take() {
            w.wake();
        }
    }
    /// has the async end on the other side closed/dropped its write half?
    pub fn peer_closed(&self, side: usize) -> bool {
        self.st.lock().unwrap().dirs[1 - side].closed
    }
}

fn trigger(g: &mut State, mode: FaultMode) {
    match mode {
        FaultMode::Eof => g.broken = Broken::Eof,
        FaultMode::Reset => {
            g.broken = Broken::Reset;
            for d in g.dirs.iter_mut() {
                d.buf.clear();
            }
        }
        FaultMode::StallThenEof(d) => {
            g.broken = Broken::Stalled;
            g.stall_until = Some(tokio::time::Instant::now() + d);
        }
    }
    for d in g.dirs.iter_mut() {
        if let Some(w) = d.reader_waker.take() {
            w.wake();
        }
        if let Some(w) = d.writer_waker.take() {
            w.wake();
        }
    }
}

/// append bytes written by `side` (dir == side), honouring a pending fault; returns bytes accepted
fn write_into(g: &mut State, side: usize, bytes: &[u8]) -> usize {
    if g.broken != Broken::No && g.broken != Broken::Stalled {
        return 0;
    }
    let mut take = bytes.len();
    let mut fire = None;
    if g.broken == Broken::No {
        if let Some(f) = g.fault {
            if f.dir == side {
                let room = f.at.saturating_sub(g.dirs[side].written);
                if take >= room {
                    take = room;
                    fire = Some(f.mode);
                }
            }
        }
    }
    let t = g.t0.elapsed();
    let stalled = g.broken == Broken::Stalled;
    let d = &mut g.dirs[side];
    d.written += take;
    if !stalled {
        d.buf.extend(&bytes[..take]);
    }
    if take > 0 {
        g.log.push(LogEntry {
            t,
            dir: side,
            bytes: bytes[..take].to_vec(),
        });
    }
    if let Some(w) = g.dirs[side].reader_waker.take() {
        w.wake();
    }
    if let Some(m) = fire {
        g.fault = None;
        trigger(g, m);
    }
    if matches!(&g.inject, Some((d, at, _)) if *d == side && g.dirs[side].written >= *at) {
        let (_, _, b) = g.inject.take().unwrap();
        g.inject_fired = true;
        write_into(g, 1 - side, &b);
    }
    // a write that hit the cut reports the whole buffer as accepted (the bytes are lost in flight)
    bytes.len()
}

impl AsyncRead for End {
    fn poll_read(self: Pin<&mut Self>, cx: &mut Context<'_>, buf: &mut ReadBuf<'_>) -> Poll<io::Result<()>> {
        let mut g = self.st.lock().unwrap();
        let rd = 1 - self.side;
        if g.broken == Broken::Reset {
            return Poll::Ready(Err(io::ErrorKind::ConnectionReset.into()));
        }
        if g.broken == Broken::Stalled {
            let until = g.stall_until.unwrap();
            if tokio::time::Instant::now() >= until {
                g.broken = Broken::Eof;
                for d in g.dirs.iter_mut() {
                    d.buf.clear();
                }
            } else {
                // wake up at the end of the stall
                let w = cx.waker().clone();
                tokio::spawn(async move {
                    tokio::time::sleep_until(until).await;
                    w.wake();
                });
                g.dirs[rd].reader_waker = Some(cx.waker().clone());
                return Poll::Pending;
            }
        }
        let avail = g.dirs[rd].buf.len();
        if avail == 0 {
            if g.dirs[rd].closed || g.broken == Broken::Eof {
                return Poll::Ready(Ok(()));
            }
            g.dirs[rd].reader_waker = Some(cx.waker().clone());
            return Poll::Pending;
        }
        let room = buf.remaining();
        if room == 0 {
            return Poll::Ready(Ok(()));
        }
        let want = avail.min(room);
        let k = match &mut g.dirs[rd].read_chunk {
            Chunking::Whole => want,
            Chunking::Fixed(k) => want.min((*k).max(1)),
            Chunking::Script(q) => match q.pop_front() {
                Some(k) => want.min(k.max(1)),
                None => want,
            },
            Chunking::Tape => {
                drop(g);
                let c = tape::choose(Kind::Read, 3);
                g = self.st.lock().unwrap();
                match c {
                    0 => want,
                    1 => 1,
                    _ => {
                        cx.waker().wake_by_ref();
                        return Poll::Pending;
                    }
                }
            }
        };
        let d = &mut g.dirs[rd];
        for _ in 0..k {
            let b = d.buf.pop_front().unwrap();
            buf.put_slice(&[b]);
        }
        if let Some(w) = d.writer_waker.take() {
            w.wake();
        }
        Poll::Ready(Ok(()))
    }
}

impl AsyncWrite for End {
    fn poll_write(self: Pin<&mut Self>, cx: &mut Context<'_>, data: &[u8]) -> Poll<io::Result<usize>> {
        let mut g = self.st.lock().unwrap();
        let wr = self.side;
        match g.broken {
            Broken::Reset => return Poll::Ready(Err(io::ErrorKind::ConnectionReset.into())),
            Broken::Eof => return Poll::Ready(Err(io::ErrorKind::BrokenPipe.into())),
            _ => {}
        }
        if g.dirs[wr].closed {
            return Poll::Ready(Err(io::ErrorKind::BrokenPipe.into()));
        }
        if data.is_empty() {
            return Poll::Ready(Ok(0));
        }
        if g.dirs[wr].write_stalled || g.dirs[wr].buf.len() >= g.dirs[wr].capacity {
            g.dirs[wr].writer_waker = Some(cx.waker().clone());
            return Poll::Pending;
        }
        let room = g.dirs[wr].capacity.saturating_sub(g.dirs[wr].buf.len());
        let want = data.len().min(room.max(1));
        let k = match &mut g.dirs[wr].write_chunk {
            Chunking::Whole => want,
            Chunking::Fixed(k) => want.min((*k).max(1)),
            Chunking::Script(q) => match q.pop_front() {
                Some(k) => want.min(k.max(1)),
                None => want,
            },
            Chunking::Tape => {
                drop(g);
                let c = tape::choose(Kind::Write, 3);
                g = self.st.lock().unwrap();
                match c {
                    0 => want,
                    1 => 1,
                    _ => {
                        cx.waker().wake_by_ref();
                        return Poll::Pending;
                    }
                }
            }
        };
        let n = write_into(&mut g, wr, &data[..k]);
        Poll::Ready(Ok(n))
    }
    fn poll_flush(self: Pin<&mut Self>, _cx: &mut Context<'_>) -> Poll<io::Result<()>> {
        let g = self.st.lock().unwrap();
        match g.broken {
            Broken::Reset => Poll::Ready(Err(io::ErrorKind::ConnectionReset.into())),
            Broken::Eof => Poll::Ready(Err(io::ErrorKind::BrokenPipe.into())),
            _ => Poll::Ready(Ok(())),
        }
    }
    fn poll_shutdown(self: Pin<&mut Self>, _cx: &mut Context<'_>) -> Poll<io::Result<()>> {
        let mut g = self.st.lock().unwrap();
        let wr = self.side;
        // like a TCP socket after the peer reset / went away: shutting down the write half fails
        if g.shutdown_fails || (matches!(g.broken, Broken::Reset | Broken::Eof) && g.shutdown_fails_when_broken) {
            g.dirs[wr].closed = true;
            return Poll::Ready(Err(io::ErrorKind::NotConnected.into()));
        }
        g.dirs[wr].closed = true;
        if let Some(w) = g.dirs[wr].reader_waker.take() {
            w.wake();
        }
        Poll::Ready(Ok(()))
    }
}

impl Drop for End {
    fn drop(&mut self) {
        if let Ok(mut g) = self.st.lock() {
            let wr = self.side;
            g.dirs[wr].closed = true;
            if let Some(w) = g.dirs[wr].reader_waker.take() {
                w.wake();
            }
        }
    }
}
