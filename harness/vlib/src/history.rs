//! Exhaustive search over event histories (DESIGN.md §2.2 mode 2).
//!
//! A state is the sequence of harness events that reaches it.  Every maximal history of the bound is
//! executed once on a fresh real stack (the caller's `run`), which judges every prefix on the way.  An
//! event that is not enabled in the state reached ends the branch: all histories sharing that prefix
//! are skipped.  Depth-d search over an alphabet of a events = at most a^d executions.
use std::collections::HashSet;
use std::sync::atomic::{AtomicBool, AtomicU64, Ordering};
use std::sync::Mutex;
use std::time::Instant;

#[derive(Debug, Default, Clone)]
pub struct HistOut {
    /// number of events of the history that were executed (an event found disabled stops the history)
    pub executed: usize,
    /// (signature, detail) of violations; the monitor judged every prefix
    pub fails: Vec<(String, String)>,
    /// canonical hash of the observable state after each executed event (index 0 = initial state)
    pub state_keys: Vec<u64>,
    /// human-readable trace (for samples / replays)
    pub trace: Vec<String>,
    /// machinery problem (never a verdict)
    pub machinery: Option<String>,
}

#[derive(Debug, Default, Clone)]
pub struct SearchStats {
    pub executions: u64,
    pub events_executed: u64,
    pub distinct_states: u64,
    pub distinct_transitions: u64,
    pub pruned_disabled: u64,
    pub truncated: bool,
    pub machinery: Vec<String>,
    /// (history as event indices, signature, detail, trace)
    pub violations: Vec<(Vec<usize>, String, String, Vec<String>)>,
    /// number of failing histories per signature (all of them, not only the kept ones)
    pub violation_counts: std::collections::BTreeMap<String, u64>,
    pub sample_traces: Vec<Vec<String>>,
}

/// failing histories kept per signature
pub const KEEP_PER_SIGNATURE: usize = 12;

/// next history in lexicographic order after skipping the whole subtree below `h[..=k]`
fn bump(h: &mut [usize], k: usize, a: usize) -> bool {
    let mut i = k as isize;
    while i >= 0 {
        let u = i as usize;
        if h[u] + 1 < a {
            h[u] += 1;
            for x in h[u + 1..].iter_mut() {
                *x = 0;
            }
            return true;
        }
        i -= 1;
    }
    false
}

/// Enumerate all histories of length `depth` over `alphabet_len` events.  `run(history)` executes one.
/// Work is split by the first `split` events.
pub fn search<F>(alphabet_len: usize, depth: usize, threads: usize, deadline: Instant, run: F) -> SearchStats
where
    F: Fn(&[usize]) -> HistOut + Sync,
{
    let a = alphabet_len;
    let split = if depth >= 3 { 2 } else { 1.min(depth) };
    let mut roots: Vec<Vec<usize>> = vec![vec![]];
    for _ in 0..split {
        roots = roots
            .into_iter()
            .flat_map(|p| {
                (0..a).map(move |e| {
                    let mut q = p.clone();
                    q.push(e);
                    q
                })
            })
            .collect();
    }
    let next = AtomicU64::new(0);
    let states = Mutex::new(HashSet::<u64>::new());
    let transitions = Mutex::new(HashSet::<(u64, usize, u64)>::new());
    let stats = Mutex::new(SearchStats::default());
    let truncated = AtomicBool::new(false);
    // prefixes (as vectors) known to end in a disabled event: skip anything below them
    let dead: Mutex<HashSet<Vec<usize>>> = Mutex::new(HashSet::new());
    std::thread::scope(|s| {
        for _ in 0..threads.max(1) {
            s.spawn(|| loop {
                let i = next.fetch_add(1, Ordering::Relaxed) as usize;
                if i >= roots.len() {
                    return;
                }
                let root = &roots[i];
                // a root may itself be dead (its first event disabled) - found out when first executed
                let mut h: Vec<usize> = root.clone();
                h.resize(depth, 0);
                loop {
                    if Instant::now() > deadline {
                        truncated.store(true, Ordering::Relaxed);
                        return;
                    }
                    // skip if a known dead prefix covers this history
                    let skip_at = {
                        let d = dead.lock().unwrap();
                        (1..=depth).find(|k| d.contains(&h[..*k].to_vec()))
                    };
                    if let Some(k) = skip_at {
                        if k <= root.len() || !bump_within(&mut h, k - 1, a, root.len()) {
                            break;
                        }
                        continue;
                    }
                    let out = run(&h);
                    {
                        let mut st = stats.lock().unwrap();
                        st.executions += 1;
                        st.events_executed += out.executed as u64;
                        if let Some(m) = &out.machinery {
                            if st.machinery.len() < 5 {
                                st.machinery.push(m.clone());
                            }
                        }
                        for (sig, detail) in &out.fails {
                            // every failing history is counted, but only a few per signature are kept (the
                            // ones that fail earliest): millions of traces of one known finding cost tens of GiB
                            *st.violation_counts.entry(sig.clone()).or_insert(0) += 1;
                            let kept: Vec<usize> = st.violations.iter().enumerate().filter(|(_, v)| &v.1 == sig).map(|(i, _)| i).collect();
                            let flen = |t: &Vec<String>| t.len();
                            if kept.len() < KEEP_PER_SIGNATURE {
                                st.violations.push((h.clone(), sig.clone(), detail.clone(), out.trace.clone()));
                            } else if let Some(worst) = kept.iter().copied().max_by_key(|i| flen(&st.violations[*i].3)) {
                                if flen(&out.trace) < flen(&st.violations[worst].3) {
                                    st.violations[worst] = (h.clone(), sig.clone(), detail.clone(), out.trace.clone());
                                }
                            }
                        }
                        if st.sample_traces.len() < 3 && out.executed == depth {
                            st.sample_traces.push(out.trace.clone());
                        }
                    }
                    {
                        let mut ss = states.lock().unwrap();
                        for k in &out.state_keys {
                            ss.insert(*k);
                        }
                        let mut ts = transitions.lock().unwrap();
                        for (j, w) in out.state_keys.windows(2).enumerate() {
                            if j < h.len() {
                                ts.insert((w[0], h[j], w[1]));
                            }
                        }
                    }
                    if out.executed < depth {
                        // event h[out.executed] was disabled: the whole subtree below h[..=executed] is dead
                        let k = out.executed;
                        dead.lock().unwrap().insert(h[..=k].to_vec());
                        stats.lock().unwrap().pruned_disabled += 1;
                        if k < root.len() || !bump_within(&mut h, k, a, root.len()) {
                            break;
                        }
                    } else if !bump_within(&mut h, depth - 1, a, root.len()) {
                        break;
                    }
                }
            });
        }
    });
    let mut st = stats.into_inner().unwrap();
    st.distinct_states = states.into_inner().unwrap().len() as u64;
    st.distinct_transitions = transitions.into_inner().unwrap().len() as u64;
    st.truncated = truncated.load(Ordering::Relaxed);
    st
}

/// like `bump` but never changes the first `fixed` positions (the root of this worker's subtree)
fn bump_within(h: &mut [usize], k: usize, a: usize, fixed: usize) -> bool {
    if k < fixed {
        return false;
    }
    let mut i = k as isize;
    while i >= fixed as isize {
        let u = i as usize;
        if h[u] + 1 < a {
            h[u] += 1;
            for x in h[u + 1..].iter_mut() {
                *x = 0;
            }
            return true;
        }
        i -= 1;
    }
    let _ = bump;
    false
}
