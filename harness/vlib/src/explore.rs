//! Deviation-bounded exhaustive exploration of the executions of a scenario (stateless DFS over the
//! choice tape, iterative by number of deviations, parallel over a worker pool).
use crate::runner::{run_exec, Exec, RunCfg, Scenario};
use crate::tape::{Kind, Point, KINDS};
use std::collections::{BTreeMap, BinaryHeap, HashSet};
use std::sync::atomic::{AtomicBool, AtomicU64, Ordering};
use std::sync::{Arc, Condvar, Mutex};
use std::time::{Duration, Instant};

#[derive(Debug, Clone)]
pub struct Bounds {
    /// max number of non-default answers per kind
    pub per_kind: [u32; 5],
    /// max number of non-default answers in total
    pub total: u32,
}

impl Bounds {
    pub fn new(total: u32) -> Self {
        Bounds {
            per_kind: [total; 5],
            total,
        }
    }
    pub fn kind(mut self, k: Kind, n: u32) -> Self {
        self.per_kind[k.idx()] = n;
        self
    }
    pub fn describe(&self) -> String {
        let mut s = format!("total<={}", self.total);
        for k in KINDS {
            s += &format!(" {:?}<={}", k, self.per_kind[k.idx()]);
        }
        s
    }
}

#[derive(Debug, Default, Clone)]
pub struct Stats {
    pub executions: u64,
    pub points_total: u64,
    pub max_points: usize,
    /// executions per deviation count
    pub per_level: BTreeMap<u32, u64>,
    /// highest deviation level that was explored completely
    pub completed_level: Option<u32>,
    pub exhaustive: bool,
    pub distinct_obs: usize,
    pub choice_points_by_kind: [u64; 5],
    pub branching_points_by_kind: [u64; 5],
    pub divergences: Vec<String>,
    pub watchdogs: u64,
}

struct Item {
    level: u32,
    seq: u64,
    prefix: Vec<Point>,
}
impl PartialEq for Item {
    fn eq(&self, o: &Self) -> bool {
        self.level == o.level && self.seq == o.seq
    }
}
impl Eq for Item {}
impl PartialOrd for Item {
    fn partial_cmp(&self, o: &Self) -> Option<std::cmp::Ordering> {
        Some(self.cmp(o))
    }
}
impl Ord for Item {
    fn cmp(&self, o: &Self) -> std::cmp::Ordering {
        // BinaryHeap is a max-heap: lowest level first, then FIFO
        o.level.cmp(&self.level).then(o.seq.cmp(&self.seq))
    }
}

struct Shared {
    heap: Mutex<(BinaryHeap<Item>, usize /*in flight*/, BTreeMap<u32, i64> /*outstanding per level*/)>,
    cv: Condvar,
    seq: AtomicU64,
    stop: AtomicBool,
}

fn deviations(prefix: &[Point]) -> ([u32; 5], u32) {
    let mut per = [0u32; 5];
    let mut tot = 0;
    for p in prefix {
        if p.chosen != 0 {
            per[p.kind.idx()] += 1;
            tot += 1;
        }
    }
    (per, tot)
}

/// Explore all executions within `bounds`.  `judge` is called for every execution (on a worker thread)
/// and returns an observation key (for counting distinct outcomes).
pub fn explore<O, J>(
    cfg: &RunCfg,
    bounds: &Bounds,
    scen: &Scenario<O>,
    threads: usize,
    deadline: Instant,
    judge: J,
) -> Stats
where
    O: Send + 'static,
    J: Fn(&Exec<O>) -> u64 + Sync,
{
    let shared = Arc::new(Shared {
        heap: Mutex::new((BinaryHeap::new(), 0, BTreeMap::new())),
        cv: Condvar::new(),
        seq: AtomicU64::new(1),
        stop: AtomicBool::new(false),
    });
    {
        let mut g = shared.heap.lock().unwrap();
        g.0.push(Item {
            level: 0,
            seq: 0,
            prefix: vec![],
        });
        *g.2.entry(0).or_insert(0) += 1;
    }
    let stats = Mutex::new(Stats::default());
    let obs = Mutex::new(HashSet::<u64>::new());
    let hit_deadline = AtomicBool::new(false);
    std::thread::scope(|s| {
        for _ in 0..threads.max(1) {
            s.spawn(|| loop {
                let item = {
                    let mut g = shared.heap.lock().unwrap();
                    loop {
                        if shared.stop.load(Ordering::Relaxed) {
                            return;
                        }
                        if let Some(it) = g.0.pop() {
                            g.1 += 1;
                            break it;
                        }
                        if g.1 == 0 {
                            shared.cv.notify_all();
                            return;
                        }
                        g = shared.cv.wait_timeout(g, Duration::from_millis(50)).unwrap().0;
                    }
                };
                if Instant::now() > deadline {
                    hit_deadline.store(true, Ordering::Relaxed);
                    shared.stop.store(true, Ordering::Relaxed);
                    let mut g = shared.heap.lock().unwrap();
                    g.1 -= 1;
                    shared.cv.notify_all();
                    return;
                }
                let plen = item.prefix.len();
                let (pdev, ptot) = deviations(&item.prefix);
                let ex = run_exec(item.prefix.clone(), cfg, scen);
                let key = judge(&ex);
                obs.lock().unwrap().insert(key);
                // children
                let mut children = vec![];
                if ex.diverged.is_none() && !ex.watchdog && ptot < bounds.total {
                    for i in plen..ex.points.len() {
                        let p = ex.points[i];
                        if pdev[p.kind.idx()] + 1 > bounds.per_kind[p.kind.idx()] {
                            continue;
                        }
                        for alt in 1..p.n {
                            let mut pre = Vec::with_capacity(i + 1);
                            pre.extend_from_slice(&ex.points[..i]);
                            pre.push(Point {
                                kind: p.kind,
                                n: p.n,
                                chosen: alt,
                            });
                            children.push(pre);
                        }
                    }
                }
                {
                    let mut st = stats.lock().unwrap();
                    st.executions += 1;
                    st.points_total += ex.points.len() as u64;
                    st.max_points = st.max_points.max(ex.points.len());
                    *st.per_level.entry(item.level).or_insert(0) += 1;
                    if let Some(d) = &ex.diverged {
                        if st.divergences.len() < 5 {
                            st.divergences.push(d.clone());
                        }
                    }
                    if ex.watchdog {
                        st.watchdogs += 1;
                    }
                    if item.level == 0 {
                        for p in &ex.points {
                            st.choice_points_by_kind[p.kind.idx()] += 1;
                            if p.n > 1 {
                                st.branching_points_by_kind[p.kind.idx()] += 1;
                            }
                        }
                    }
                }
                let mut g = shared.heap.lock().unwrap();
                for pre in children {
                    let seq = shared.seq.fetch_add(1, Ordering::Relaxed);
                    *g.2.entry(item.level + 1).or_insert(0) += 1;
                    g.0.push(Item {
                        level: item.level + 1,
                        seq,
                        prefix: pre,
                    });
                }
                *g.2.entry(item.level).or_insert(0) -= 1;
                g.1 -= 1;
                shared.cv.notify_all();
            });
        }
    });
    let mut st = stats.into_inner().unwrap();
    let g = shared.heap.lock().unwrap();
    let truncated = hit_deadline.load(Ordering::Relaxed);
    // a level is complete if nothing of that level or below is outstanding
    let mut completed = None;
    let max_level = st.per_level.keys().copied().max().unwrap_or(0);
    for l in 0..=max_level {
        let outstanding: i64 = g.2.range(..=l).map(|(_, v)| *v).sum();
        if outstanding == 0 {
            completed = Some(l);
        } else {
            break;
        }
    }
    st.completed_level = completed;
    st.exhaustive = !truncated && st.divergences.is_empty() && st.watchdogs == 0;
    st.distinct_obs = obs.into_inner().unwrap().len();
    st
}

/// Determinism self-check: run the default execution and `probe` twice each and compare tapes and
/// observation keys.  Returns Err(description) on any difference.
pub fn determinism_check<O, K>(
    cfg: &RunCfg,
    scen: &Scenario<O>,
    key: K,
) -> Result<(), String>
where
    O: Send + 'static,
    K: Fn(&Exec<O>) -> u64,
{
    let a = run_exec(vec![], cfg, scen);
    let b = run_exec(vec![], cfg, scen);
    if a.points != b.points {
        let i = a
            .points
            .iter()
            .zip(b.points.iter())
            .position(|(x, y)| x != y)
            .unwrap_or(a.points.len().min(b.points.len()));
        return Err(format!(
            "default execution not reproducible: tapes differ at point {i} (len {} vs {})",
            a.points.len(),
            b.points.len()
        ));
    }
    if key(&a) != key(&b) {
        return Err("default execution not reproducible: observations differ".into());
    }
    // one deviating execution: flip the last branching point
    if let Some(i) = a.points.iter().rposition(|p| p.n > 1) {
        let mut pre = a.points[..i].to_vec();
        pre.push(Point {
            kind: a.points[i].kind,
            n: a.points[i].n,
            chosen: 1,
        });
        let c = run_exec(pre.clone(), cfg, scen);
        let d = run_exec(pre, cfg, scen);
        if let Some(e) = c.diverged.clone().or(d.diverged.clone()) {
            return Err(format!("deviating execution diverged on replay: {e}"));
        }
        if c.points != d.points || key(&c) != key(&d) {
            return Err("deviating execution not reproducible".into());
        }
    }
    Ok(())
}
