//! The bounded value grammar (DESIGN.md §2.1) as `serde_amqp::Value`s, simplest first, and the
//! conversion between the library's `Value` and the reference model's `RVal`.
use refamqp::{RType, RVal};
use serde_amqp::described::Described;
use serde_amqp::descriptor::Descriptor;
use serde_amqp::primitives::{Array, Dec128, Dec32, Dec64, OrderedMap, Symbol, Timestamp, Uuid};
use serde_amqp::Value;

pub fn value_to_rval(v: &Value) -> RVal {
    match v {
        Value::Described(d) => {
            let desc = match &d.descriptor {
                Descriptor::Name(s) => RVal::Sym(s.0.as_bytes().to_vec()),
                Descriptor::Code(c) => RVal::Ulong(*c),
            };
            RVal::Described(Box::new(desc), Box::new(value_to_rval(&d.value)))
        }
        Value::Null => RVal::Null,
        Value::Bool(b) => RVal::Bool(*b),
        Value::Ubyte(x) => RVal::Ubyte(*x),
        Value::Ushort(x) => RVal::Ushort(*x),
        Value::Uint(x) => RVal::Uint(*x),
        Value::Ulong(x) => RVal::Ulong(*x),
        Value::Byte(x) => RVal::Byte(*x),
        Value::Short(x) => RVal::Short(*x),
        Value::Int(x) => RVal::Int(*x),
        Value::Long(x) => RVal::Long(*x),
        Value::Float(x) => RVal::Float(x.0.to_bits()),
        Value::Double(x) => RVal::Double(x.0.to_bits()),
        Value::Decimal32(x) => RVal::Dec32(x.clone().into_inner()),
        Value::Decimal64(x) => RVal::Dec64(x.clone().into_inner()),
        Value::Decimal128(x) => RVal::Dec128(x.clone().into_inner()),
        Value::Char(c) => RVal::Char(*c as u32),
        Value::Timestamp(t) => RVal::Timestamp(t.clone().into_inner()),
        Value::Uuid(u) => RVal::Uuid(u.clone().into_inner()),
        Value::Binary(b) => RVal::Binary(b.to_vec()),
        Value::String(s) => RVal::Str(s.clone()),
        Value::Symbol(s) => RVal::Sym(s.0.as_bytes().to_vec()),
        Value::List(l) => RVal::List(l.iter().map(value_to_rval).collect()),
        Value::Map(m) => RVal::Map(m.iter().map(|(k, v)| (value_to_rval(k), value_to_rval(v))).collect()),
        Value::Array(a) => {
            let elems: Vec<RVal> = a.0.iter().map(value_to_rval).collect();
            let ty = elems.first().map(|e| e.rtype()).unwrap_or(RType::Null);
            RVal::Array(ty, elems)
        }
    }
}

pub fn rval_to_value(r: &RVal) -> Option<Value> {
    Some(match r {
        RVal::Null => Value::Null,
        RVal::Bool(b) => Value::Bool(*b),
        RVal::Ubyte(x) => Value::Ubyte(*x),
        RVal::Ushort(x) => Value::Ushort(*x),
        RVal::Uint(x) => Value::Uint(*x),
        RVal::Ulong(x) => Value::Ulong(*x),
        RVal::Byte(x) => Value::Byte(*x),
        RVal::Short(x) => Value::Short(*x),
        RVal::Int(x) => Value::Int(*x),
        RVal::Long(x) => Value::Long(*x),
        RVal::Float(x) => Value::Float(f32::from_bits(*x).into()),
        RVal::Double(x) => Value::Double(f64::from_bits(*x).into()),
        RVal::Dec32(x) => Value::Decimal32(Dec32::from(*x)),
        RVal::Dec64(x) => Value::Decimal64(Dec64::from(*x)),
        RVal::Dec128(x) => Value::Decimal128(Dec128::from(*x)),
        RVal::Char(c) => Value::Char(char::from_u32(*c)?),
        RVal::Timestamp(t) => Value::Timestamp(Timestamp::from(*t)),
        RVal::Uuid(u) => Value::Uuid(Uuid::from(*u)),
        RVal::Binary(b) => Value::Binary(serde_bytes::ByteBuf::from(b.clone())),
        RVal::Str(s) => Value::String(s.clone()),
        RVal::Sym(s) => Value::Symbol(Symbol(String::from_utf8(s.clone()).ok()?)),
        RVal::List(l) => Value::List(l.iter().map(rval_to_value).collect::<Option<Vec<_>>>()?),
        RVal::Map(m) => {
            let mut om = OrderedMap::new();
            for (k, v) in m {
                om.insert(rval_to_value(k)?, rval_to_value(v)?);
            }
            Value::Map(om)
        }
        RVal::Array(_, a) => Value::Array(Array(a.iter().map(rval_to_value).collect::<Option<Vec<_>>>()?)),
        RVal::Described(d, v) => {
            let descriptor = match &**d {
                RVal::Ulong(c) => Descriptor::Code(*c),
                RVal::Sym(s) => Descriptor::Name(Symbol(String::from_utf8(s.clone()).ok()?)),
                _ => return None,
            };
            Value::Described(Box::new(Described {
                descriptor,
                value: rval_to_value(v)?,
            }))
        }
    })
}

/// equality of reference values where an EMPTY array's element type is not compared (a `Value` cannot
/// express it)
pub fn rval_eq_modulo_empty_array(a: &RVal, b: &RVal) -> bool {
    match (a, b) {
        (RVal::Array(ta, ea), RVal::Array(tb, eb)) => {
            if ea.is_empty() && eb.is_empty() {
                return true;
            }
            ta_eq(ta, tb) && ea.len() == eb.len() && ea.iter().zip(eb).all(|(x, y)| rval_eq_modulo_empty_array(x, y))
        }
        (RVal::List(x), RVal::List(y)) => x.len() == y.len() && x.iter().zip(y).all(|(x, y)| rval_eq_modulo_empty_array(x, y)),
        (RVal::Map(x), RVal::Map(y)) => {
            x.len() == y.len()
                && x.iter()
                    .zip(y)
                    .all(|((k1, v1), (k2, v2))| rval_eq_modulo_empty_array(k1, k2) && rval_eq_modulo_empty_array(v1, v2))
        }
        (RVal::Described(d1, v1), RVal::Described(d2, v2)) => {
            rval_eq_modulo_empty_array(d1, d2) && rval_eq_modulo_empty_array(v1, v2)
        }
        _ => a == b,
    }
}
fn ta_eq(a: &RType, b: &RType) -> bool {
    // element types of non-empty arrays: compare only the outer kind for compound element types
    std::mem::discriminant(a) == std::mem::discriminant(b)
}

fn s(len: usize, ch: char) -> String {
    std::iter::repeat(ch).take(len).collect()
}

pub fn sym(x: &str) -> Value {
    Value::Symbol(Symbol(x.to_string()))
}
pub fn bin(len: usize) -> Value {
    Value::Binary(serde_bytes::ByteBuf::from((0..len).map(|i| (i * 7 + 1) as u8).collect::<Vec<u8>>()))
}
pub fn described(d: Descriptor, v: Value) -> Value {
    Value::Described(Box::new(Described { descriptor: d, value: v }))
}
pub fn map(kvs: Vec<(Value, Value)>) -> Value {
    let mut m = OrderedMap::new();
    for (k, v) in kvs {
        m.insert(k, v);
    }
    Value::Map(m)
}
pub fn arr(v: Vec<Value>) -> Value {
    Value::Array(Array(v))
}

/// All boundary representatives of every primitive type, grouped by type (group order = type order).
pub fn leaf_groups() -> Vec<Vec<Value>> {
    let mut g: Vec<Vec<Value>> = vec![];
    g.push(vec![Value::Null]);
    g.push(vec![Value::Bool(true), Value::Bool(false)]);
    g.push(vec![Value::Ubyte(0), Value::Ubyte(1), Value::Ubyte(255)]);
    g.push(vec![Value::Ushort(0), Value::Ushort(255), Value::Ushort(256), Value::Ushort(u16::MAX)]);
    g.push(vec![
        Value::Uint(0),
        Value::Uint(1),
        Value::Uint(255),
        Value::Uint(256),
        Value::Uint(u32::MAX),
    ]);
    g.push(vec![
        Value::Ulong(0),
        Value::Ulong(1),
        Value::Ulong(255),
        Value::Ulong(256),
        Value::Ulong(u32::MAX as u64 + 1),
        Value::Ulong(u64::MAX),
    ]);
    g.push(vec![Value::Byte(0), Value::Byte(-1), Value::Byte(i8::MIN), Value::Byte(i8::MAX)]);
    g.push(vec![Value::Short(0), Value::Short(-1), Value::Short(i16::MIN), Value::Short(i16::MAX)]);
    g.push(vec![
        Value::Int(0),
        Value::Int(-1),
        Value::Int(127),
        Value::Int(128),
        Value::Int(-128),
        Value::Int(-129),
        Value::Int(i32::MIN),
        Value::Int(i32::MAX),
    ]);
    g.push(vec![
        Value::Long(0),
        Value::Long(-1),
        Value::Long(127),
        Value::Long(128),
        Value::Long(-128),
        Value::Long(-129),
        Value::Long(i64::MIN),
        Value::Long(i64::MAX),
    ]);
    g.push(vec![
        Value::Float(0.0f32.into()),
        Value::Float((-0.0f32).into()),
        Value::Float(1.5f32.into()),
        Value::Float(f32::INFINITY.into()),
        Value::Float(f32::NEG_INFINITY.into()),
        Value::Float(f32::NAN.into()),
        Value::Float(f32::MIN_POSITIVE.into()),
    ]);
    g.push(vec![
        Value::Double(0.0f64.into()),
        Value::Double((-0.0f64).into()),
        Value::Double(1.5f64.into()),
        Value::Double(f64::INFINITY.into()),
        Value::Double(f64::NEG_INFINITY.into()),
        Value::Double(f64::NAN.into()),
        Value::Double(f64::MAX.into()),
    ]);
    g.push(vec![
        Value::Decimal32(Dec32::from([0, 0, 0, 0])),
        Value::Decimal32(Dec32::from([0x22, 0x50, 0x00, 0x01])),
        Value::Decimal32(Dec32::from([0xff; 4])),
    ]);
    g.push(vec![
        Value::Decimal64(Dec64::from([0; 8])),
        Value::Decimal64(Dec64::from([1, 2, 3, 4, 5, 6, 7, 8])),
    ]);
    g.push(vec![
        Value::Decimal128(Dec128::from([0; 16])),
        Value::Decimal128(Dec128::from([1, 2, 3, 4, 5, 6, 7, 8, 9, 10, 11, 12, 13, 14, 15, 16])),
    ]);
    g.push(vec![
        Value::Char('a'),
        Value::Char('\0'),
        Value::Char('é'),
        Value::Char('\u{20ac}'),
        Value::Char('\u{10FFFF}'),
    ]);
    g.push(vec![
        Value::Timestamp(Timestamp::from(0)),
        Value::Timestamp(Timestamp::from(-1)),
        Value::Timestamp(Timestamp::from(1_700_000_000_000)),
        Value::Timestamp(Timestamp::from(i64::MIN)),
        Value::Timestamp(Timestamp::from(i64::MAX)),
    ]);
    g.push(vec![
        Value::Uuid(Uuid::from([0; 16])),
        Value::Uuid(Uuid::from([0x12, 0x34, 0x56, 0x78, 0x9a, 0xbc, 0xde, 0xf0, 1, 2, 3, 4, 5, 6, 7, 8])),
    ]);
    g.push(vec![bin(0), bin(1), bin(254), bin(255), bin(256), bin(300)]);
    g.push(vec![
        Value::String(String::new()),
        Value::String("a".into()),
        Value::String("é".into()),
        Value::String("€uro".into()),
        Value::String("\u{10348}x".into()),
        Value::String(s(254, 'x')),
        Value::String(s(255, 'x')),
        Value::String(s(256, 'x')),
        Value::String(s(128, 'é')), // 128 chars, 256 bytes
        Value::String(s(127, 'é') + "x"), // 128 chars, 255 bytes
    ]);
    g.push(vec![
        sym(""),
        sym("a"),
        sym("amqp:accepted:list"),
        sym(&s(255, 's')),
        sym(&s(256, 's')),
    ]);
    g
}

pub fn leaves() -> Vec<Value> {
    leaf_groups().into_iter().flatten().collect()
}

/// One plain representative per primitive type (the "child alphabet" of level-1 compounds).
pub fn reps() -> Vec<Value> {
    vec![
        Value::Null,
        Value::Bool(true),
        Value::Ubyte(7),
        Value::Ushort(300),
        Value::Uint(0),
        Value::Uint(300),
        Value::Ulong(0),
        Value::Ulong(1 << 40),
        Value::Byte(-3),
        Value::Short(-300),
        Value::Int(-5),
        Value::Int(100_000),
        Value::Long(5),
        Value::Long(-(1 << 40)),
        Value::Float(1.5f32.into()),
        Value::Double((-2.5f64).into()),
        Value::Decimal32(Dec32::from([1, 2, 3, 4])),
        Value::Decimal64(Dec64::from([1, 2, 3, 4, 5, 6, 7, 8])),
        Value::Decimal128(Dec128::from([9; 16])),
        Value::Char('é'),
        Value::Timestamp(Timestamp::from(1234)),
        Value::Uuid(Uuid::from([7; 16])),
        bin(3),
        Value::String("hé".into()),
        sym("sy"),
    ]
}

pub fn descriptors() -> Vec<Descriptor> {
    vec![
        Descriptor::Code(0),
        Descriptor::Code(0x77),
        Descriptor::Code(0x0000_0137_0000_000a),
        Descriptor::Code(u64::MAX),
        Descriptor::Name(Symbol("a:b".into())),
        Descriptor::Name(Symbol(s(300, 'd'))),
    ]
}

/// level-1 compounds: children are leaves / reps
pub fn level1() -> Vec<Value> {
    let mut out = vec![];
    let lv = leaves();
    let rp = reps();
    // lists
    out.push(Value::List(vec![]));
    for l in &lv {
        out.push(Value::List(vec![l.clone()]));
    }
    for a in &rp {
        for b in &rp {
            out.push(Value::List(vec![a.clone(), b.clone()]));
        }
    }
    for n in [254usize, 255, 256, 257] {
        out.push(Value::List(vec![Value::Null; n]));
        out.push(Value::List(vec![Value::Uint(0); n]));
    }
    // list bodies around the 255-byte boundary: one binary of len L => body = 1 (count) + 2 + L (vbin8) ..
    for l in 245..=256usize {
        out.push(Value::List(vec![bin(l)]));
        out.push(Value::List(vec![Value::Bool(true), bin(l)]));
    }
    // maps
    out.push(map(vec![]));
    for k in &rp {
        for v in &rp {
            out.push(map(vec![(k.clone(), v.clone())]));
        }
    }
    for k in &lv {
        out.push(map(vec![(k.clone(), Value::Uint(1))]));
    }
    out.push(map(vec![(sym("a"), Value::Uint(1)), (sym("b"), Value::Null)]));
    out.push(map(vec![(Value::Uint(1), sym("a")), (Value::Uint(300), sym("b")), (Value::Uint(0), Value::Null)]));
    out.push(map((0..127u32).map(|i| (Value::Uint(i), Value::Null)).collect()));
    out.push(map((0..128u32).map(|i| (Value::Uint(i), Value::Null)).collect()));
    for l in 244..=254usize {
        out.push(map(vec![(Value::Null, bin(l))]));
    }
    // arrays
    out.push(arr(vec![]));
    for l in &lv {
        out.push(arr(vec![l.clone()]));
    }
    for g in leaf_groups() {
        for a in &g {
            for b in &g {
                out.push(arr(vec![a.clone(), b.clone()]));
            }
        }
        if g.len() >= 3 {
            out.push(arr(g.clone()));
        }
    }
    for n in [254usize, 255, 256] {
        out.push(arr(vec![Value::Ubyte(1); n]));
        out.push(arr(vec![Value::Null; n]));
        out.push(arr(vec![Value::Bool(true); n]));
    }
    for l in 240..=256usize {
        out.push(arr(vec![bin(l)]));
    }
    // described
    for d in descriptors() {
        for v in &rp {
            out.push(described(d.clone(), v.clone()));
        }
    }
    out
}

/// one representative per compound type (children of level-2 compounds)
pub fn compound_reps() -> Vec<Value> {
    vec![
        Value::List(vec![]),
        Value::List(vec![Value::Uint(1)]),
        Value::List(vec![Value::String("ab".into()), Value::Null]),
        map(vec![]),
        map(vec![(sym("k"), Value::Uint(1))]),
        arr(vec![]),
        arr(vec![Value::Uint(1), Value::Uint(300)]),
        arr(vec![sym("a"), sym("bc")]),
        described(Descriptor::Code(0x24), Value::List(vec![])),
        described(Descriptor::Name(Symbol("x:y".into())), Value::Uint(5)),
    ]
}

pub fn level2() -> Vec<Value> {
    let mut out = vec![];
    let mut r2 = reps();
    // a slimmer primitive set for pairs
    r2.truncate(0);
    r2.extend(vec![
        Value::Null,
        Value::Bool(false),
        Value::Uint(0),
        Value::Uint(300),
        Value::Ulong(5),
        Value::Int(-5),
        Value::String("hé".into()),
        sym("sy"),
        bin(2),
        Value::Double(1.5f64.into()),
    ]);
    let cr = compound_reps();
    let all: Vec<Value> = r2.iter().cloned().chain(cr.iter().cloned()).collect();
    // lists with at least one compound child
    for c in &cr {
        out.push(Value::List(vec![c.clone()]));
    }
    for a in &all {
        for b in &all {
            if cr.contains(a) || cr.contains(b) {
                out.push(Value::List(vec![a.clone(), b.clone()]));
            }
        }
    }
    // maps with compound key and/or value
    for k in &all {
        for v in &all {
            if cr.contains(k) || cr.contains(v) {
                out.push(map(vec![(k.clone(), v.clone())]));
            }
        }
    }
    // arrays of compounds: same compound type, 1 and 2 elements
    let lists = vec![
        Value::List(vec![]),
        Value::List(vec![Value::Uint(1)]),
        Value::List(vec![Value::String("ab".into()), Value::Null]),
        Value::List(vec![bin(300)]),
    ];
    let maps = vec![map(vec![]), map(vec![(sym("k"), Value::Uint(1))]), map(vec![(Value::Uint(1), bin(300))])];
    let arrays = vec![
        arr(vec![]),
        arr(vec![Value::Uint(1), Value::Uint(300)]),
        arr(vec![Value::Uint(7)]),
        arr(vec![sym("a"), sym("bc")]),
        arr(vec![Value::String("é".into())]),
    ];
    for grp in [&lists, &maps, &arrays] {
        for a in grp.iter() {
            out.push(arr(vec![a.clone()]));
            for b in grp.iter() {
                out.push(arr(vec![a.clone(), b.clone()]));
            }
        }
    }
    // arrays of described values (same descriptor, same underlying type)
    for d in [Descriptor::Code(0x24), Descriptor::Name(Symbol("x:y".into()))] {
        for (a, b) in [
            (Value::Uint(1), Value::Uint(300)),
            (Value::String("a".into()), Value::String("bc".into())),
            (Value::List(vec![]), Value::List(vec![Value::Uint(1)])),
            (Value::Null, Value::Null),
        ] {
            out.push(arr(vec![described(d.clone(), a.clone())]));
            out.push(arr(vec![described(d.clone(), a.clone()), described(d.clone(), b.clone())]));
        }
    }
    // described compounds and described described
    for d in descriptors() {
        for c in &cr {
            out.push(described(d.clone(), c.clone()));
        }
    }
    out
}

pub fn level3() -> Vec<Value> {
    let mut out = vec![];
    let kids = vec![
        Value::List(vec![arr(vec![Value::List(vec![]), Value::List(vec![Value::Uint(1)])])]),
        arr(vec![arr(vec![arr(vec![Value::Uint(1)])])]),
        map(vec![(arr(vec![sym("a")]), Value::List(vec![map(vec![])]))]),
        described(Descriptor::Code(0x70), Value::List(vec![described(Descriptor::Code(0x71), map(vec![(sym("a"), arr(vec![Value::Int(1)]))]))])),
        Value::List(vec![described(Descriptor::Code(0x24), Value::List(vec![])), Value::List(vec![Value::List(vec![Value::Null])])]),
        arr(vec![map(vec![(sym("k"), arr(vec![Value::Uint(1), Value::Uint(300)]))])]),
        arr(vec![described(Descriptor::Code(1), arr(vec![Value::Uint(1)]))]),
    ];
    let wrap = |v: &Value| -> Vec<Value> {
        vec![
            Value::List(vec![v.clone()]),
            Value::List(vec![Value::Uint(1), v.clone()]),
            map(vec![(sym("k"), v.clone())]),
            map(vec![(v.clone(), Value::Null)]),
            arr(vec![v.clone()]),
            arr(vec![v.clone(), v.clone()]),
            described(Descriptor::Code(0x99), v.clone()),
        ]
    };
    for k in &kids {
        out.push(k.clone());
        for w in wrap(k) {
            out.push(w.clone());
            out.extend(wrap(&w));
        }
    }
    for c in level2().iter().step_by(7) {
        out.extend(wrap(c));
    }
    out
}

/// every level-2 value and every 3rd level-3 value under one more constructor, plus all lists of three
/// children drawn from the compound representatives and a few primitives (at least one compound)
pub fn level4() -> Vec<Value> {
    let mut out = vec![];
    let wrap = |v: &Value| -> Vec<Value> {
        vec![
            Value::List(vec![v.clone()]),
            Value::List(vec![Value::Uint(1), v.clone()]),
            Value::List(vec![v.clone(), Value::String("z".into())]),
            map(vec![(sym("k"), v.clone())]),
            map(vec![(v.clone(), Value::Null)]),
            map(vec![(sym("a"), Value::Uint(1)), (sym("b"), v.clone())]),
            arr(vec![v.clone()]),
            arr(vec![v.clone(), v.clone()]),
            described(Descriptor::Code(0x99), v.clone()),
            described(Descriptor::Name(Symbol("n:m".into())), v.clone()),
        ]
    };
    for c in level2().iter() {
        out.extend(wrap(c));
    }
    for c in level3().iter().step_by(3) {
        out.extend(wrap(c));
    }
    let cr = compound_reps();
    let prims = vec![Value::Null, Value::Uint(300), Value::String("hé".into()), sym("sy"), bin(2)];
    let all: Vec<Value> = prims.iter().cloned().chain(cr.iter().cloned()).collect();
    for a in &all {
        for b in &all {
            for c in &all {
                if cr.contains(a) || cr.contains(b) || cr.contains(c) {
                    out.push(Value::List(vec![a.clone(), b.clone(), c.clone()]));
                }
            }
        }
    }
    out
}

/// The whole value corpus up to `depth` (0 = leaves only), simplest first.
/// Long payloads: strings, symbols and binaries beyond the sizes at which a reader or writer may switch to working
/// in chunks (4 KiB, 8 KiB, 64 KiB), with contents that are not uniform, and multi-byte text whose character count
/// and octet count lie on different sides of the 8-bit width boundary.  Top level only (they are not used as
/// elements of the nested levels, nor in pairwise products).
pub fn long_leaves() -> Vec<Value> {
    let text = |n: usize| -> String { (0..n).map(|i| (b'a' + (i % 23) as u8) as char).collect() };
    let mut v = vec![];
    for n in [4095usize, 4096, 4097, 8192, 8193, 70_000] {
        v.push(Value::String(text(n)));
        v.push(Value::Symbol(serde_amqp::primitives::Symbol::from(text(n))));
        v.push(Value::Binary(serde_bytes::ByteBuf::from((0..n).map(|i| (i % 251) as u8).collect::<Vec<u8>>())));
    }
    // 2-byte and 3-byte characters: 130 x 2 = 260 octets, 100 x 3 = 300 octets, 127 x 2 = 254, 128 x 2 = 256
    for (n, ch) in [(130usize, '\u{fc}'), (100, '\u{20ac}'), (127, '\u{fc}'), (128, '\u{fc}'), (85, '\u{20ac}')] {
        v.push(Value::String(std::iter::repeat(ch).take(n).collect()));
    }
    // the same inside a list and as a map value, where the enclosing size field depends on them
    v.push(Value::List(vec![Value::String(std::iter::repeat('\u{fc}').take(130).collect()), Value::Uint(1)]));
    v.push(map(vec![(Value::String("k".into()), Value::String(std::iter::repeat('\u{fc}').take(130).collect()))]));
    v.push(Value::List(vec![Value::Binary(serde_bytes::ByteBuf::from((0..5000usize).map(|i| (i % 251) as u8).collect::<Vec<u8>>())), Value::Uint(1)]));
    // deep nesting, one compound kind per tower and mixed (the library bounds recursion: its decoder accepts 63 levels; the towers leave room for the wrappers some checks add)
    for depth in [20usize, 42, 43, 52, 60] {
        for kind in 0..5usize {
            let mut x = Value::Uint(7);
            for level in 0..depth {
                x = match if kind == 4 { level % 4 } else { kind } {
                    0 => Value::List(vec![x]),
                    1 => map(vec![(Value::Uint(1), x)]),
                    2 => map(vec![(x, Value::Uint(1))]),
                    _ => described(Descriptor::Code(0x24), x),
                };
            }
            v.push(x);
        }
    }
    v
}

pub fn values(depth: usize) -> Vec<Value> {
    let mut out = leaves();
    out.extend(long_leaves());
    if depth >= 1 {
        out.extend(level1());
    }
    if depth >= 2 {
        out.extend(level2());
    }
    if depth >= 3 {
        out.extend(level3());
    }
    if depth >= 4 {
        out.extend(level4());
    }
    out
}

/// short description of a value's shape for signatures (types only, no magnitudes)
pub fn shape(v: &Value) -> String {
    fn go(v: &Value, d: usize) -> String {
        if d > 3 {
            return "..".into();
        }
        match v {
            Value::Described(x) => format!("described({})", go(&x.value, d + 1)),
            Value::Null => "null".into(),
            Value::Bool(_) => "bool".into(),
            Value::Ubyte(_) => "ubyte".into(),
            Value::Ushort(_) => "ushort".into(),
            Value::Uint(_) => "uint".into(),
            Value::Ulong(_) => "ulong".into(),
            Value::Byte(_) => "byte".into(),
            Value::Short(_) => "short".into(),
            Value::Int(_) => "int".into(),
            Value::Long(_) => "long".into(),
            Value::Float(_) => "float".into(),
            Value::Double(_) => "double".into(),
            Value::Decimal32(_) => "dec32".into(),
            Value::Decimal64(_) => "dec64".into(),
            Value::Decimal128(_) => "dec128".into(),
            Value::Char(_) => "char".into(),
            Value::Timestamp(_) => "timestamp".into(),
            Value::Uuid(_) => "uuid".into(),
            Value::Binary(_) => "binary".into(),
            Value::String(s) => {
                if s.is_ascii() {
                    "string".into()
                } else {
                    "string(non-ascii)".into()
                }
            }
            Value::Symbol(_) => "symbol".into(),
            Value::List(l) => {
                let mut k: Vec<String> = l.iter().map(|x| go(x, d + 1)).collect();
                k.dedup();
                if k.len() > 3 {
                    k.truncate(3);
                    k.push("..".into());
                }
                format!("list[{}]", k.join(","))
            }
            Value::Map(m) => {
                let mut k: Vec<String> = m.iter().map(|(a, b)| format!("{}:{}", go(a, d + 1), go(b, d + 1))).collect();
                k.dedup();
                if k.len() > 2 {
                    k.truncate(2);
                    k.push("..".into());
                }
                format!("map{{{}}}", k.join(","))
            }
            Value::Array(a) => {
                let k = a.0.first().map(|x| go(x, d + 1)).unwrap_or_else(|| "empty".into());
                format!("array<{}>", k)
            }
        }
    }
    go(v, 0)
}
