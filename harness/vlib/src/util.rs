//! small helpers: parallel map, hashing, panic-safe calls
use std::hash::{Hash, Hasher};
use std::sync::atomic::{AtomicUsize, Ordering};

pub fn h64<T: Hash + ?Sized>(t: &T) -> u64 {
    let mut h = std::collections::hash_map::DefaultHasher::new();
    t.hash(&mut h);
    h.finish()
}

/// Run `f(i, &items[i])` for every item on `threads` workers (dynamic work stealing by index);
/// results are returned in item order.
pub fn par_map<T: Sync, R: Send, F: Fn(usize, &T) -> R + Sync>(items: &[T], threads: usize, f: F) -> Vec<R> {
    let next = AtomicUsize::new(0);
    let mut parts: Vec<Vec<(usize, R)>> = vec![];
    std::thread::scope(|s| {
        let mut hs = vec![];
        for _ in 0..threads.max(1) {
            hs.push(s.spawn(|| {
                let mut out = vec![];
                loop {
                    let i = next.fetch_add(1, Ordering::Relaxed);
                    if i >= items.len() {
                        break;
                    }
                    out.push((i, f(i, &items[i])));
                }
                out
            }));
        }
        for h in hs {
            parts.push(h.join().expect("worker panicked"));
        }
    });
    let mut all: Vec<(usize, R)> = parts.into_iter().flatten().collect();
    all.sort_by_key(|x| x.0);
    all.into_iter().map(|x| x.1).collect()
}

/// call `f`, turning a panic into Err(message); panics are recorded quietly (no stderr noise)
pub fn catch<R>(f: impl FnOnce() -> R) -> Result<R, String> {
    let (r, panics) = crate::runner::with_quiet_panics(|| std::panic::catch_unwind(std::panic::AssertUnwindSafe(f)));
    match r {
        Ok(v) => Ok(v),
        Err(_) => Err(panics.into_iter().next().unwrap_or_else(|| "panic".into())),
    }
}

pub fn hex(b: &[u8]) -> String {
    let mut s = String::with_capacity(b.len() * 2);
    for (i, x) in b.iter().enumerate() {
        if i >= 96 {
            s.push_str(&format!("..(+{}B)", b.len() - i));
            break;
        }
        s.push_str(&format!("{:02x}", x));
    }
    s
}

pub fn unhex(s: &str) -> Option<Vec<u8>> {
    let s = s.trim();
    if s.len() % 2 != 0 {
        return None;
    }
    (0..s.len()).step_by(2).map(|i| u8::from_str_radix(&s[i..i + 2], 16).ok()).collect()
}

/// A panic raised inside the library under test (location in one of its crates' sources), as
/// (signature without line numbers, full message).  Panics of harness code are not matched.
pub fn library_panic(panics: &[String]) -> Option<(String, String)> {
    for p in panics {
        if let Some(at) = p.rfind(" @ ") {
            let loc = &p[at + 3..];
            let in_lib = ["fe2o3-amqp/src/", "fe2o3-amqp-types/src/", "serde_amqp/src/", "serde_amqp_derive/src/"].iter().any(|c| loc.contains(c)) && !loc.contains("/verif/");
            if in_lib {
                let file = loc.rsplit_once(':').map(|x| x.0).unwrap_or(loc);
                let file = file.rsplit_once(':').map(|x| x.0).filter(|f| f.ends_with(".rs")).unwrap_or(file);
                let short = ["fe2o3-amqp/src/", "fe2o3-amqp-types/src/", "serde_amqp/src/", "serde_amqp_derive/src/"].iter().find_map(|c| file.find(c).map(|i| &file[i..])).unwrap_or(file);
                let msg: String = p[..at].chars().filter(|c| !c.is_ascii_digit()).take(60).collect();
                return Some((format!("library-task-panicked [{msg} @ {short}]"), p.clone()));
            }
        }
    }
    None
}
