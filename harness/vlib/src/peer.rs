//! The scripted peer: a plain object sitting on one side of a `vpipe`, driven by the harness between
//! quiescence points.  It parses everything the library writes into a wire trace and can answer with
//! protocol-conforming defaults (`Auto`) or with whatever the scenario injects.
use crate::vpipe::Pipe;
use fe2o3_amqp::frames::sasl::Frame as LibSaslFrame;
use fe2o3_amqp_types::definitions::{self, Handle, ReceiverSettleMode, Role, SenderSettleMode};
use fe2o3_amqp_types::messaging::{Accepted, DeliveryState};
use fe2o3_amqp_types::performatives::*;
use std::collections::BTreeMap;
use std::time::Duration;

#[derive(Debug, Clone, Copy, PartialEq, Eq, Hash)]
pub enum Dirn {
    /// written by the library under test, read by the peer
    FromLib,
    /// written by the scripted peer
    FromPeer,
}

#[derive(Debug, Clone)]
pub enum Sasl {
    Mechanisms(fe2o3_amqp_types::sasl::SaslMechanisms),
    Init(fe2o3_amqp_types::sasl::SaslInit),
    Challenge(fe2o3_amqp_types::sasl::SaslChallenge),
    Response(fe2o3_amqp_types::sasl::SaslResponse),
    Outcome(fe2o3_amqp_types::sasl::SaslOutcome),
}

#[derive(Debug, Clone)]
pub enum Body {
    ProtoHeader([u8; 8]),
    Empty,
    Perf(Performative),
    Sasl(Sasl),
    Undecodable(String),
}

#[derive(Debug, Clone)]
pub struct WFrame {
    pub seq: usize,
    pub t: Duration,
    pub dir: Dirn,
    pub size: u32,
    pub doff: u8,
    pub ftype: u8,
    pub channel: u16,
    pub body: Body,
    pub payload: Vec<u8>,
}

impl WFrame {
    pub fn perf(&self) -> Option<&Performative> {
        match &self.body {
            Body::Perf(p) => Some(p),
            _ => None,
        }
    }
    pub fn short(&self) -> String {
        let d = if self.dir == Dirn::FromLib { "<-lib" } else { "peer->" };
        let b = match &self.body {
            Body::ProtoHeader(h) => format!("HEADER {:?}", h),
            Body::Empty => "EMPTY".to_string(),
            Body::Perf(p) => match p {
                Performative::Open(o) => format!("open(mfs={:?},chmax={:?},idle={:?})", o.max_frame_size.0, o.channel_max.0, o.idle_time_out),
                Performative::Begin(b) => format!("begin(rc={:?},noi={},iw={},ow={})", b.remote_channel, b.next_outgoing_id, b.incoming_window, b.outgoing_window),
                Performative::Attach(a) => format!("attach({},h={},{:?},snd={:?},rcv={:?},idc={:?},unsettled={:?})", a.name, a.handle.0, a.role, a.snd_settle_mode, a.rcv_settle_mode, a.initial_delivery_count, a.unsettled.as_ref().map(|m| m.len())),
                Performative::Flow(f) => format!("flow(nii={:?},iw={},noi={},ow={},h={:?},dc={:?},cr={:?},drain={},echo={})", f.next_incoming_id, f.incoming_window, f.next_outgoing_id, f.outgoing_window, f.handle.as_ref().map(|h| h.0), f.delivery_count, f.link_credit, f.drain, f.echo),
                Performative::Transfer(t) => format!("transfer(h={},id={:?},tag={:?},settled={:?},more={},aborted={},batchable={},state={:?})+{}B", t.handle.0, t.delivery_id, t.delivery_tag.as_ref().map(|t| t.to_vec()), t.settled, t.more, t.aborted, t.batchable, t.state, self.payload.len()),
                Performative::Disposition(d) => format!("disposition({:?},{}..{:?},settled={},state={:?})", d.role, d.first, d.last, d.settled, d.state),
                Performative::Detach(d) => format!("detach(h={},closed={},err={:?})", d.handle.0, d.closed, d.error.as_ref().map(|e| format!("{:?}", e.condition))),
                Performative::End(e) => format!("end(err={:?})", e.error.as_ref().map(|e| format!("{:?}", e.condition))),
                Performative::Close(c) => format!("close(err={:?})", c.error.as_ref().map(|e| format!("{:?}", e.condition))),
            },
            Body::Sasl(s) => format!("{:?}", s),
            Body::Undecodable(e) => format!("UNDECODABLE({e})"),
        };
        format!("{d} ch{} {b}", self.channel)
    }
}

pub fn trace_to_strings(tr: &[WFrame]) -> Vec<String> {
    tr.iter().map(|f| f.short()).collect()
}

/// length in bytes of the AMQP value starting at buf[0] (structure only; independent of the library's codec)
pub fn value_len(buf: &[u8]) -> Option<usize> {
    let code = *buf.first()?;
    if code == 0x00 {
        let d = value_len(&buf[1..])?;
        let v = value_len(buf.get(1 + d..)?)?;
        return Some(1 + d + v);
    }
    let n = match code >> 4 {
        0x4 => 1,
        0x5 => 2,
        0x6 => 3,
        0x7 => 5,
        0x8 => 9,
        0x9 => 17,
        0xa | 0xc | 0xe => 2 + *buf.get(1)? as usize,
        0xb | 0xd | 0xf => 5 + u32::from_be_bytes(buf.get(1..5)?.try_into().ok()?) as usize,
        _ => return None,
    };
    if n <= buf.len() {
        Some(n)
    } else {
        None
    }
}

pub fn encode_perf(p: &Performative) -> Vec<u8> {
    match p {
        Performative::Open(x) => serde_amqp::to_vec(x),
        Performative::Begin(x) => serde_amqp::to_vec(x),
        Performative::Attach(x) => serde_amqp::to_vec(x),
        Performative::Flow(x) => serde_amqp::to_vec(x),
        Performative::Transfer(x) => serde_amqp::to_vec(x),
        Performative::Disposition(x) => serde_amqp::to_vec(x),
        Performative::Detach(x) => serde_amqp::to_vec(x),
        Performative::End(x) => serde_amqp::to_vec(x),
        Performative::Close(x) => serde_amqp::to_vec(x),
    }
    .expect("peer: encode performative")
}

pub fn frame_bytes(ftype: u8, channel: u16, body: &[u8]) -> Vec<u8> {
    let mut v = Vec::with_capacity(8 + body.len());
    v.extend_from_slice(&((8 + body.len()) as u32).to_be_bytes());
    v.push(2);
    v.push(ftype);
    v.extend_from_slice(&channel.to_be_bytes());
    v.extend_from_slice(body);
    v
}

pub const AMQP_HEADER: [u8; 8] = [b'A', b'M', b'Q', b'P', 0, 1, 0, 0];
pub const SASL_HEADER: [u8; 8] = [b'A', b'M', b'Q', b'P', 3, 1, 0, 0];

/// Default answers of the scripted peer.  Everything can be switched off so that a scenario can
/// withhold or replace an answer.
#[derive(Debug, Clone)]
pub struct Auto {
    pub header: bool,
    pub open: bool,
    pub begin: bool,
    pub attach: bool,
    pub detach: bool,
    pub end: bool,
    pub close: bool,
    /// when the library attaches a *sender*, grant this much link credit right after our attach
    pub grant_credit: Option<u32>,
    /// automatically settle every unsettled incoming delivery with `accepted` on its last frame
    pub accept_transfers: bool,
    pub max_frame_size: u32,
    pub channel_max: u16,
    pub idle_time_out: Option<u32>,
    pub incoming_window: u32,
    pub outgoing_window: u32,
    pub next_outgoing_id: u32,
    pub handle_max: u32,
    /// peer's channel number for the library's channel c is c + channel_offset
    pub channel_offset: u16,
    /// peer's handle for the library's handle h is h + handle_offset
    pub handle_offset: u32,
    /// initial delivery count announced when the peer is the sending side of a link
    pub initial_delivery_count: u32,
    pub rcv_settle_mode: Option<ReceiverSettleMode>,
    pub snd_settle_mode: Option<SenderSettleMode>,
}

impl Default for Auto {
    fn default() -> Self {
        Auto {
            header: true,
            open: true,
            begin: true,
            attach: true,
            detach: true,
            end: true,
            close: true,
            grant_credit: None,
            accept_transfers: false,
            max_frame_size: 512,
            channel_max: 100,
            idle_time_out: None,
            incoming_window: 1000,
            outgoing_window: 1000,
            next_outgoing_id: 0,
            handle_max: 100,
            channel_offset: 0,
            handle_offset: 0,
            initial_delivery_count: 0,
            rcv_settle_mode: None,
            snd_settle_mode: None,
        }
    }
}

impl Auto {
    pub fn none() -> Self {
        Auto {
            header: false,
            open: false,
            begin: false,
            attach: false,
            detach: false,
            end: false,
            close: false,
            ..Default::default()
        }
    }
}

#[derive(Debug, Clone, Default)]
pub struct PeerSession {
    pub lib_channel: u16,
    pub our_channel: u16,
    /// next transfer-id we expect from the library (advances per transfer frame read)
    pub next_incoming_id: u32,
    pub incoming_window: u32,
    pub next_outgoing_id: u32,
    pub outgoing_window: u32,
    pub lib_begin_seen: bool,
    pub ended_by_lib: bool,
    /// the peer has already sent its end on this session
    pub end_sent: bool,
}

#[derive(Debug, Clone)]
pub struct PeerLink {
    pub lib_channel: u16,
    pub name: String,
    pub lib_handle: u32,
    pub our_handle: u32,
    /// role of the LIBRARY's end
    pub lib_role: Role,
    /// delivery-count as the peer tracks it (sender's count)
    pub delivery_count: u32,
    pub credit: u32,
    pub attached_by_peer: bool,
    pub detached: bool,
    /// the peer has already sent its detach for this attachment
    pub detach_sent: bool,
}

pub struct Peer {
    pub pipe: Pipe,
    pub side: usize,
    inbuf: Vec<u8>,
    pub trace: Vec<WFrame>,
    pub auto: Auto,
    pub sessions: BTreeMap<u16, PeerSession>, // keyed by lib channel
    pub links: Vec<PeerLink>,
    t0: tokio::time::Instant,
    /// frames from the library not yet handed out by `pump`
    cursor: usize,
    pub sasl_mode: bool,
    pub stream_error: Option<String>,
    /// the peer has already sent its close
    pub close_sent: bool,
    /// a frame handed to the pipe for sending at a given output offset of the library (`send_when_lib_wrote`)
    scheduled: Option<(u16, Performative, u32)>,
}

impl Peer {
    pub fn new(pipe: Pipe, side: usize, auto: Auto) -> Self {
        Peer {
            pipe,
            side,
            inbuf: vec![],
            trace: vec![],
            auto,
            sessions: BTreeMap::new(),
            links: vec![],
            t0: tokio::time::Instant::now(),
            cursor: 0,
            sasl_mode: false,
            stream_error: None,
            close_sent: false,
            scheduled: None,
        }
    }

    fn now(&self) -> Duration {
        self.t0.elapsed()
    }

    fn record(&mut self, dir: Dirn, size: u32, doff: u8, ftype: u8, channel: u16, body: Body, payload: Vec<u8>) {
        let seq = self.trace.len();
        let t = self.now();
        self.trace.push(WFrame {
            seq,
            t,
            dir,
            size,
            doff,
            ftype,
            channel,
            body,
            payload,
        });
    }

    // ------------------------------------------------------------------ sending
    pub fn send_raw(&mut self, bytes: &[u8]) {
        self.pipe.push_bytes(self.side, bytes);
    }
    pub fn send_proto_header(&mut self, h: [u8; 8]) {
        self.record(Dirn::FromPeer, 8, 0, 0, 0, Body::ProtoHeader(h), vec![]);
        self.send_raw(&h);
    }
    pub fn send_empty(&mut self) {
        self.record(Dirn::FromPeer, 8, 2, 0, 0, Body::Empty, vec![]);
        let b = frame_bytes(0, 0, &[]);
        self.send_raw(&b);
    }
    pub fn send_perf(&mut self, channel: u16, p: Performative, payload: &[u8]) {
        let mut body = encode_perf(&p);
        body.extend_from_slice(payload);
        let bytes = frame_bytes(0, channel, &body);
        self.note_sent(channel, &p, bytes.len() as u32, payload);
        self.send_raw(&bytes);
    }
    /// Send `p` at the very moment the library has written `at` bytes in total (between two frames of a
    /// burst, where `pump` cannot act).  The peer's books are updated at the next `pump`, before it
    /// looks at what the library wrote.
    pub fn send_when_lib_wrote(&mut self, at: usize, channel: u16, p: Performative) {
        let bytes = frame_bytes(0, channel, &encode_perf(&p));
        self.scheduled = Some((channel, p, bytes.len() as u32));
        self.pipe.set_inject(1 - self.side, at, bytes);
    }
    pub fn scheduled_pending(&self) -> bool {
        self.scheduled.is_some()
    }
    fn note_sent(&mut self, channel: u16, p: &Performative, size: u32, payload: &[u8]) {
        let p = p.clone();
        // bookkeeping for what we send
        match &p {
            Performative::Transfer(_) => {
                if let Some(s) = self.sessions.values_mut().find(|s| s.our_channel == channel) {
                    s.next_outgoing_id = s.next_outgoing_id.wrapping_add(1);
                }
            }
            Performative::End(_) => {
                if let Some(s) = self.sessions.values_mut().find(|s| s.our_channel == channel) {
                    s.end_sent = true;
                }
            }
            Performative::Detach(d) => {
                let lib_ch = self.sessions.values().find(|s| s.our_channel == channel).map(|s| s.lib_channel).unwrap_or(channel);
                if let Some(l) = self.links.iter_mut().find(|l| l.lib_channel == lib_ch && l.our_handle == d.handle.0 && !l.detached && !l.detach_sent) {
                    l.detach_sent = true;
                }
            }
            Performative::Close(_) => self.close_sent = true,
            _ => {}
        }
        self.record(Dirn::FromPeer, size, 2, 0, channel, Body::Perf(p), payload.to_vec());
    }
    pub fn send(&mut self, channel: u16, p: impl Into<Performative>) {
        self.send_perf(channel, p.into(), &[]);
    }
    pub fn send_sasl(&mut self, f: Sasl) {
        let lf = match f.clone() {
            Sasl::Mechanisms(x) => LibSaslFrame::Mechanisms(x),
            Sasl::Init(x) => LibSaslFrame::Init(x),
            Sasl::Challenge(x) => LibSaslFrame::Challenge(x),
            Sasl::Response(x) => LibSaslFrame::Response(x),
            Sasl::Outcome(x) => LibSaslFrame::Outcome(x),
        };
        let body = serde_amqp::to_vec(&lf).expect("peer: encode sasl");
        let bytes = frame_bytes(1, 0, &body);
        self.record(Dirn::FromPeer, bytes.len() as u32, 2, 1, 0, Body::Sasl(f), vec![]);
        self.send_raw(&bytes);
    }
    pub fn close_write(&mut self) {
        self.pipe.close_write(self.side);
    }

    /// session flow state as the peer would put it into a flow frame
    pub fn flow_for(&self, lib_channel: u16) -> Flow {
        let s = self.sessions.get(&lib_channel).cloned().unwrap_or_default();
        Flow {
            next_incoming_id: Some(s.next_incoming_id),
            incoming_window: s.incoming_window,
            next_outgoing_id: s.next_outgoing_id,
            outgoing_window: s.outgoing_window,
            handle: None,
            delivery_count: None,
            link_credit: None,
            available: None,
            drain: false,
            echo: false,
            properties: None,
        }
    }

    /// grant link credit on the link the library attached with `lib_handle`
    pub fn grant(&mut self, lib_channel: u16, lib_handle: u32, credit: u32) {
        let Some(l) = self
            .links
            .iter_mut()
            .find(|l| l.lib_channel == lib_channel && l.lib_handle == lib_handle && !l.detached)
        else {
            return;
        };
        l.credit = credit;
        let (oh, dc) = (l.our_handle, l.delivery_count);
        let mut f = self.flow_for(lib_channel);
        f.handle = Some(Handle(oh));
        f.delivery_count = Some(dc);
        f.link_credit = Some(credit);
        let ch = self.sessions.get(&lib_channel).map(|s| s.our_channel).unwrap_or(lib_channel);
        self.send(ch, Performative::Flow(f));
    }

    pub fn our_channel(&self, lib_channel: u16) -> u16 {
        self.sessions.get(&lib_channel).map(|s| s.our_channel).unwrap_or(lib_channel)
    }

    // ------------------------------------------------------------------ receiving
    fn parse_incoming(&mut self) {
        let bytes = self.pipe.take_bytes(self.side);
        self.inbuf.extend_from_slice(&bytes);
        loop {
            if self.stream_error.is_some() {
                return;
            }
            if self.inbuf.len() >= 8 && &self.inbuf[..4] == b"AMQP" {
                let mut h = [0u8; 8];
                h.copy_from_slice(&self.inbuf[..8]);
                self.inbuf.drain(..8);
                self.sasl_mode = h[4] == 3;
                self.record(Dirn::FromLib, 8, 0, 0, 0, Body::ProtoHeader(h), vec![]);
                continue;
            }
            if self.inbuf.len() < 8 {
                if self.inbuf.len() >= 4 && &self.inbuf[..4] == b"AMQP" {
                    return;
                }
                if self.inbuf.len() < 4 {
                    return;
                }
            }
            let size = u32::from_be_bytes(self.inbuf[..4].try_into().unwrap());
            if size < 8 {
                self.stream_error = Some(format!("frame with size {size} < 8"));
                return;
            }
            if (self.inbuf.len() as u64) < size as u64 {
                return;
            }
            let fr: Vec<u8> = self.inbuf.drain(..size as usize).collect();
            let doff = fr[4];
            let ftype = fr[5];
            let channel = u16::from_be_bytes([fr[6], fr[7]]);
            let hdr = (doff as usize) * 4;
            if doff < 2 || hdr > fr.len() {
                self.stream_error = Some(format!("frame with doff {doff} and size {size}"));
                return;
            }
            let body = &fr[hdr..];
            if body.is_empty() {
                self.record(Dirn::FromLib, size, doff, ftype, channel, Body::Empty, vec![]);
                continue;
            }
            let Some(vl) = value_len(body) else {
                self.record(
                    Dirn::FromLib,
                    size,
                    doff,
                    ftype,
                    channel,
                    Body::Undecodable("body is not one complete AMQP value".into()),
                    body.to_vec(),
                );
                continue;
            };
            let (pb, payload) = body.split_at(vl);
            let parsed = if ftype == 1 {
                match serde_amqp::from_slice::<LibSaslFrame>(pb) {
                    Ok(f) => Body::Sasl(match f {
                        LibSaslFrame::Mechanisms(x) => Sasl::Mechanisms(x),
                        LibSaslFrame::Init(x) => Sasl::Init(x),
                        LibSaslFrame::Challenge(x) => Sasl::Challenge(x),
                        LibSaslFrame::Response(x) => Sasl::Response(x),
                        LibSaslFrame::Outcome(x) => Sasl::Outcome(x),
                    }),
                    Err(e) => Body::Undecodable(format!("{e}")),
                }
            } else {
                match serde_amqp::from_slice::<Performative>(pb) {
                    Ok(p) => Body::Perf(p),
                    Err(e) => Body::Undecodable(format!("{e}")),
                }
            };
            let payload = if matches!(parsed, Body::Undecodable(_)) {
                body.to_vec()
            } else {
                payload.to_vec()
            };
            self.record(Dirn::FromLib, size, doff, ftype, channel, parsed, payload);
        }
    }

    /// Parse what the library wrote since the last call, apply the enabled default answers, and
    /// return the newly read frames.
    pub fn pump(&mut self) -> Vec<WFrame> {
        if self.scheduled.is_some() && self.pipe.inject_fired() {
            let (ch, p, size) = self.scheduled.take().unwrap();
            self.note_sent(ch, &p, size, &[]);
        }
        self.parse_incoming();
        let mut new = vec![];
        while self.cursor < self.trace.len() {
            let f = self.trace[self.cursor].clone();
            self.cursor += 1;
            if f.dir != Dirn::FromLib {
                continue;
            }
            self.react(&f);
            new.push(f);
        }
        new
    }

    fn react(&mut self, f: &WFrame) {
        match &f.body {
            Body::ProtoHeader(h) => {
                if self.auto.header {
                    self.send_proto_header(*h);
                }
            }
            Body::Perf(p) => self.react_perf(f.channel, p, &f.payload),
            _ => {}
        }
    }

    fn react_perf(&mut self, ch: u16, p: &Performative, _payload: &[u8]) {
        // a conforming peer sends nothing on a session after its end and nothing at all after its close
        // (frames of the library that crossed them on the wire are only booked)
        let silent = self.close_sent || self.sessions.get(&ch).map(|s| s.end_sent).unwrap_or(false);
        let saved = self.auto.clone();
        if silent {
            self.auto.attach = false;
            self.auto.detach = false;
            self.auto.accept_transfers = false;
            self.auto.begin = self.auto.begin && !self.close_sent;
            self.auto.end = self.auto.end && !self.close_sent;
        }
        self.react_perf_inner(ch, p, _payload);
        self.auto = saved;
    }

    fn react_perf_inner(&mut self, ch: u16, p: &Performative, _payload: &[u8]) {
        match p {
            Performative::Open(_) => {
                if self.auto.open {
                    let o = Open {
                        container_id: "scripted-peer".into(),
                        hostname: None,
                        max_frame_size: self.auto.max_frame_size.into(),
                        channel_max: self.auto.channel_max.into(),
                        idle_time_out: self.auto.idle_time_out,
                        outgoing_locales: None,
                        incoming_locales: None,
                        offered_capabilities: None,
                        desired_capabilities: None,
                        properties: None,
                    };
                    self.send(0, Performative::Open(o));
                }
            }
            Performative::Begin(b) => {
                let our = ch.wrapping_add(self.auto.channel_offset);
                let s = self.sessions.entry(ch).or_default();
                s.lib_channel = ch;
                s.lib_begin_seen = true;
                s.next_incoming_id = b.next_outgoing_id;
                if b.remote_channel.is_none() {
                    // library initiated
                    s.our_channel = our;
                    s.incoming_window = self.auto.incoming_window;
                    s.outgoing_window = self.auto.outgoing_window;
                    s.next_outgoing_id = self.auto.next_outgoing_id;
                    if self.auto.begin {
                        let bb = Begin {
                            remote_channel: Some(ch),
                            next_outgoing_id: self.auto.next_outgoing_id,
                            incoming_window: self.auto.incoming_window,
                            outgoing_window: self.auto.outgoing_window,
                            handle_max: Handle(self.auto.handle_max),
                            offered_capabilities: None,
                            desired_capabilities: None,
                            properties: None,
                        };
                        self.send(our, Performative::Begin(bb));
                    }
                }
            }
            Performative::Attach(a) => {
                let existing = self
                    .links
                    .iter()
                    .position(|l| l.lib_channel == ch && l.name == a.name && !l.detached);
                if let Some(i) = existing {
                    // answer to an attach the peer initiated
                    self.links[i].lib_handle = a.handle.0;
                    if a.role == Role::Sender {
                        self.links[i].delivery_count = a.initial_delivery_count.unwrap_or(0);
                    }
                    return;
                }
                let our_handle = a.handle.0.wrapping_add(self.auto.handle_offset);
                self.links.push(PeerLink {
                    lib_channel: ch,
                    name: a.name.clone(),
                    lib_handle: a.handle.0,
                    our_handle,
                    lib_role: a.role.clone(),
                    delivery_count: if a.role == Role::Sender {
                        a.initial_delivery_count.unwrap_or(0)
                    } else {
                        self.auto.initial_delivery_count
                    },
                    credit: 0,
                    attached_by_peer: false,
                    detached: false,
                    detach_sent: false,
                });
                if self.auto.attach {
                    let lib_is_sender = a.role == Role::Sender;
                    let aa = Attach {
                        name: a.name.clone(),
                        handle: Handle(our_handle),
                        role: if lib_is_sender { Role::Receiver } else { Role::Sender },
                        snd_settle_mode: self.auto.snd_settle_mode.clone().unwrap_or(a.snd_settle_mode.clone()),
                        rcv_settle_mode: self.auto.rcv_settle_mode.clone().unwrap_or(a.rcv_settle_mode.clone()),
                        source: a.source.clone(),
                        target: a.target.clone(),
                        unsettled: None,
                        incomplete_unsettled: false,
                        initial_delivery_count: if lib_is_sender {
                            None
                        } else {
                            Some(self.auto.initial_delivery_count)
                        },
                        max_message_size: None,
                        offered_capabilities: None,
                        desired_capabilities: None,
                        properties: None,
                    };
                    let och = self.our_channel(ch);
                    self.send(och, Performative::Attach(aa));
                    if lib_is_sender {
                        if let Some(c) = self.auto.grant_credit {
                            self.grant(ch, a.handle.0, c);
                        }
                    }
                }
            }
            Performative::Flow(f) => {
                if let Some(s) = self.sessions.get_mut(&ch) {
                    let _ = s;
                }
                if let (Some(h), Some(c)) = (&f.handle, f.link_credit) {
                    if let Some(l) = self
                        .links
                        .iter_mut()
                        .find(|l| l.lib_channel == ch && l.lib_handle == h.0 && !l.detached)
                    {
                        if l.lib_role == Role::Receiver {
                            l.credit = c;
                        } else if let Some(dc) = f.delivery_count {
                            // the sender's delivery-count is authoritative (e.g. after a drain)
                            l.delivery_count = dc;
                            l.credit = c;
                        }
                    }
                }
            }
            Performative::Transfer(t) => {
                if let Some(s) = self.sessions.get_mut(&ch) {
                    s.next_incoming_id = s.next_incoming_id.wrapping_add(1);
                }
                let last = !t.more;
                if last {
                    if let Some(l) = self
                        .links
                        .iter_mut()
                        .find(|l| l.lib_channel == ch && l.lib_handle == t.handle.0 && !l.detached)
                    {
                        l.delivery_count = l.delivery_count.wrapping_add(1);
                        l.credit = l.credit.saturating_sub(1);
                    }
                }
                if self.auto.accept_transfers && last && !t.aborted {
                    // find delivery id: on this frame or on the first frame of the delivery
                    let did = t.delivery_id.or_else(|| {
                        self.trace.iter().rev().find_map(|w| match (&w.body, w.dir, w.channel) {
                            (Body::Perf(Performative::Transfer(x)), Dirn::FromLib, c)
                                if c == ch && x.handle == t.handle && x.delivery_id.is_some() =>
                            {
                                x.delivery_id
                            }
                            _ => None,
                        })
                    });
                    let settled = t.settled.unwrap_or(false)
                        || self.trace.iter().rev().any(|w| match (&w.body, w.dir, w.channel) {
                            (Body::Perf(Performative::Transfer(x)), Dirn::FromLib, c)
                                if c == ch && x.handle == t.handle && x.delivery_id == did && did.is_some() =>
                            {
                                x.settled.unwrap_or(false)
                            }
                            _ => false,
                        });
                    if let (Some(did), false) = (did, settled) {
                        let d = Disposition {
                            role: Role::Receiver,
                            first: did,
                            last: None,
                            settled: true,
                            state: Some(DeliveryState::Accepted(Accepted {})),
                            batchable: false,
                        };
                        let och = self.our_channel(ch);
                        self.send(och, Performative::Disposition(d));
                    }
                }
            }
            Performative::Disposition(_) => {}
            Performative::Detach(d) => {
                let mut reply = None;
                if let Some(l) = self
                    .links
                    .iter_mut()
                    .find(|l| l.lib_channel == ch && l.lib_handle == d.handle.0 && !l.detached)
                {
                    l.detached = true;
                    // a detach that answers OUR detach needs no further answer
                    if !l.detach_sent {
                        reply = Some(l.our_handle);
                    }
                }
                if self.auto.detach {
                    if let Some(oh) = reply {
                        let dd = Detach {
                            handle: Handle(oh),
                            closed: d.closed,
                            error: None,
                        };
                        let och = self.our_channel(ch);
                        self.send(och, Performative::Detach(dd));
                    }
                }
            }
            Performative::End(_) => {
                let och = self.our_channel(ch);
                let mut already = false;
                if let Some(s) = self.sessions.get_mut(&ch) {
                    s.ended_by_lib = true;
                    already = s.end_sent;
                }
                for l in self.links.iter_mut().filter(|l| l.lib_channel == ch) {
                    l.detached = true;
                }
                if self.auto.end && !already {
                    self.send(och, Performative::End(End { error: None }));
                }
                self.sessions.remove(&ch);
            }
            Performative::Close(_) => {
                if self.auto.close && !self.close_sent {
                    self.send(0, Performative::Close(Close { error: None }));
                }
            }
        }
    }

    pub fn lib_frames(&self) -> impl Iterator<Item = &WFrame> {
        self.trace.iter().filter(|f| f.dir == Dirn::FromLib)
    }
}

pub fn amqp_error(cond: definitions::AmqpError, desc: &str) -> definitions::Error {
    definitions::Error::new(cond, Some(desc.to_string()), None)
}

/// Drive `fut` (an operation of the library's API) while the scripted peer answers at every
/// quiescence point.  Returns None if `fut` has not completed within `horizon` of virtual time.
pub async fn drive<F: std::future::Future>(peer: &mut Peer, fut: F, horizon: Duration) -> Option<F::Output> {
    tokio::pin!(fut);
    let start = tokio::time::Instant::now();
    loop {
        tokio::select! {
            biased;
            r = &mut fut => return Some(r),
            _ = tokio::time::sleep(Duration::from_millis(1)) => {
                peer.pump();
                if start.elapsed() > horizon {
                    return None;
                }
            }
        }
    }
}

/// Let the system run to quiescence `rounds` times, pumping the peer in between.
pub async fn settle(peer: &mut Peer, rounds: usize) {
    for _ in 0..rounds {
        tokio::time::sleep(Duration::from_millis(1)).await;
        peer.pump();
    }
    tokio::time::sleep(Duration::from_millis(1)).await;
}
