//! The choice tape: every source of nondeterminism of an execution is answered from here.
//!
//! An execution is identified by the list of answers it gave at its choice points.  Beyond the
//! replayed prefix every choice is answered 0 (the default: FIFO task order, select branch 0 first,
//! whole-buffer I/O, no preemption).
use serde::{Deserialize, Serialize};
use std::cell::RefCell;

#[derive(Debug, Clone, Copy, PartialEq, Eq, Hash, Serialize, Deserialize, PartialOrd, Ord)]
pub enum Kind {
    Task,
    Select,
    Read,
    Write,
    Preempt,
}

pub const KINDS: [Kind; 5] = [Kind::Task, Kind::Select, Kind::Read, Kind::Write, Kind::Preempt];

impl Kind {
    pub fn idx(self) -> usize {
        match self {
            Kind::Task => 0,
            Kind::Select => 1,
            Kind::Read => 2,
            Kind::Write => 3,
            Kind::Preempt => 4,
        }
    }
}

#[derive(Debug, Clone, Copy, PartialEq, Eq, Hash, Serialize, Deserialize)]
pub struct Point {
    pub kind: Kind,
    pub n: u32,
    pub chosen: u32,
}

#[derive(Default)]
struct TapeState {
    prefix: Vec<Point>,
    points: Vec<Point>,
    diverged: Option<String>,
    /// which kinds are routed to the tape; others are answered 0 without being recorded
    enabled: [bool; 5],
    /// stop recording (and answer 0) after this many points - keeps degenerate executions bounded
    max_points: usize,
}

thread_local! {
    static TAPE: RefCell<Option<TapeState>> = const { RefCell::new(None) };
}

pub fn install(prefix: Vec<Point>, enabled: [bool; 5], max_points: usize) {
    TAPE.with(|t| {
        *t.borrow_mut() = Some(TapeState {
            prefix,
            points: Vec::new(),
            diverged: None,
            enabled,
            max_points,
        })
    });
}

pub struct Taken {
    pub points: Vec<Point>,
    pub diverged: Option<String>,
}

pub fn take() -> Taken {
    TAPE.with(|t| {
        let st = t.borrow_mut().take().unwrap_or_default();
        Taken {
            points: st.points,
            diverged: st.diverged,
        }
    })
}

/// Answer a choice of `n` alternatives (n >= 1).  Without a tape, or for a disabled kind: 0.
pub fn choose(kind: Kind, n: u32) -> u32 {
    if n <= 1 {
        return 0;
    }
    TAPE.try_with(|t| {
        let Ok(mut g) = t.try_borrow_mut() else {
            return 0;
        };
        let Some(st) = g.as_mut() else { return 0 };
        if !st.enabled[kind.idx()] || st.points.len() >= st.max_points {
            return 0;
        }
        let i = st.points.len();
        let chosen = if i < st.prefix.len() {
            let p = st.prefix[i];
            if p.kind != kind || p.n != n {
                if st.diverged.is_none() {
                    st.diverged = Some(format!(
                        "replay divergence at point {i}: recorded ({:?},{}) but execution asks ({:?},{})",
                        p.kind, p.n, kind, n
                    ));
                }
                0
            } else {
                p.chosen
            }
        } else {
            0
        };
        st.points.push(Point { kind, n, chosen });
        chosen
    })
    .unwrap_or(0)
}

/// number of points recorded so far (for harness-side bookkeeping)
pub fn position() -> usize {
    TAPE.try_with(|t| t.try_borrow().ok().and_then(|g| g.as_ref().map(|s| s.points.len())).unwrap_or(0))
        .unwrap_or(0)
}
