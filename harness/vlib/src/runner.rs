//! Runs ONE execution of a scenario on a fresh OS thread with a fresh paused-clock current-thread tokio
//! runtime whose scheduling decisions come from the tape.
use crate::tape::{self, Kind, Point};
use std::cell::RefCell;
use std::future::Future;
use std::pin::Pin;
use std::sync::{Arc, Once};
use std::time::Duration;

pub type LocalFut<O> = Pin<Box<dyn Future<Output = O>>>;
pub type Scenario<O> = Arc<dyn Fn() -> LocalFut<O> + Send + Sync>;

thread_local! {
    static SPUN: std::cell::Cell<bool> = const { std::cell::Cell::new(false) };
    static PANICS: RefCell<Vec<String>> = const { RefCell::new(Vec::new()) };
    static QUIET: RefCell<bool> = const { RefCell::new(false) };
}

static HOOK: Once = Once::new();

/// Install (once per process) a panic hook that records panic messages of harness execution threads
/// instead of printing them.
pub fn install_panic_hook() {
    HOOK.call_once(|| {
        let prev = std::panic::take_hook();
        std::panic::set_hook(Box::new(move |info| {
            let quiet = QUIET.try_with(|q| *q.borrow()).unwrap_or(false);
            if quiet {
                let loc = info
                    .location()
                    .map(|l| format!("{}:{}", l.file(), l.line()))
                    .unwrap_or_default();
                let msg = if let Some(s) = info.payload().downcast_ref::<&str>() {
                    s.to_string()
                } else if let Some(s) = info.payload().downcast_ref::<String>() {
                    s.clone()
                } else {
                    "<non-string panic>".to_string()
                };
                let _ = PANICS.try_with(|p| p.borrow_mut().push(format!("{msg} @ {loc}")));
            } else {
                prev(info);
            }
        }));
    });
}

/// Run `f` with panics recorded quietly on this thread; returns the panics recorded.
pub fn with_quiet_panics<R>(f: impl FnOnce() -> R) -> (R, Vec<String>) {
    install_panic_hook();
    QUIET.with(|q| *q.borrow_mut() = true);
    PANICS.with(|p| p.borrow_mut().clear());
    let r = f();
    QUIET.with(|q| *q.borrow_mut() = false);
    let ps = PANICS.with(|p| std::mem::take(&mut *p.borrow_mut()));
    (r, ps)
}

#[derive(Debug, Clone)]
pub struct RunCfg {
    pub enabled: [bool; 5],
    pub max_points: usize,
    /// watchdog per execution: CPU time of the executing thread (see `wait_exec`)
    pub real_timeout: Duration,
    /// task polls at one virtual instant after which the execution counts as spinning
    pub spin_limit: u64,
}

impl Default for RunCfg {
    fn default() -> Self {
        RunCfg {
            enabled: [true, true, false, false, true],
            max_points: 50_000,
            real_timeout: Duration::from_secs(20),
            spin_limit: 20_000,
        }
    }
}

impl RunCfg {
    pub fn none() -> Self {
        RunCfg {
            enabled: [false; 5],
            ..Default::default()
        }
    }
    pub fn with(mut self, k: Kind, on: bool) -> Self {
        self.enabled[k.idx()] = on;
        self
    }
}

#[derive(Debug)]
pub struct Exec<O> {
    pub points: Vec<Point>,
    /// None if the scenario's main future panicked or the watchdog fired
    pub out: Option<O>,
    /// panic messages of any task (incl. library engine tasks) during this execution
    pub panics: Vec<String>,
    pub diverged: Option<String>,
    /// tasks still alive when the scenario future returned
    pub alive_tasks: usize,
    pub watchdog: bool,
    /// CPU time the executing thread spent on this execution (ms); the measure of "work" - unlike wall-clock
    /// time it does not depend on what else the machine is doing
    pub cpu_ms: f64,
    /// the scheduler was frozen because more than `spin_limit` task polls happened without the
    /// system ever blocking (virtual time could not advance): some task busy-spins
    pub spun: bool,
}

fn exec_on_this_thread<O: 'static>(prefix: Vec<Point>, cfg: &RunCfg, scen: &Scenario<O>) -> Exec<O> {
    let cpu0 = thread_cpu_ms();
    let mut e = exec_on_this_thread_inner(prefix, cfg, scen);
    e.cpu_ms = thread_cpu_ms() - cpu0;
    e
}

/// CPU time consumed so far by the calling thread, in milliseconds.
pub fn thread_cpu_ms() -> f64 {
    let mut ts = libc::timespec { tv_sec: 0, tv_nsec: 0 };
    unsafe { libc::clock_gettime(libc::CLOCK_THREAD_CPUTIME_ID, &mut ts) };
    ts.tv_sec as f64 * 1000.0 + ts.tv_nsec as f64 / 1e6
}

/// The CPU-time clock of the calling thread, readable from other threads.
fn my_cpu_clock() -> libc::clockid_t {
    let mut cid: libc::clockid_t = 0;
    unsafe { libc::pthread_getcpuclockid(libc::pthread_self(), &mut cid) };
    cid
}

fn read_clock_ms(cid: libc::clockid_t) -> Option<f64> {
    let mut ts = libc::timespec { tv_sec: 0, tv_nsec: 0 };
    let rc = unsafe { libc::clock_gettime(cid, &mut ts) };
    if rc == 0 {
        Some(ts.tv_sec as f64 * 1000.0 + ts.tv_nsec as f64 / 1e6)
    } else {
        None
    }
}

/// Wait for the execution running on another thread.  The watchdog `budget` is CPU time of THAT thread: an
/// execution on a busy machine may take long in wall-clock terms without having computed much, and that must
/// not be held against the subject.  A wall-clock cap of 20 x budget + 2 min remains as a back-stop for an
/// execution that blocks without computing.
fn wait_exec<O>(rx: &std::sync::mpsc::Receiver<Exec<O>>, cid_rx: &std::sync::mpsc::Receiver<libc::clockid_t>, budget: Duration) -> Result<Exec<O>, bool> {
    use std::sync::mpsc::RecvTimeoutError;
    let wall0 = std::time::Instant::now();
    let wall_cap = budget * 20 + Duration::from_secs(120);
    let step = Duration::from_millis(200).min(budget);
    let mut clock: Option<(libc::clockid_t, f64)> = None;
    loop {
        match rx.recv_timeout(step) {
            Ok(e) => return Ok(e),
            Err(RecvTimeoutError::Disconnected) => return Err(false),
            Err(RecvTimeoutError::Timeout) => {
                if clock.is_none() {
                    if let Ok(cid) = cid_rx.try_recv() {
                        clock = read_clock_ms(cid).map(|t| (cid, t));
                    }
                }
                if let Some((cid, t0)) = clock {
                    match read_clock_ms(cid) {
                        Some(t) if t - t0 > budget.as_secs_f64() * 1000.0 => return Err(true),
                        _ => {}
                    }
                }
                if wall0.elapsed() > wall_cap {
                    return Err(true);
                }
            }
        }
    }
}

fn exec_on_this_thread_inner<O: 'static>(prefix: Vec<Point>, cfg: &RunCfg, scen: &Scenario<O>) -> Exec<O> {
    tape::install(prefix, cfg.enabled, cfg.max_points);
    tokio::verif_hook::set_hook(Box::new(|k, n| match k {
        tokio::verif_hook::Kind::Task => tape::choose(Kind::Task, n),
        tokio::verif_hook::Kind::Select => tape::choose(Kind::Select, n),
    }));
    fe2o3_amqp::verif::set_preempt_hook(Box::new(|_label| tape::choose(Kind::Preempt, 3) as u8));
    SPUN.with(|s| s.set(false));
    {
        let limit = cfg.spin_limit;
        let mut last: Option<tokio::time::Instant> = None;
        let mut count = 0u64;
        tokio::verif_hook::set_tick(Box::new(move || {
            if SPUN.with(|s| s.get()) {
                return true;
            }
            let now = tokio::time::Instant::now();
            if last == Some(now) {
                count += 1;
                if count > limit {
                    SPUN.with(|s| s.set(true));
                    return true;
                }
            } else {
                last = Some(now);
                count = 0;
            }
            false
        }));
    }
    let (res, panics) = with_quiet_panics(|| {
        std::panic::catch_unwind(std::panic::AssertUnwindSafe(|| {
            let rt = tokio::runtime::Builder::new_current_thread()
                .enable_time()
                .start_paused(true)
                .build()
                .expect("runtime");
            let out = rt.block_on(scen());
            let alive = rt.metrics().num_alive_tasks();
            // stop consulting the tape during shutdown
            tokio::verif_hook::clear_hook();
            drop(rt);
            (out, alive)
        }))
    });
    tokio::verif_hook::clear_hook();
    fe2o3_amqp::verif::clear_preempt_hook();
    let taken = tape::take();
    let spun = SPUN.with(|s| s.get());
    match res {
        Ok((out, alive)) => Exec {
            points: taken.points,
            out: Some(out),
            panics,
            diverged: taken.diverged,
            alive_tasks: alive,
            watchdog: false,
            cpu_ms: 0.0,
            spun,
        },
        Err(e) => Exec {
            points: taken.points,
            out: None,
            panics: {
                let mut panics = panics;
                if panics.is_empty() {
                    let msg = if let Some(s) = e.downcast_ref::<&str>() {
                        s.to_string()
                    } else if let Some(s) = e.downcast_ref::<String>() {
                        s.clone()
                    } else {
                        "<non-string panic payload>".into()
                    };
                    panics.push(format!("main future: {msg}"));
                }
                panics
            },
            diverged: taken.diverged,
            alive_tasks: 0,
            watchdog: false,
            cpu_ms: 0.0,
            spun,
        },
    }
}

type Job = Box<dyn FnOnce() + Send>;

thread_local! {
    /// a persistent helper thread per calling thread, used when no tape choice is enabled (history search):
    /// creating a fresh OS thread per execution serialises on the process' address-space lock
    static HELPER: RefCell<Option<std::sync::mpsc::Sender<Job>>> = const { RefCell::new(None) };
}

fn helper_submit(job: Job) {
    HELPER.with(|h| {
        let mut g = h.borrow_mut();
        let job = match g.as_ref() {
            Some(tx) => match tx.send(job) {
                Ok(()) => return,
                Err(e) => e.0,
            },
            None => job,
        };
        let (tx, rx) = std::sync::mpsc::channel::<Job>();
        std::thread::Builder::new()
            .stack_size(8 << 20)
            .spawn(move || {
                while let Ok(j) = rx.recv() {
                    j();
                }
            })
            .expect("spawn helper thread");
        let _ = tx.send(job);
        *g = Some(tx);
    });
}

fn helper_abandon() {
    HELPER.with(|h| *h.borrow_mut() = None);
}

/// Run one execution.  With tape choices enabled (schedule exploration) it runs on a FRESH thread, so that
/// every execution starts from identical thread-local state (hash seeds, tokio context, rng) and replays
/// are bit-reproducible.  With no choice kind enabled (history search, default schedule only) a persistent
/// helper thread per caller is reused.
pub fn run_exec<O: Send + 'static>(prefix: Vec<Point>, cfg: &RunCfg, scen: &Scenario<O>) -> Exec<O> {
    if cfg.enabled.iter().all(|e| !*e) && prefix.is_empty() {
        let cfg2 = cfg.clone();
        let scen2 = scen.clone();
        let (tx, rx) = std::sync::mpsc::channel();
        let (cid_tx, cid_rx) = std::sync::mpsc::channel();
        helper_submit(Box::new(move || {
            let _ = cid_tx.send(my_cpu_clock());
            let e = exec_on_this_thread(vec![], &cfg2, &scen2);
            let _ = tx.send(e);
        }));
        return match wait_exec(&rx, &cid_rx, cfg.real_timeout) {
            Ok(e) => e,
            Err(_) => {
                helper_abandon();
                Exec {
                    points: vec![],
                    out: None,
                    panics: vec![],
                    diverged: None,
                    alive_tasks: 0,
                    watchdog: true,
                    cpu_ms: 0.0,
                    spun: false,
                }
            }
        };
    }
    run_exec_fresh(prefix, cfg, scen)
}

/// Run one execution on a fresh thread (fresh thread-locals: RandomState seeds, tokio context, rng).
pub fn run_exec_fresh<O: Send + 'static>(prefix: Vec<Point>, cfg: &RunCfg, scen: &Scenario<O>) -> Exec<O> {
    let cfg2 = cfg.clone();
    let scen2 = scen.clone();
    let (tx, rx) = std::sync::mpsc::channel();
    let (cid_tx, cid_rx) = std::sync::mpsc::channel();
    let h = std::thread::Builder::new()
        .stack_size(8 << 20)
        .spawn(move || {
            let _ = cid_tx.send(my_cpu_clock());
            let e = exec_on_this_thread(prefix, &cfg2, &scen2);
            let _ = tx.send(e);
        })
        .expect("spawn exec thread");
    match wait_exec(&rx, &cid_rx, cfg.real_timeout) {
        Ok(e) => {
            let _ = h.join();
            e
        }
        Err(false) => {
            let r = h.join();
            panic!("MACHINERY: execution thread died outside the subject: {:?}", r.err().map(|e| {
                e.downcast_ref::<String>().cloned().or_else(|| e.downcast_ref::<&str>().map(|s| s.to_string()))
            }));
        }
        Err(true) => {
            // the execution keeps computing (or blocks for ever): leak the thread, report the watchdog
            Exec {
                points: vec![],
                out: None,
                panics: vec![],
                diverged: None,
                alive_tasks: 0,
                watchdog: true,
                cpu_ms: 0.0,
                spun: false,
            }
        }
    }
}

/// Virtual-time quiescence: returns when no task of the runtime is runnable any more
/// (tokio only auto-advances the paused clock when it would otherwise park).
pub async fn quiesce() {
    tokio::time::sleep(Duration::from_millis(1)).await;
}

/// virtual "now" in ms since runtime start is not available directly; scenarios capture a start Instant.
pub fn vnow() -> tokio::time::Instant {
    tokio::time::Instant::now()
}
