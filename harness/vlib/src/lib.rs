//! Shared verification infrastructure (see /verif/DESIGN.md §2).
pub mod explore;
pub mod peer;
pub mod report;
pub mod runner;
pub mod tape;
pub mod vpipe;
