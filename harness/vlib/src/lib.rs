//! Shared verification infrastructure (see /verif/DESIGN.md §2).
pub mod corpus;
pub mod explore;
pub mod history;
pub mod peer;
pub mod report;
pub mod runner;
pub mod tape;
pub mod util;
pub mod vpipe;
