//! C13 - session and link lifecycles: begin/end and attach/detach handshakes complete.
//!
//! History search: real client Session + Sender/Receiver against the scripted peer over every history
//! of local calls and peer behaviour, judged by per-channel and per-handle trace automata and by the
//! results of the local calls.
use crate::scen;
use fe2o3_amqp::link::{DetachError, Receiver, Sender};
use fe2o3_amqp::session::{Error as SessError, SessionHandle};
use fe2o3_amqp::Session;
use fe2o3_amqp_types::definitions::{self, AmqpError, Handle, SenderSettleMode};
use fe2o3_amqp_types::messaging::Message;
use fe2o3_amqp_types::performatives::*;
use serde_json::json;
use std::sync::Arc;
use std::time::{Duration, Instant};
use vlib::history::{search, HistOut};
use vlib::peer::{amqp_error, drive, settle, trace_to_strings, Auto, Body, Dirn, WFrame};
use vlib::report::{Ctx, Outcome};
use vlib::runner::{run_exec, RunCfg, Scenario};
use vlib::util::h64;

#[derive(Debug, Clone, Copy, PartialEq, Eq, Hash)]
pub enum Ev {
    LAttachS,
    LSend,
    LSendsEnd,
    LSendsEndErr,
    LSendsDropSession,
    LSendsDropLink,
    LDetachS,
    LCloseS,
    LDropS,
    LEnd,
    LEndErr,
    LDropSession,
    PDetach,
    PDetachErr,
    PDetachOpen,
    PEnd,
    PEndErr,
    PWithholdDetach,
    PWithholdEnd,
    PRefuseAttach,
    PTransferUnattached,
    LAttachR,
    LCloseR,
    /// the peer sends a second attach for the sender link that is already attached (same name, same handle)
    PDupAttach,
    /// application: sender.on_detach() (waits for / observes the peer's detach; cancelled at its horizon)
    LOnDetachS,
    /// the peer sends two pre-settled transfers on the link where the library is the receiver
    PXfer2,
    /// the peer asks for state with echo=true: a link flow on the sender link as long as the PEER has not sent its
    /// detach for it (else a bare session flow), as long as the peer has not sent its end.  After a local detach /
    /// end that the peer has not answered yet this is a frame that crossed it: legal for the peer, and the
    /// library can no longer answer it
    PFlowEcho,
}
pub const ALPHABET: [Ev; 27] = [
    Ev::LAttachS,
    Ev::LSend,
    Ev::LCloseS,
    Ev::PDetach,
    Ev::LEnd,
    Ev::PEnd,
    Ev::LSendsEnd,
    Ev::LSendsEndErr,
    Ev::LSendsDropSession,
    Ev::LSendsDropLink,
    Ev::LDetachS,
    Ev::LDropS,
    Ev::LEndErr,
    Ev::LDropSession,
    Ev::PDetachErr,
    Ev::PDetachOpen,
    Ev::PEndErr,
    Ev::PWithholdDetach,
    Ev::PWithholdEnd,
    Ev::PRefuseAttach,
    Ev::PTransferUnattached,
    Ev::LAttachR,
    Ev::LCloseR,
    Ev::PDupAttach,
    Ev::LOnDetachS,
    Ev::PXfer2,
    Ev::PFlowEcho,
];

#[derive(Debug, Clone, Default)]
pub struct Obs {
    pub executed: usize,
    pub fails: Vec<(String, String)>,
    pub state_keys: Vec<u64>,
    pub trace: Vec<String>,
    pub machinery: Option<String>,
    pub pending_calls: usize,
    pub flush_checks: usize,
}

/// the PEER's view of the link `name`: the handle it attached it with, as long as it has not itself sent a detach
/// for it (a peer may go on using a link until it has seen - and answered - the library's detach)
fn peer_side_attached(trace: &[WFrame], name: &str) -> Option<u32> {
    let mut h: Option<u32> = None;
    for w in trace.iter().filter(|w| w.dir == Dirn::FromPeer) {
        match &w.body {
            Body::Perf(Performative::Attach(a)) if a.name == name => h = Some(a.handle.0),
            // (the scripted peer mirrors the library's handle numbers: when it answers the attach of another link
            // with the same number, it has given that number away - no real peer would use it for both)
            Body::Perf(Performative::Attach(a)) if Some(a.handle.0) == h => h = None,
            Body::Perf(Performative::Detach(d)) if Some(d.handle.0) == h => h = None,
            _ => {}
        }
    }
    h
}

fn peer_err(tag: &str) -> definitions::Error {
    amqp_error(AmqpError::NotAllowed, tag)
}

/// safety automata over everything the library wrote on `channel`
pub fn judge_channel(trace: &[WFrame], channel: u16) -> Vec<(String, String)> {
    let mut f = vec![];
    let mut begins = 0;
    let mut ends = 0;
    let mut after_end = 0;
    // per handle: attached?, detaches since last attach
    let mut attached: std::collections::BTreeMap<u32, bool> = Default::default();
    for w in trace.iter().filter(|w| w.dir == Dirn::FromLib && w.channel == channel) {
        let Body::Perf(p) = &w.body else { continue };
        if matches!(p, Performative::Open(_) | Performative::Close(_)) {
            continue;
        }
        if ends > 0 {
            after_end += 1;
        }
        match p {
            Performative::Begin(_) => begins += 1,
            Performative::End(_) => ends += 1,
            Performative::Attach(a) => {
                if attached.get(&a.handle.0) == Some(&true) {
                    f.push(("attach-on-attached-handle".to_string(), format!("a second attach on handle {} while it is attached", a.handle.0)));
                }
                attached.insert(a.handle.0, true);
            }
            Performative::Detach(d) => {
                if attached.get(&d.handle.0) != Some(&true) {
                    f.push((
                        "second-detach".to_string(),
                        format!("a detach for handle {} that is not attached (more than one detach for one attach)", d.handle.0),
                    ));
                }
                attached.insert(d.handle.0, false);
            }
            Performative::Transfer(t) => {
                if attached.get(&t.handle.0) != Some(&true) {
                    f.push(("frame-after-detach".to_string(), format!("a transfer for handle {} after its detach / before its attach", t.handle.0)));
                }
            }
            Performative::Flow(fl) => {
                if let Some(h) = &fl.handle {
                    if attached.get(&h.0) != Some(&true) {
                        f.push(("frame-after-detach".to_string(), format!("a flow for handle {} after its detach / before its attach", h.0)));
                    }
                }
            }
            _ => {}
        }
    }
    if begins > 1 {
        f.push(("begin-twice".to_string(), format!("{begins} begin frames on channel {channel}")));
    }
    if ends > 1 {
        f.push(("end-twice".to_string(), format!("{ends} end frames on channel {channel}")));
    }
    if after_end > 0 {
        f.push(("frame-after-end".to_string(), format!("{after_end} frame(s) on channel {channel} after the end")));
    }
    f
}

fn lib_frames<'a>(trace: &'a [WFrame], from: usize) -> impl Iterator<Item = &'a WFrame> {
    trace[from..].iter().filter(|w| w.dir == Dirn::FromLib)
}
fn lib_end(trace: &[WFrame]) -> Option<Option<definitions::Error>> {
    trace.iter().find_map(|w| match (&w.body, w.dir) {
        (Body::Perf(Performative::End(e)), Dirn::FromLib) => Some(e.error.clone()),
        _ => None,
    })
}
fn lib_close_frame(trace: &[WFrame]) -> bool {
    trace.iter().any(|w| matches!((&w.body, w.dir), (Body::Perf(Performative::Close(_)), Dirn::FromLib)))
}
fn lib_detach(trace: &[WFrame], from: usize, handle: u32) -> Option<Detach> {
    lib_frames(trace, from).find_map(|w| match &w.body {
        Body::Perf(Performative::Detach(d)) if d.handle.0 == handle => Some(d.clone()),
        _ => None,
    })
}

pub async fn scenario(events: Vec<Ev>) -> Obs {
    let mut obs = Obs::default();
    let mut auto = Auto::default();
    auto.max_frame_size = 4096;
    auto.grant_credit = Some(1000);
    auto.accept_transfers = true;
    let mut c = match scen::open_client(auto, 4096).await {
        Ok(c) => c,
        Err(e) => {
            obs.machinery = Some(e);
            return obs;
        }
    };
    let mut session: Option<SessionHandle<()>> = match scen::begin(&mut c, Session::builder().incoming_window(4)).await {
        Ok(s) => Some(s),
        Err(e) => {
            obs.machinery = Some(e);
            return obs;
        }
    };
    let h = Duration::from_secs(3);
    let mut sender: Option<Sender> = None;
    let mut receiver: Option<Receiver> = None;
    let mut snd_handle: Option<u32> = None; // lib's handle while attached
    let mut rcv_handle: Option<u32> = None;
    let mut session_over = false; // local end/drop done or peer ended
    let mut peer_ended: Option<Option<definitions::Error>> = None;
    // a peer detach on the sender that the application has not yet had a chance to answer
    let mut peer_detached_s: Option<(bool, Option<definitions::Error>, usize)> = None;
    let mut refuse_next_attach = false;
    // an earlier call on the link (send) has already returned the error carried by the peer's detach
    let mut peer_detach_error_delivered = false;
    let mut sent_msgs = 0usize;
    let mut peer_xfers = 0u32;
    let mut call_results: Vec<String> = vec![];
    // detached handles stay alive to the end of the history: what detach() did not send must not be supplied by a drop
    let mut kept: Vec<fe2o3_amqp::link::sender::DetachedSender> = vec![];
    obs.state_keys.push(h64(&0u8));
    let mut last_sess: Option<vlib::peer::PeerSession> = None;
    for (i, ev) in events.iter().enumerate() {
        if let Some(s) = c.peer.sessions.get(&0) {
            last_sess = Some(s.clone());
        }
        let sess_alive = session.is_some() && !session_over;
        let enabled = match ev {
            Ev::LAttachS => sess_alive && sender.is_none(),
            Ev::LAttachR => sess_alive && receiver.is_none(),
            Ev::LSend | Ev::LDetachS | Ev::LCloseS | Ev::LDropS | Ev::LSendsDropLink => sender.is_some(),
            // (only when the peer's detach is there to be observed: otherwise the call just waits)
            Ev::LOnDetachS => sender.is_some() && peer_detached_s.is_some(),
            Ev::LSendsEnd | Ev::LSendsEndErr | Ev::LSendsDropSession => sender.is_some() && sess_alive && peer_detached_s.is_none(),
            Ev::LCloseR => receiver.is_some(),
            Ev::LEnd | Ev::LEndErr | Ev::LDropSession => sess_alive,
            Ev::PDetach | Ev::PDetachErr | Ev::PDetachOpen => snd_handle.is_some() && peer_detached_s.is_none() && peer_ended.is_none() && !session_over,
            Ev::PEnd | Ev::PEndErr => peer_ended.is_none() && !session_over,
            Ev::PWithholdDetach => c.peer.auto.detach && peer_ended.is_none(),
            Ev::PWithholdEnd => c.peer.auto.end && peer_ended.is_none(),
            Ev::PRefuseAttach => !refuse_next_attach && peer_ended.is_none() && !session_over,
            Ev::PTransferUnattached => peer_ended.is_none() && !session_over,
            // (also after a local close / drop of the receiver that the peer has not answered yet: transfers that cross it)
            // (also after a local end that the peer has not answered yet - see `last_sess` below: transfers that cross it)
            Ev::PXfer2 => peer_side_attached(&c.peer.trace, "r").is_some() && peer_ended.is_none() && last_sess.as_ref().map(|s| !s.end_sent).unwrap_or(false) && !peer_sent_end(&c.peer.trace) && peer_xfers < 20,
            // (the peer forgets a session the library has ended even while it withholds its own end: its last view is kept
            // in `last_sess` so that a flow which crosses the library's end can still be written)
            Ev::PFlowEcho => peer_ended.is_none() && last_sess.as_ref().map(|s| s.lib_begin_seen && !s.end_sent).unwrap_or(false) && !peer_sent_end(&c.peer.trace),
            Ev::PDupAttach => snd_handle.is_some() && peer_detached_s.is_none() && peer_ended.is_none() && !session_over,
        };
        if !enabled {
            break;
        }
        let mark = c.peer.trace.len();
        let mut sends_before_teardown = 0usize;
        // (peer's detach was closing, trace index after it, library handle, operation): the application has
        // operated on the link, so the peer's detach must have been answered in kind by the next quiescence
        let mut answer_due: Option<(bool, usize, u32, &str)> = None;
        match ev {
            Ev::LAttachS | Ev::LAttachR => {
                let is_s = *ev == Ev::LAttachS;
                if refuse_next_attach {
                    c.peer.auto.attach = false;
                }
                let sess = session.as_mut().unwrap();
                // drive by hand so that a refusing peer can answer attach + detach
                let r = {
                    let peer = &mut c.peer;
                    if is_s {
                        let fut = Sender::builder().name("s").target("q").sender_settle_mode(SenderSettleMode::Settled).attach(sess);
                        tokio::pin!(fut);
                        let mut out = None;
                        let start = tokio::time::Instant::now();
                        loop {
                            tokio::select! { biased;
                                r = &mut fut => { out = Some(r.map(|s| { sender = Some(s); }).map_err(|e| e.to_string())); break; }
                                _ = tokio::time::sleep(Duration::from_millis(1)) => {
                                    let new = peer.pump();
                                    refuse_if_needed(peer, &new, refuse_next_attach);
                                    if start.elapsed() > h { break; }
                                }
                            }
                        }
                        out
                    } else {
                        let fut = Receiver::builder().name("r").source("q").attach(sess);
                        tokio::pin!(fut);
                        let mut out = None;
                        let start = tokio::time::Instant::now();
                        loop {
                            tokio::select! { biased;
                                r = &mut fut => { out = Some(r.map(|s| { receiver = Some(s); }).map_err(|e| e.to_string())); break; }
                                _ = tokio::time::sleep(Duration::from_millis(1)) => {
                                    let new = peer.pump();
                                    refuse_if_needed(peer, &new, refuse_next_attach);
                                    if start.elapsed() > h { break; }
                                }
                            }
                        }
                        out
                    }
                };
                let was_refused = refuse_next_attach;
                if refuse_next_attach {
                    c.peer.auto.attach = true;
                    refuse_next_attach = false;
                }
                let lh = c.peer.trace[mark..].iter().find_map(|w| match (&w.body, w.dir) {
                    (Body::Perf(Performative::Attach(a)), Dirn::FromLib) => Some(a.handle.0),
                    _ => None,
                });
                match r {
                    Some(Ok(())) => {
                        if was_refused {
                            obs.fails.push(("refused-attach-succeeded".into(), "the peer refused the attach (attach followed by a closing detach with error) but attach() returned Ok".into()));
                        }
                        if is_s {
                            snd_handle = lh;
                        } else {
                            rcv_handle = lh;
                        }
                    }
                    Some(Err(_)) => {}
                    None => {
                        // (an attach that never reached the wire - e.g. on a session whose end the peer withholds -
                        // is outside the statement: only an attach the peer answered has to return)
                        let answered = lh.is_some()
                            && c.peer.trace[mark..].iter().any(|w| w.dir == Dirn::FromPeer && matches!(&w.body, Body::Perf(Performative::Attach(_))));
                        if peer_ended.is_none() && answered {
                            obs.fails.push(("attach-hangs".into(), format!("attach() did not return within {:?} although the peer answered", h)));
                        }
                    }
                }
            }
            Ev::LSend => {
                let s = sender.as_mut().unwrap();
                let r = drive(&mut c.peer, s.send(Message::builder().value(sent_msgs as u32).build()), h).await;
                sent_msgs += 1;
                if let (Some((peer_closed, _, at)), Some(hd)) = (&peer_detached_s, snd_handle) {
                    answer_due = Some((*peer_closed, *at, hd, "send"));
                }
                match r {
                    Some(res) => {
                        if let (Err(e), Some((_, Some(pe), _))) = (&res, &peer_detached_s) {
                            if format!("{:?}", e).contains(&format!("{:?}", pe.condition)) {
                                peer_detach_error_delivered = true;
                            }
                        }
                    }
                    None => {
                        if peer_detached_s.is_some() || peer_ended.is_some() {
                            obs.fails.push(("send-hangs-after-remote-detach".into(), "send() never returned although the peer had detached the link / ended the session".into()));
                        }
                    }
                }
            }
            Ev::LOnDetachS => {
                // Permissive reading: on_detach() only reports the peer's detach; the answer in kind is due with
                // the next call that can send one (detach / close / send / drop)
                let s = sender.as_mut().unwrap();
                let r = drive(&mut c.peer, s.on_detach(), h).await;
                call_results.push(format!("on_detach() -> {:?}", r.as_ref().map(|e| e.to_string())));
                // (the error carried by the peer's detach has reached the caller: a later close() need not repeat it)
                if let (Some(e), Some((_, Some(pe), _))) = (&r, &peer_detached_s) {
                    if format!("{:?}", e).contains(&format!("{:?}", pe.condition)) {
                        peer_detach_error_delivered = true;
                    }
                }
                // (a session that has sent its end discards what still arrives: the detach is then never seen)
                if r.is_none() && lib_end(&c.peer.trace).is_none() {
                    obs.fails.push(("on_detach-hangs".into(), "on_detach() did not return although the peer's detach had arrived".into()));
                }
            }
            Ev::LSendsEnd | Ev::LSendsEndErr | Ev::LSendsDropSession | Ev::LSendsDropLink => {
                // three pre-settled sends queued back to back, then the teardown without letting the engines run
                {
                    let s = sender.as_mut().unwrap();
                    for _ in 0..3 {
                        let fut = s.send(Message::builder().value(format!("queued-{sent_msgs}")).build());
                        // a settled send completes as soon as the transfer is handed to the session
                        match tokio::time::timeout(Duration::from_millis(0), fut).await {
                            Ok(Ok(_)) => sends_before_teardown += 1,
                            _ => {}
                        }
                        sent_msgs += 1;
                    }
                }
                match ev {
                    Ev::LSendsEnd | Ev::LSendsEndErr => {
                        let sess = session.as_mut().unwrap();
                        let r = if *ev == Ev::LSendsEnd {
                            drive(&mut c.peer, sess.end(), h).await
                        } else {
                            drive(&mut c.peer, sess.end_with_error(peer_err("local")), h).await
                        };
                        session_over = true;
                        if r.is_none() && c.peer.auto.end {
                            obs.fails.push(("end-hangs".into(), "end() did not return although the peer answered".into()));
                        }
                    }
                    Ev::LSendsDropSession => {
                        session = None;
                        session_over = true;
                    }
                    _ => {
                        // (dropping the handle detaches the link: from here on the peer has nothing to detach)
                        sender = None;
                        snd_handle = None;
                        peer_detached_s = None;
                    }
                }
            }
            Ev::LDetachS | Ev::LCloseS | Ev::LDropS | Ev::LCloseR => {
                let closing = !matches!(ev, Ev::LDetachS);
                let answered_before = c.peer.auto.detach;
                let (res, which): (Option<Result<(), DetachError>>, &str) = match ev {
                    Ev::LDetachS => {
                        let s = sender.take().unwrap();
                        (
                            drive(&mut c.peer, s.detach(), h).await.map(|r| match r {
                                Ok(d) => {
                                    kept.push(d);
                                    Ok(())
                                }
                                Err((d, e)) => {
                                    kept.push(d);
                                    Err(e)
                                }
                            }),
                            "detach",
                        )
                    }
                    Ev::LCloseS => {
                        let s = sender.take().unwrap();
                        (drive(&mut c.peer, s.close(), h).await, "close")
                    }
                    Ev::LCloseR => {
                        let r = receiver.take().unwrap();
                        (drive(&mut c.peer, r.close(), h).await, "close")
                    }
                    _ => {
                        sender = None;
                        (Some(Ok(())), "drop")
                    }
                };
                let is_sender = !matches!(ev, Ev::LCloseR);
                let handle = if is_sender { snd_handle } else { rcv_handle };
                call_results.push(format!("{which}() -> {:?}", res.as_ref().map(|r| r.as_ref().map_err(|e| e.to_string()))));
                // what the peer's detach (answer or earlier, unanswered) carried
                // (the peer numbers its handles like the library in this scenario: the detach of THIS link)
                let peer_detach = c.peer.trace.iter().rev().find_map(|w| match (&w.body, w.dir) {
                    (Body::Perf(Performative::Detach(d)), Dirn::FromPeer) if Some(d.handle.0) == handle => Some(d.clone()),
                    _ => None,
                });
                if which != "drop" {
                    match &res {
                        None => {
                            obs.pending_calls += 1;
                            // the peer's detach for this call arrived: in this step, or earlier and not yet answered by
                            // the library (a detach that an earlier send() already answered is used up: a later close()
                            // starts a new exchange, which a silent peer may leave unanswered)
                            let earlier_unanswered = is_sender
                                && match (&peer_detached_s, handle) {
                                    (Some((_, _, at)), Some(hd)) => lib_detach(&c.peer.trace[..mark], *at, hd).is_none(),
                                    _ => false,
                                };
                            let peer_answered = c.peer.trace[mark..].iter().any(|w| w.dir == Dirn::FromPeer && matches!(&w.body, Body::Perf(Performative::Detach(d)) if Some(d.handle.0) == handle))
                                || earlier_unanswered;
                            if peer_answered {
                                obs.fails.push((format!("{which}-hangs"), format!("{which}() did not return although the peer's detach had arrived")));
                            }
                        }
                        Some(r) => {
                            // returned: only after the peer's answer or a definite failure
                            let peer_answer_seen = c.peer.trace.iter().any(|w| w.dir == Dirn::FromPeer && matches!(&w.body, Body::Perf(Performative::Detach(_))));
                            if r.is_ok() && !peer_answer_seen && !answered_before && peer_ended.is_none() {
                                obs.fails.push((
                                    format!("{which}-returned-before-peer-answer"),
                                    format!("{which}() returned Ok although the peer never sent its detach"),
                                ));
                            }
                            if let (Ok(()), Some(d)) = (r, &peer_detach) {
                                if let Some(e) = &d.error {
                                    if is_sender && peer_detached_s.as_ref().map(|p| p.1.is_some()).unwrap_or(false) && !peer_detach_error_delivered {
                                        obs.fails.push((
                                            format!("peer-detach-error-not-reported ({which})"),
                                            format!("the peer detached with error {:?} but {which}() returned Ok", e.condition),
                                        ));
                                    }
                                }
                            }
                            if let Err(e) = r {
                                if let (DetachError::RemoteClosedWithError(got) | DetachError::RemoteDetachedWithError(got), Some(d)) = (e, &peer_detach) {
                                    if d.error.as_ref().map(|x| &x.condition) != Some(&got.condition) {
                                        obs.fails.push(("wrong-detach-error".into(), format!("{which}() reports {:?}, the peer sent {:?}", got.condition, d.error.as_ref().map(|x| &x.condition))));
                                    }
                                }
                            }
                        }
                    }
                }
                // the application has now operated on the link: a pending peer detach must have been answered in kind
                if is_sender {
                    if let (Some((peer_closed, _, at)), Some(hd)) = (&peer_detached_s, handle) {
                        answer_due = Some((*peer_closed, *at, hd, which));
                    }
                    peer_detached_s = None;
                    peer_detach_error_delivered = false;
                    snd_handle = None;
                } else {
                    rcv_handle = None;
                }
                let _ = closing;
            }
            Ev::LEnd | Ev::LEndErr => {
                let answered_before = c.peer.auto.end;
                let sess = session.as_mut().unwrap();
                let r = if *ev == Ev::LEnd {
                    drive(&mut c.peer, sess.end(), h).await
                } else {
                    drive(&mut c.peer, sess.end_with_error(peer_err("local")), h).await
                };
                match &r {
                    None => {
                        obs.pending_calls += 1;
                        let peer_answered = c.peer.trace.iter().any(|w| w.dir == Dirn::FromPeer && matches!(&w.body, Body::Perf(Performative::End(_))));
                        if peer_answered {
                            obs.fails.push(("end-hangs".into(), "end() did not return although the peer's end had arrived".into()));
                        }
                    }
                    Some(res) => {
                        session_over = true;
                        let pe = c.peer.trace.iter().find_map(|w| match (&w.body, w.dir) {
                            (Body::Perf(Performative::End(e)), Dirn::FromPeer) => Some(e.error.clone()),
                            _ => None,
                        });
                        if res.is_ok() && pe.is_none() && !answered_before {
                            obs.fails.push(("end-returned-before-peer-answer".into(), "end() returned Ok although the peer never sent its end".into()));
                        }
                        match (res, &pe) {
                            (Ok(()), Some(Some(e))) => obs.fails.push(("peer-end-error-not-reported".into(), format!("the peer ended with error {:?} but end() returned Ok", e.condition))),
                            (Err(SessError::RemoteEndedWithError(got)), Some(Some(e))) if got.condition != e.condition => {
                                obs.fails.push(("wrong-end-error".into(), format!("end() reports {:?}, the peer sent {:?}", got.condition, e.condition)))
                            }
                            (Err(e), Some(None)) if *ev == Ev::LEnd && !matches!(e, SessError::RemoteEnded) && peer_ended.is_none() => obs.fails.push((
                                "clean-end-reported-as-error".into(),
                                format!("both sides ended the session cleanly but end() returned {e}"),
                            )),
                            _ => {}
                        }
                    }
                }
                if r.is_none() {
                    // the handle stays; the call was cancelled at its horizon
                }
            }
            Ev::LDropSession => {
                session = None;
                session_over = true;
            }
            Ev::PDetach | Ev::PDetachErr | Ev::PDetachOpen => {
                let our = c.peer.links.iter().find(|l| Some(l.lib_handle) == snd_handle && !l.detached).map(|l| l.our_handle).unwrap_or(0);
                let (closed, err) = match ev {
                    Ev::PDetach => (true, None),
                    Ev::PDetachErr => (true, Some(peer_err("peer detach"))),
                    _ => (false, None),
                };
                c.peer.send(0, Performative::Detach(Detach { handle: Handle(our), closed, error: err.clone() }));
                peer_detached_s = Some((closed, err, c.peer.trace.len()));
            }
            Ev::PEnd | Ev::PEndErr => {
                let err = if *ev == Ev::PEndErr { Some(peer_err("peer end")) } else { None };
                c.peer.send(0, Performative::End(End { error: err.clone() }));
                peer_ended = Some(err);
            }
            Ev::PWithholdDetach => c.peer.auto.detach = false,
            Ev::PWithholdEnd => c.peer.auto.end = false,
            Ev::PRefuseAttach => refuse_next_attach = true,
            Ev::PDupAttach => {
                let our = c.peer.links.iter().find(|l| Some(l.lib_handle) == snd_handle && !l.detached).map(|l| l.our_handle).unwrap_or(0);
                let aa = Attach {
                    name: "s".into(),
                    handle: Handle(our),
                    role: fe2o3_amqp_types::definitions::Role::Receiver,
                    snd_settle_mode: SenderSettleMode::Settled,
                    rcv_settle_mode: Default::default(),
                    source: None,
                    target: None,
                    unsettled: None,
                    incomplete_unsettled: false,
                    initial_delivery_count: None,
                    max_message_size: None,
                    offered_capabilities: None,
                    desired_capabilities: None,
                    properties: None,
                };
                c.peer.send(0, Performative::Attach(aa));
            }
            Ev::PXfer2 => {
                // (the peer numbers its handles like the library here; the link is still attached from the peer's
                // side even if the library's end is already on its way)
                let our = peer_side_attached(&c.peer.trace, "r").unwrap_or(1);
                for _ in 0..2 {
                    let t = Transfer {
                        handle: Handle(our),
                        delivery_id: Some(peer_xfers),
                        delivery_tag: Some(serde_bytes::ByteBuf::from(peer_xfers.to_be_bytes().to_vec())),
                        message_format: Some(0),
                        settled: Some(true),
                        more: false,
                        rcv_settle_mode: None,
                        state: None,
                        resume: false,
                        aborted: false,
                        batchable: false,
                    };
                    c.peer.send_perf(0, Performative::Transfer(t), &[0x00, 0x53, 0x77, 0x40]);
                    peer_xfers += 1;
                }
            }
            Ev::PFlowEcho => {
                // the peer's own view of link "s": attached by it and not yet detached by it (read from what it wrote)
                let link = c.peer.links.iter().rev().find(|l| l.lib_channel == 0 && l.name == "s").cloned().filter(|l| {
                    let mut attached = false;
                    for w in c.peer.trace.iter().filter(|w| w.dir == Dirn::FromPeer) {
                        match &w.body {
                            Body::Perf(Performative::Attach(a)) if a.handle.0 == l.our_handle => attached = true,
                            Body::Perf(Performative::Detach(d)) if d.handle.0 == l.our_handle => attached = false,
                            _ => {}
                        }
                    }
                    attached
                });
                let mut f = c.peer.flow_for(0);
                if c.peer.sessions.get(&0).is_none() {
                    if let Some(s) = &last_sess {
                        f.next_incoming_id = Some(s.next_incoming_id);
                        f.incoming_window = s.incoming_window;
                        f.next_outgoing_id = s.next_outgoing_id;
                        f.outgoing_window = s.outgoing_window;
                    }
                }
                f.echo = true;
                if let Some(l) = link {
                    f.handle = Some(Handle(l.our_handle));
                    f.delivery_count = Some(l.delivery_count);
                    f.link_credit = Some(100);
                }
                c.peer.send(0, Performative::Flow(f));
            }
            Ev::PTransferUnattached => {
                let t = Transfer {
                    handle: Handle(77),
                    delivery_id: Some(0),
                    delivery_tag: Some(serde_bytes::ByteBuf::from(vec![1])),
                    message_format: Some(0),
                    settled: Some(true),
                    more: false,
                    rcv_settle_mode: None,
                    state: None,
                    resume: false,
                    aborted: false,
                    batchable: false,
                };
                c.peer.send_perf(0, Performative::Transfer(t), &[0x00, 0x53, 0x77, 0x40]);
            }
        }
        settle(&mut c.peer, 3).await;
        obs.executed = i + 1;
        // ---------------- obligations at this quiescent state
        if let Some((peer_closed, at, hd, which)) = answer_due {
            // (once the library has sent its end the session's links are gone with it: no detach may follow)
            let lib_ended_first = c.peer.trace[..].iter().any(|w| w.dir == Dirn::FromLib && matches!(&w.body, Body::Perf(Performative::End(_))));
            let answered_before_end = lib_detach(&c.peer.trace, at, hd).is_some();
            if peer_ended.is_none() && (!lib_ended_first || answered_before_end) {
                match lib_detach(&c.peer.trace, at, hd) {
                    None => obs.fails.push((
                        format!("peer-detach-unanswered (after {which})"),
                        format!("the peer detached the link; after the application's {which}() no detach was sent in answer"),
                    )),
                    Some(d) => {
                        // a non-closing detach that crossed the peer's closing detach is completed by
                        // re-attaching and closing (spec 2.6.6): accept any later closing detach
                        let later_closing = lib_frames(&c.peer.trace, at).any(|w| matches!(&w.body, Body::Perf(Performative::Detach(x)) if x.closed));
                        if peer_closed && !d.closed && !later_closing {
                            obs.fails.push(("closing-detach-answered-non-closing".into(), "the peer's closing detach was only answered with a non-closing detach".into()));
                        }
                    }
                }
            }
        }
        // a transfer for an unattached handle is a protocol violation by the peer: the library may end the
        // session with an error; from then on the session is over for this history
        if matches!(ev, Ev::PTransferUnattached | Ev::PDupAttach) && lib_end(&c.peer.trace).is_some() {
            session_over = true;
            if peer_ended.is_none() {
                peer_ended = Some(None);
            }
        }
        // a peer's end is always answered with an end
        if peer_ended.is_some() && lib_end(&c.peer.trace).is_none() {
            obs.fails.push(("peer-end-unanswered".into(), format!("the peer's end was not answered with an end at the next quiescent state (after {:?})", ev)));
        }
        // queued transfers are flushed before the end / detach of the teardown
        if sends_before_teardown > 0 {
            obs.flush_checks += 1;
            let mut n = 0;
            let mut torn = false;
            for w in lib_frames(&c.peer.trace, mark) {
                match &w.body {
                    Body::Perf(Performative::Transfer(_)) if !torn => n += 1,
                    Body::Perf(Performative::End(_)) => torn = true,
                    Body::Perf(Performative::Detach(_)) if *ev == Ev::LSendsDropLink => torn = true,
                    _ => {}
                }
            }
            if n < sends_before_teardown && peer_ended.is_none() {
                obs.fails.push((
                    format!("queued-frames-not-flushed ({:?})", ev),
                    format!("{sends_before_teardown} sends had completed before the teardown but only {n} transfers were written before the end/detach"),
                ));
            }
        }
        // dropping / detaching a link never ends the session; ending a session never closes the connection
        if matches!(ev, Ev::LDetachS | Ev::LCloseS | Ev::LDropS | Ev::LSendsDropLink | Ev::LCloseR) && peer_ended.is_none() && !session_over {
            if lib_frames(&c.peer.trace, mark).any(|w| matches!(&w.body, Body::Perf(Performative::End(_)))) {
                obs.fails.push((format!("link-teardown-ended-session ({:?})", ev), "tearing down a link produced an end frame for the enclosing session".into()));
            }
        }
        if lib_close_frame(&c.peer.trace) {
            obs.fails.push((format!("session-or-link-teardown-closed-connection (after {:?})", ev), "a close frame was written although the connection handle was never closed".into()));
        }
        obs.fails.extend(judge_channel(&c.peer.trace, 0));
        if session_over || peer_ended.is_some() {
            // links die with their session
            if peer_ended.is_some() {
                peer_detached_s = None;
            }
        }
        obs.state_keys.push(h64(&(
            sender.is_some(),
            receiver.is_some(),
            session.is_some(),
            session_over,
            peer_ended.is_some(),
            peer_detached_s.is_some(),
            c.peer.auto.detach,
            c.peer.auto.end,
            refuse_next_attach,
            lib_end(&c.peer.trace).is_some(),
        )));
    }
    obs.fails.sort();
    obs.fails.dedup();
    obs.trace = trace_to_strings(&c.peer.trace);
    obs.trace.push(format!("call results: {:?}", call_results));
    drop(kept);
    drop(sender);
    drop(receiver);
    drop(session);
    obs
}

/// a peer that refuses an attach answers it with its own attach immediately followed by a closing detach with an error
fn refuse_if_needed(peer: &mut vlib::peer::Peer, new: &[WFrame], refuse: bool) {
    if !refuse {
        return;
    }
    for w in new {
        if let Body::Perf(Performative::Attach(a)) = &w.body {
            let our = a.handle.0;
            let lib_is_sender = a.role == fe2o3_amqp_types::definitions::Role::Sender;
            let aa = Attach {
                name: a.name.clone(),
                handle: Handle(our),
                role: if lib_is_sender { fe2o3_amqp_types::definitions::Role::Receiver } else { fe2o3_amqp_types::definitions::Role::Sender },
                snd_settle_mode: a.snd_settle_mode.clone(),
                rcv_settle_mode: a.rcv_settle_mode.clone(),
                source: None,
                target: None,
                unsettled: None,
                incomplete_unsettled: false,
                initial_delivery_count: if lib_is_sender { None } else { Some(0) },
                max_message_size: None,
                offered_capabilities: None,
                desired_capabilities: None,
                properties: None,
            };
            peer.send(w.channel, Performative::Attach(aa));
            peer.send(
                w.channel,
                Performative::Detach(Detach {
                    handle: Handle(our),
                    closed: true,
                    error: Some(peer_err("attach refused")),
                }),
            );
            if let Some(l) = peer.links.iter_mut().find(|l| l.lib_handle == a.handle.0 && !l.detached) {
                l.detached = true;
            }
        }
    }
}

fn run_history(evs: Vec<Ev>) -> (HistOut, usize, usize) {
    let scen: Scenario<Obs> = {
        let evs = evs.clone();
        Arc::new(move || {
            let evs = evs.clone();
            Box::pin(scenario(evs))
        })
    };
    let ex = run_exec(vec![], &RunCfg::none(), &scen);
    let mut out = HistOut::default();
    let (mut pend, mut flush) = (0, 0);
    match ex.out {
        Some(o) => {
            out.executed = o.executed;
            out.fails = o.fails;
            out.state_keys = o.state_keys;
            out.trace = o.trace;
            out.machinery = o.machinery;
            pend = o.pending_calls;
            flush = o.flush_checks;
        }
        None => {
            out.executed = evs.len();
            out.machinery = Some(format!("scenario died: panics {:?} watchdog {}", ex.panics, ex.watchdog));
        }
    }
    if ex.spun {
        out.fails.push(("spin".into(), "busy loop: some task polled more than 20000 times at one virtual instant".into()));
    }
    for p in ex.panics.iter().filter(|p| !p.contains("vcheck/src")) {
        out.fails.push(("library-task-panic".into(), format!("a library task panicked: {p}")));
    }
    (out, pend, flush)
}

pub fn run(ctx: &Ctx) -> Outcome {
    let mut out = Outcome::new("model_checking");
    if let Some(p) = &ctx.replay {
        return replay(p, out);
    }
    let depth = if ctx.quick() { 4 } else { 6 };
    let deadline = Instant::now() + Duration::from_secs_f64(ctx.budget_s);
    let pend = std::sync::atomic::AtomicUsize::new(0);
    let flush = std::sync::atomic::AtomicUsize::new(0);
    let st = search(ALPHABET.len(), depth, ctx.threads, deadline, |h| {
        let (o, p, f) = run_history(h.iter().map(|i| ALPHABET[*i]).collect());
        pend.fetch_add(p, std::sync::atomic::Ordering::Relaxed);
        flush.fetch_add(f, std::sync::atomic::Ordering::Relaxed);
        o
    });
    for m in &st.machinery {
        out.machinery_errors.push(m.clone());
    }
    for (h, sig, detail, trace) in &st.violations {
        let evs: Vec<String> = h.iter().map(|i| format!("{:?}", ALPHABET[*i])).collect();
        out.violation(sig.clone(), format!("history {:?}: {detail}", evs), json!({"events": h, "event_names": evs, "trace": trace}));
    }
    let n_rac = run_resume_after_closed(&mut out);
    out.set("resume_after_a_closing_answer_cases", n_rac);
    let n_buf = run_buffered_receiver(&mut out);
    out.set("receiver_with_buffered_deliveries_cases", n_buf);
    let n_cross = run_crossing_disposition(&mut out);
    out.set("crossing_disposition_cases", n_cross);
    out.set("states", st.distinct_states.max(1));
    out.set("transitions", st.distinct_transitions.max(1));
    out.set("traces_validated_against_impl", st.executions);
    out.set("events_executed", st.events_executed);
    out.set("calls_observed_pending_while_peer_withholds", pend.load(std::sync::atomic::Ordering::Relaxed) as u64);
    out.set("flush_obligations_checked", flush.load(std::sync::atomic::Ordering::Relaxed) as u64);
    out.set("samples", json!(st.sample_traces));
    out.set("exhaustive", !st.truncated);
    out.set("bound", format!("histories of depth {depth} over {} events (1 session, 1 sender, 1 receiver)", ALPHABET.len()));
    out.set("rule", "states = distinct (links attached, session alive/over, peer ended/detached, withheld answers, end sent) at quiescence; every state reached by executing the real link, session and connection engines against the scripted peer");
    out.assume("the scripted peer acts at quiescent points; 'no later than the application's next operation on that link' is checked after the next local send/detach/close/drop on the link");
    out
}

/// A RECEIVING link with `n` deliveries the application has not taken, the peer's CLOSING detach behind them, then the
/// application's detach() or close(): "a peer's detach is answered in kind (closing with closing) no later than the
/// owning application's next operation on that link" and "later at most one detach for that attach".
pub async fn buffered_receiver_scenario(n: u32, with_error: bool, close: bool) -> (Vec<(String, String)>, Vec<String>, Option<String>) {
    let mut fails = vec![];
    let mut auto = Auto::default();
    auto.max_frame_size = 4096;
    let mut c = match scen::open_client(auto, 4096).await {
        Ok(c) => c,
        Err(e) => return (fails, vec![], Some(e)),
    };
    let mut session = match scen::begin(&mut c, Session::builder()).await {
        Ok(s) => s,
        Err(e) => return (fails, vec![], Some(e)),
    };
    let mut receiver = match drive(&mut c.peer, Receiver::builder().name("r").source("q").credit_mode(fe2o3_amqp::link::receiver::CreditMode::Manual).attach(&mut session), Duration::from_secs(3)).await {
        Some(Ok(r)) => r,
        _ => return (fails, trace_to_strings(&c.peer.trace), Some("buffered receiver: attach failed".into())),
    };
    let _ = drive(&mut c.peer, receiver.set_credit(10), Duration::from_secs(3)).await;
    settle(&mut c.peer, 1).await;
    let Some(link) = c.peer.links.last().cloned() else {
        return (fails, trace_to_strings(&c.peer.trace), Some("buffered receiver: no link".into()));
    };
    for k in 0..n {
        let t = Transfer {
            handle: Handle(link.our_handle),
            delivery_id: Some(k),
            delivery_tag: Some(serde_bytes::ByteBuf::from(k.to_be_bytes().to_vec())),
            message_format: Some(0),
            settled: Some(true),
            more: false,
            rcv_settle_mode: None,
            state: None,
            resume: false,
            aborted: false,
            batchable: false,
        };
        c.peer.send_perf(0, Performative::Transfer(t), &[0x00, 0x53, 0x77, 0x40]);
    }
    c.peer.send(0, Performative::Detach(Detach { handle: Handle(link.our_handle), closed: true, error: if with_error { Some(peer_err("peer detach")) } else { None } }));
    settle(&mut c.peer, 2).await;
    let mark = c.peer.trace.len();
    let res = if close {
        drive(&mut c.peer, receiver.close(), Duration::from_secs(3)).await.map(|r| r.map_err(|e| e.to_string()))
    } else {
        drive(&mut c.peer, receiver.detach(), Duration::from_secs(3)).await.map(|r| r.map(|_| ()).map_err(|(_, e)| e.to_string()))
    };
    settle(&mut c.peer, 2).await;
    let lib: Vec<&WFrame> = c.peer.trace[mark..].iter().filter(|w| w.dir == Dirn::FromLib).collect();
    let detaches: Vec<bool> = lib.iter().filter_map(|w| match w.perf() {
        Some(Performative::Detach(d)) if d.handle.0 == link.lib_handle => Some(d.closed),
        _ => None,
    }).collect();
    let reattached = lib.iter().any(|w| matches!(w.perf(), Some(Performative::Attach(a)) if a.name == "r"));
    let what = format!("receiving link with {n} delivery(ies) not taken by the application, the peer's closing detach ({}) behind them, then {}() -> {:?}", if with_error { "with error" } else { "no error" }, if close { "close" } else { "detach" }, res);
    if res.is_none() {
        fails.push(("detach-hangs (receiver, deliveries buffered)".to_string(), format!("{what}: the call did not return although the peer's detach had arrived")));
    }
    match detaches.first() {
        None => fails.push(("peer-detach-unanswered (receiver, deliveries buffered)".to_string(), format!("{what}: no detach was written in answer"))),
        Some(false) => fails.push(("peer-detach-not-answered-in-kind (receiver, deliveries buffered)".to_string(), format!("{what}: the peer's CLOSING detach was answered with a non-closing detach (detaches written: {:?}, re-attached: {reattached})", detaches))),
        Some(true) => {}
    }
    if detaches.len() > 1 || reattached {
        fails.push(("second-detach (receiver, deliveries buffered)".to_string(), format!("{what}: detaches written {:?}, link re-attached: {reattached}", detaches)));
    }
    (fails, trace_to_strings(&c.peer.trace), None)
}

fn run_buffered_receiver(out: &mut Outcome) -> u64 {
    let mut cnt = 0;
    for n in [0u32, 1, 3] {
        for with_error in [false, true] {
            for close in [false, true] {
                let scen: Scenario<(Vec<(String, String)>, Vec<String>, Option<String>)> = Arc::new(move || Box::pin(buffered_receiver_scenario(n, with_error, close)));
                let ex = run_exec(vec![], &RunCfg::none(), &scen);
                cnt += 1;
                match ex.out {
                    Some((fails, trace, mach)) => {
                        if let Some(m) = mach {
                            out.machinery_errors.push(m);
                        }
                        for (s, d) in fails {
                            out.violation(s, d, json!({"kind": "buffered-receiver", "n": n, "with_error": with_error, "close": close, "trace": trace}));
                        }
                    }
                    None => out.machinery_errors.push(format!("buffered receiver scenario died: {:?}", ex.panics)),
                }
            }
        }
    }
    cnt
}

/// detach() answered by the peer with a CLOSING detach (the library re-attaches to close, the call fails with
/// ClosedByRemote and hands the detached link back), then the application tries resume() on what it got back and
/// finally drops it.  "a link sends its attach, later at most one detach for that attach, and no frame for its handle
/// after the detach": every detach on the wire must close an attach that is still open on that handle.
pub async fn resume_after_closed_scenario(resume: bool) -> (Vec<(String, String)>, Vec<String>, Option<String>) {
    let mut fails = vec![];
    let mut auto = Auto::default();
    auto.max_frame_size = 4096;
    auto.grant_credit = Some(10);
    let mut c = match scen::open_client(auto, 4096).await {
        Ok(c) => c,
        Err(e) => return (fails, vec![], Some(e)),
    };
    let mut session = match scen::begin(&mut c, Session::builder()).await {
        Ok(s) => s,
        Err(e) => return (fails, vec![], Some(e)),
    };
    let sender = match drive(&mut c.peer, Sender::builder().name("s").target("q").sender_settle_mode(SenderSettleMode::Settled).attach(&mut session), Duration::from_secs(3)).await {
        Some(Ok(s)) => s,
        _ => return (fails, trace_to_strings(&c.peer.trace), Some("resume-after-closed: attach failed".into())),
    };
    settle(&mut c.peer, 1).await;
    let Some(link) = c.peer.links.last().cloned() else {
        return (fails, trace_to_strings(&c.peer.trace), Some("resume-after-closed: no link".into()));
    };
    // the peer answers the non-closing detach with a closing one; everything else it answers conformingly
    c.peer.auto.detach = false;
    let task = tokio::spawn(async move { sender.detach().await });
    settle(&mut c.peer, 2).await;
    c.peer.send(0, Performative::Detach(Detach { handle: Handle(link.our_handle), closed: true, error: None }));
    c.peer.auto.detach = true;
    let mut result = None;
    for _ in 0..10 {
        settle(&mut c.peer, 1).await;
        if task.is_finished() {
            result = Some(task.await.expect("detach task"));
            break;
        }
    }
    let detached = match result {
        None => return (fails, trace_to_strings(&c.peer.trace), Some("resume-after-closed: detach() still pending (set-up)".into())),
        Some(Ok(d)) => d,
        Some(Err((d, _e))) => d,
    };
    let what_resume = if resume {
        let r = drive(&mut c.peer, detached.resume(), Duration::from_secs(3)).await;
        let s = format!("{:?}", r.as_ref().map(|x| x.as_ref().map(|_| "Ok(sender)").map_err(|e| format!("{:?}", e.kind))));
        drop(r);
        s
    } else {
        drop(detached);
        "(not called)".to_string()
    };
    settle(&mut c.peer, 3).await;
    // per-handle automaton over what the library wrote
    let mut open: std::collections::BTreeSet<u32> = Default::default();
    for w in c.peer.trace.iter().filter(|w| w.dir == Dirn::FromLib) {
        match w.perf() {
            Some(Performative::Attach(a)) => {
                if !open.insert(a.handle.0) {
                    fails.push(("attach-on-attached-handle (resume after a closing answer)".to_string(), format!("resume() -> {what_resume}: a second attach on handle {} while it is attached", a.handle.0)));
                }
            }
            Some(Performative::Detach(d)) => {
                if !open.remove(&d.handle.0) {
                    fails.push((
                        "detach-without-attach (resume after a closing answer)".to_string(),
                        format!("detach() was answered by the peer with a closing detach (the link re-attached and closed); resume() on the link handed back -> {what_resume}; then the link was dropped: a detach was written for handle {} which carries no open attach", d.handle.0),
                    ));
                }
            }
            _ => {}
        }
    }
    (fails, trace_to_strings(&c.peer.trace), None)
}

fn run_resume_after_closed(out: &mut Outcome) -> u64 {
    let mut n = 0;
    for resume in [false, true] {
        let scen: Scenario<(Vec<(String, String)>, Vec<String>, Option<String>)> = Arc::new(move || Box::pin(resume_after_closed_scenario(resume)));
        let ex = run_exec(vec![], &RunCfg::none(), &scen);
        n += 1;
        match ex.out {
            Some((fails, trace, mach)) => {
                if let Some(m) = mach {
                    out.machinery_errors.push(m);
                }
                for (s, d) in fails {
                    out.violation(s, d, json!({"kind": "resume-after-closed", "resume": resume, "trace": trace}));
                }
            }
            None => out.machinery_errors.push(format!("resume-after-closed scenario died: {:?}", ex.panics)),
        }
    }
    n
}

/// A peer's DISPOSITION that crosses a local end.  The sender link settles second: the receiver's unsettled terminal
/// disposition normally makes the library answer with its settling disposition.  When that disposition was sent before
/// the peer saw the library's end it arrives after the end frame has gone out, and nothing may follow the end on the
/// channel ("later at most one end, and nothing on its channel afterwards").
pub async fn crossing_disposition_scenario(with_error: bool) -> (Vec<(String, String)>, Vec<String>, Option<String>) {
    use fe2o3_amqp_types::definitions::{ReceiverSettleMode, Role};
    use fe2o3_amqp_types::messaging::{Accepted, DeliveryState};
    let mut fails = vec![];
    let mut auto = Auto::default();
    auto.max_frame_size = 4096;
    auto.grant_credit = Some(10);
    auto.accept_transfers = false;
    auto.rcv_settle_mode = Some(ReceiverSettleMode::Second);
    let mut c = match scen::open_client(auto, 4096).await {
        Ok(c) => c,
        Err(e) => return (fails, vec![], Some(e)),
    };
    let mut session = match scen::begin(&mut c, Session::builder()).await {
        Ok(s) => s,
        Err(e) => return (fails, vec![], Some(e)),
    };
    let mut sender = match drive(&mut c.peer, Sender::builder().name("s").target("q").sender_settle_mode(SenderSettleMode::Unsettled).receiver_settle_mode(ReceiverSettleMode::Second).attach(&mut session), Duration::from_secs(3)).await {
        Some(Ok(s)) => s,
        _ => return (fails, trace_to_strings(&c.peer.trace), Some("crossing disposition: attach failed".into())),
    };
    settle(&mut c.peer, 1).await;
    let outcome = match drive(&mut c.peer, sender.send_batchable("m"), Duration::from_secs(3)).await {
        Some(Ok(f)) => f,
        _ => return (fails, trace_to_strings(&c.peer.trace), Some("crossing disposition: send_batchable failed".into())),
    };
    settle(&mut c.peer, 1).await;
    let id = c.peer.trace.iter().rev().find_map(|w| match (w.dir, w.perf()) {
        (Dirn::FromLib, Some(Performative::Transfer(t))) => t.delivery_id,
        _ => None,
    });
    let Some(id) = id else {
        return (fails, trace_to_strings(&c.peer.trace), Some("crossing disposition: no transfer on the wire".into()));
    };
    // the application ends the session; the peer withholds its end
    c.peer.auto.end = false;
    let task = tokio::spawn(async move {
        let r = if with_error { session.end_with_error(peer_err("local")).await } else { session.end().await };
        (r.map_err(|e| e.to_string()), session)
    });
    settle(&mut c.peer, 2).await;
    let end_at = c.peer.trace.iter().position(|w| w.dir == Dirn::FromLib && matches!(w.perf(), Some(Performative::End(_))));
    let Some(end_at) = end_at else {
        return (fails, trace_to_strings(&c.peer.trace), Some("crossing disposition: the library did not send its end".into()));
    };
    // the disposition the peer had sent before it saw that end
    c.peer.send(0, Performative::Disposition(Disposition { role: Role::Receiver, first: id, last: None, settled: false, state: Some(DeliveryState::Accepted(Accepted {})), batchable: false }));
    settle(&mut c.peer, 3).await;
    let after: Vec<String> = c.peer.trace[end_at + 1..].iter().filter(|w| w.dir == Dirn::FromLib && w.channel == 0 && !matches!(w.body, Body::Empty)).map(|w| w.short()).collect();
    if !after.is_empty() {
        fails.push((
            "frame-after-end (a disposition crossed the end)".to_string(),
            format!("sender link settling second, one unsettled delivery; session.{}() sent the end; the peer's unsettled accepted disposition, sent before it saw the end, was answered on the ended channel: {:?}", if with_error { "end_with_error" } else { "end" }, after),
        ));
    }
    // the peer now answers the end: the call returns
    c.peer.send(0, Performative::End(End { error: None }));
    settle(&mut c.peer, 3).await;
    if !task.is_finished() {
        fails.push(("end-hangs".to_string(), "end() did not return although the peer's end had arrived (after a crossing disposition)".to_string()));
        task.abort();
    }
    drop(outcome);
    drop(sender);
    (fails, trace_to_strings(&c.peer.trace), None)
}

fn run_crossing_disposition(out: &mut Outcome) -> u64 {
    let mut n = 0;
    for with_error in [false, true] {
        let scen: Scenario<(Vec<(String, String)>, Vec<String>, Option<String>)> = Arc::new(move || Box::pin(crossing_disposition_scenario(with_error)));
        let ex = run_exec(vec![], &RunCfg::none(), &scen);
        n += 1;
        match ex.out {
            Some((fails, trace, mach)) => {
                if let Some(m) = mach {
                    out.machinery_errors.push(m);
                }
                for (s, d) in fails {
                    out.violation(s, d, json!({"kind": "crossing-disposition", "with_error": with_error, "trace": trace}));
                }
            }
            None => out.machinery_errors.push(format!("crossing disposition scenario died: {:?}", ex.panics)),
        }
    }
    n
}

/// the peer has written its end on channel 0
fn peer_sent_end(trace: &[WFrame]) -> bool {
    trace.iter().any(|w| w.dir == Dirn::FromPeer && matches!(&w.body, Body::Perf(Performative::End(_))))
}

fn replay(p: &std::path::Path, mut out: Outcome) -> Outcome {
    let s = std::fs::read_to_string(p).unwrap_or_default();
    let j: serde_json::Value = serde_json::from_str(&s).unwrap_or_default();
    let r = &j["replay"];
    if r["kind"] == "resume-after-closed" {
        let rs = r["resume"].as_bool().unwrap_or(true);
        let scen: Scenario<(Vec<(String, String)>, Vec<String>, Option<String>)> = Arc::new(move || Box::pin(resume_after_closed_scenario(rs)));
        let ex = run_exec(vec![], &RunCfg::none(), &scen);
        if let Some((fails, trace, _)) = ex.out {
            for l in &trace {
                println!("  {l}");
            }
            for (s, d) in fails {
                println!("  FAIL {s}: {d}");
                out.violation(s, d, r.clone());
            }
        }
        out.set("states", 1);
        out.set("transitions", 1);
        out.set("traces_validated_against_impl", 1);
        out.set("samples", json!([r]));
        return out;
    }
    if r["kind"] == "buffered-receiver" {
        let (n, we, cl) = (r["n"].as_u64().unwrap_or(1) as u32, r["with_error"].as_bool().unwrap_or(false), r["close"].as_bool().unwrap_or(false));
        let scen: Scenario<(Vec<(String, String)>, Vec<String>, Option<String>)> = Arc::new(move || Box::pin(buffered_receiver_scenario(n, we, cl)));
        let ex = run_exec(vec![], &RunCfg::none(), &scen);
        if let Some((fails, trace, _)) = ex.out {
            for l in &trace {
                println!("  {l}");
            }
            for (s, d) in fails {
                println!("  FAIL {s}: {d}");
                out.violation(s, d, r.clone());
            }
        }
        out.set("states", 1);
        out.set("transitions", 1);
        out.set("traces_validated_against_impl", 1);
        out.set("samples", json!([r]));
        return out;
    }
    if r["kind"] == "crossing-disposition" {
        let we = r["with_error"].as_bool().unwrap_or(false);
        let scen: Scenario<(Vec<(String, String)>, Vec<String>, Option<String>)> = Arc::new(move || Box::pin(crossing_disposition_scenario(we)));
        let ex = run_exec(vec![], &RunCfg::none(), &scen);
        if let Some((fails, trace, _)) = ex.out {
            for l in &trace {
                println!("  {l}");
            }
            for (s, d) in fails {
                println!("  FAIL {s}: {d}");
                out.violation(s, d, r.clone());
            }
        }
        out.set("states", 1);
        out.set("transitions", 1);
        out.set("traces_validated_against_impl", 1);
        out.set("samples", json!([r]));
        return out;
    }
    let evs: Vec<Ev> = r["events"].as_array().map(|a| a.iter().filter_map(|v| v.as_u64()).map(|i| ALPHABET[i as usize]).collect()).unwrap_or_default();
    println!("replaying {:?}", evs);
    let (o, _, _) = run_history(evs);
    for l in &o.trace {
        println!("  {l}");
    }
    for (s, d) in o.fails {
        println!("  FAIL {s}: {d}");
        out.violation(s, d, r.clone());
    }
    out.set("states", 1);
    out.set("transitions", 1);
    out.set("traces_validated_against_impl", 1);
    out.set("samples", json!([r]));
    out
}
