//! C19 - SASL: no connection without successful authentication; SCRAM is mutual.
//!
//! Level: exploration = exhaustive enumeration of adversary behaviours up to a frame bound, each one
//! executed against the real code on the default schedule.
//!
//! Part 1 (listener under attack): a real `ConnectionAcceptor` with a SASL acceptor (PLAIN, and
//! SCRAM-SHA-1/256/512) accepts on side 0 of a vpipe; the scripted peer plays the client and sends EVERY
//! sequence of <= N client actions over a fixed alphabet (protocol headers, sasl-init with every
//! mechanism x payload, sasl-response with every payload, server-only SASL frames, an AMQP open during
//! SASL, garbage, EOF), followed by "AMQP header + open" whenever the listener is still there.
//! Sequences are enumerated as a tree; a node is only extended while `accept()` is still pending and the
//! listener has not yet written its AMQP open: once `accept()` has returned Err the future and its stream
//! are dropped and no library code can run any more, so every longer sequence with that prefix behaves like
//! the prefix; once the listener has sent its open the verdict of this property is fixed (the connection
//! IS open for that peer; what follows is connection lifecycle, C12).  The pruning is itself validated by an
//! unpruned enumeration to a smaller depth.  Every executed sequence is run twice: one action per quiescent
//! point, and all bytes pipelined in one burst.
//!
//! Part 2 (SCRAM client under attack): the real client with `SaslProfile::ScramSha*` against the scripted
//! peer playing the server with an independent SCRAM computation (c19_scram.rs); the honest server and
//! every tampered one.
//!
//! Monitors (the property's own words; permissive readings):
//!  * "valid credentials" = authcid and password equal to the configured ones, in a well-formed exchange
//!    (SASL header, then init as the first SASL frame; for SCRAM init + response whose proof verifies for
//!    the configured password over the messages actually exchanged).  The mechanism NAME is not judged
//!    (DESIGN.md §2.7): an init naming a mechanism the listener did not offer but carrying valid
//!    credentials may be accepted or refused.  A PLAIN message with an authzid (`authz NUL user NUL pw`,
//!    RFC 4616) may be accepted or refused.  Extra client frames AFTER a valid authentication may be
//!    accepted or refused.  Anything else must never lead to `accept()` == Ok nor to an AMQP open
//!    written by the listener.  `accept()` staying pending forever counts as failure (not as a violation).
//!  * the canonical valid exchange (offered mechanism, exactly the configured credentials, then AMQP header
//!    and open) must succeed: accept() == Ok and the listener's open on the wire.
//!  * SCRAM client: `open_with_stream` == Ok iff the server script is the honest one; for a tampered
//!    server neither Ok nor the client's AMQP header after SASL may appear ("only proceeds if ...").
//!    A server nonce that merely EQUALS the client's nonce (empty extension) is not used as a tamper.
#[path = "c19_scram.rs"]
mod refscram;

use fe2o3_amqp::acceptor::scram::SingleScramCredential;
use fe2o3_amqp::acceptor::{ConnectionAcceptor, SaslAcceptor, SaslPlainMechanism};
use fe2o3_amqp::auth::scram::{ScramAuthenticator, ScramVersion};
use fe2o3_amqp::sasl_profile::{SaslProfile, SaslScramSha1, SaslScramSha256, SaslScramSha512};
use fe2o3_amqp::Connection;
use fe2o3_amqp_types::performatives::{Open, Performative};
use fe2o3_amqp_types::primitives::{Array, Binary, Symbol};
use fe2o3_amqp_types::sasl::{SaslChallenge, SaslCode, SaslInit, SaslMechanisms, SaslOutcome, SaslResponse};
use refscram::{auth_message, b64e, client_proof, parse_server_first, read_stream, server_signature, verify_client_final, Field, Item, Ver, VERSIONS};
use serde_json::{json, Value as J};
use std::collections::{BTreeMap, HashSet};
use std::sync::{Arc, OnceLock};
use std::time::{Duration, Instant};
use vlib::peer::{trace_to_strings, Auto, Body, Dirn, Peer, Sasl, AMQP_HEADER, SASL_HEADER};
use vlib::report::{Ctx, Outcome};
use vlib::runner::{run_exec, RunCfg, Scenario};
use vlib::util::{h64, par_map};
use vlib::vpipe::Pipe;

const USER: &str = "user";
const PASSWORD: &str = "password";
/// client nonce used by the scripted SCRAM client of part 1
const CNONCE: &str = "c19ClientNonce+Zm9vYmFy";

// ================================================================================================
// Part 1: the listener under attack

#[derive(Clone, Copy, Debug, PartialEq, Eq, Hash)]
pub enum LKind {
    Plain,
    Scram(Ver),
}

const LKINDS: [LKind; 4] = [LKind::Plain, LKind::Scram(Ver::S256), LKind::Scram(Ver::S1), LKind::Scram(Ver::S512)];

impl LKind {
    fn name(&self) -> &'static str {
        match self {
            LKind::Plain => "PLAIN",
            LKind::Scram(v) => v.mech(),
        }
    }
    /// mechanism names used in sasl-init; index 0 is the one the listener offers
    fn mechs(&self) -> [&'static str; 4] {
        match self {
            LKind::Plain => ["PLAIN", "ANONYMOUS", "SCRAM-SHA-256", "X"],
            LKind::Scram(v) => [v.mech(), "PLAIN", "ANONYMOUS", "X"],
        }
    }
}

fn plain_payloads() -> &'static Vec<(&'static str, Option<Vec<u8>>)> {
    static ALL: std::sync::OnceLock<Vec<(&'static str, Option<Vec<u8>>)>> = std::sync::OnceLock::new();
    ALL.get_or_init(plain_payloads_build)
}
/// index of the first one-bit-off payload: those are only sent as sasl-init with the mechanism the listener
/// offers (with any other mechanism or as a response they add nothing to what the base payloads show)
fn plain_base_len() -> usize {
    plain_payloads().iter().position(|p| p.0.starts_with("one-bit-off")).unwrap_or(plain_payloads().len())
}
fn plain_payloads_build() -> Vec<(&'static str, Option<Vec<u8>>)> {
    vec![
        ("correct", Some(b"\0user\0password".to_vec())),
        ("wrong-user", Some(b"\0usex\0password".to_vec())),
        ("wrong-password", Some(b"\0user\0hunter22".to_vec())),
        ("password-prefix", Some(b"\0user\0passwor".to_vec())),
        ("password-plus-one-byte", Some(b"\0user\0passwordX".to_vec())),
        ("password-one-byte-different", Some(b"\0user\0passwore".to_vec())),
        ("empty", Some(vec![])),
        ("absent", None),
        ("extra-nul-field", Some(b"\0user\0password\0junk".to_vec())),
        ("authzid", Some(b"authz\0user\0password".to_vec())),
        ("nul-inside-password", Some(b"\0user\0pass\0word".to_vec())),
        ("trailing-nul", Some(b"\0user\0password\0".to_vec())),
        ("user-prefix", Some(b"\0use\0password".to_vec())),
        ("both-empty", Some(b"\0\0".to_vec())),
    ]
    .into_iter()
    .chain(one_bit_off())
    .collect()
}

/// the right credentials with ONE bit of ONE byte of the user name or of the password flipped: the letter-case
/// bit 0x20, the lowest bit and the highest bit of every position
fn one_bit_off() -> Vec<(&'static str, Option<Vec<u8>>)> {
    static NAMES: std::sync::OnceLock<Vec<(&'static str, Vec<u8>)>> = std::sync::OnceLock::new();
    NAMES
        .get_or_init(|| {
            let base = b"\0user\0password".to_vec();
            let mut v = vec![];
            for (i, b) in base.iter().enumerate() {
                if *b == 0 {
                    continue;
                }
                for bit in [0x20u8, 0x01, 0x80] {
                    let mut x = base.clone();
                    x[i] ^= bit;
                    let name: &'static str = Box::leak(format!("one-bit-off(byte {i}, bit 0x{bit:02x})").into_boxed_str());
                    v.push((name, x));
                }
            }
            // the same multiset of bytes in another order, and the same bit flipped in two positions: every
            // comparison that folds the bytes into one accumulator has to keep these apart
            for i in 0..base.len() - 1 {
                if base[i] == 0 || base[i + 1] == 0 || base[i] == base[i + 1] {
                    continue;
                }
                let mut x = base.clone();
                x.swap(i, i + 1);
                let name: &'static str = Box::leak(format!("transposed(bytes {i},{})", i + 1).into_boxed_str());
                v.push((name, x));
            }
            for (i, j) in [(1usize, 2usize), (6, 7), (6, 13)] {
                let mut x = base.clone();
                x[i] ^= 0x20;
                x[j] ^= 0x20;
                let name: &'static str = Box::leak(format!("same-bit-flipped-twice(bytes {i},{j})").into_boxed_str());
                v.push((name, x));
            }
            v
        })
        .iter()
        .map(|(n, x)| (*n, Some(x.clone())))
        .collect()
}
const PLAIN_ABSENT: usize = 7;

const SC_INIT: [&str; 7] = ["cf-right-user", "cf-wrong-user", "cf-no-gs2-header", "cf-no-nonce", "plain-correct", "empty", "absent"];
const SC_RESP: [&str; 16] = [
    "final-correct",
    "final-wrong-password",
    "final-password-prefix",
    "final-password-plus-one-byte",
    "final-password-one-byte-different",
    "final-proof-bitflip",
    "final-proof-truncated",
    "final-no-proof",
    "final-wrong-nonce",
    "final-channel-binding-changed",
    "final-other-salt",
    "final-other-iterations",
    "final-replayed-other-client-first",
    "final-extra-attribute",
    "final-empty",
    "plain-correct",
];
/// responses whose proof is valid for the configured password over the messages as exchanged
const SC_RESP_CRED_VALID: [&str; 3] = ["final-correct", "final-channel-binding-changed", "final-extra-attribute"];

#[derive(Clone, Copy, Debug, PartialEq, Eq, Hash)]
pub enum Act {
    HSasl,
    HAmqp,
    /// (mechanism index, payload index)
    Init(usize, usize),
    Resp(usize),
    Mechs,
    Challenge,
    OutcomeOk,
    Open,
    Garbage,
    Partial,
    Eof,
}

fn alphabet(kind: LKind) -> Vec<Act> {
    let mut v = vec![Act::HSasl, Act::HAmqp];
    let (ni, nr) = match kind {
        LKind::Plain => (plain_payloads().len(), plain_payloads().len()),
        LKind::Scram(_) => (SC_INIT.len(), SC_RESP.len()),
    };
    let base = if kind == LKind::Plain { plain_base_len() } else { ni };
    for m in 0..4 {
        for p in 0..ni {
            if p >= base && m != 0 {
                continue;
            }
            v.push(Act::Init(m, p));
        }
    }
    for p in 0..nr.min(base) {
        if kind == LKind::Plain && p == PLAIN_ABSENT {
            continue; // the response field is mandatory: no "absent" form of a well-typed response
        }
        v.push(Act::Resp(p));
    }
    v.extend([Act::Mechs, Act::Challenge, Act::OutcomeOk, Act::Open, Act::Garbage, Act::Partial, Act::Eof]);
    v
}

fn act_name(kind: LKind, a: Act) -> String {
    match a {
        Act::HSasl => "sasl-header".into(),
        Act::HAmqp => "amqp-header".into(),
        Act::Init(m, p) => match kind {
            LKind::Plain => format!("init({},{})", kind.mechs()[m], plain_payloads()[p].0),
            LKind::Scram(_) => format!("init({},{})", kind.mechs()[m], SC_INIT[p]),
        },
        Act::Resp(p) => match kind {
            LKind::Plain => format!("response({})", plain_payloads()[p].0),
            LKind::Scram(_) => format!("response({})", SC_RESP[p]),
        },
        Act::Mechs => "mechanisms".into(),
        Act::Challenge => "challenge".into(),
        Act::OutcomeOk => "outcome(ok)".into(),
        Act::Open => "amqp-open".into(),
        Act::Garbage => "garbage".into(),
        Act::Partial => "partial(3 zero bytes)".into(),
        Act::Eof => "eof".into(),
    }
}

#[derive(Clone, Copy, Debug, PartialEq, Eq)]
enum Expect {
    MustSucceed,
    MustFail,
    Either,
}

/// The reference verdict, from the action sequence alone (see the module comment for the readings).
fn expect(kind: LKind, seq: &[Act]) -> Expect {
    let tail_ok = |rest: &[Act]| rest.len() <= 2 && rest.iter().zip([Act::HAmqp, Act::Open]).all(|(a, b)| *a == b);
    match kind {
        LKind::Plain => {
            let pp = plain_payloads();
            let valid = |p: usize| pp[p].0 == "correct" || pp[p].0 == "authzid";
            match seq {
                [Act::HSasl, Act::Init(m, p), rest @ ..] if valid(*p) => {
                    if *m == 0 && pp[*p].0 == "correct" && tail_ok(rest) {
                        Expect::MustSucceed
                    } else {
                        Expect::Either
                    }
                }
                _ => Expect::MustFail,
            }
        }
        LKind::Scram(_) => {
            if seq.first() != Some(&Act::HSasl) {
                return Expect::MustFail;
            }
            let Some(j) = seq.iter().position(|a| matches!(a, Act::Resp(_))) else {
                return Expect::MustFail;
            };
            let inits_ok = j >= 2 && seq[1..j].iter().all(|a| matches!(a, Act::Init(_, 0)));
            let Act::Resp(r) = seq[j] else { unreachable!() };
            if !inits_ok || !SC_RESP_CRED_VALID.contains(&SC_RESP[r]) {
                return Expect::MustFail;
            }
            if j == 2 && seq[1] == Act::Init(0, 0) && r == 0 && tail_ok(&seq[3..]) {
                Expect::MustSucceed
            } else {
                Expect::Either
            }
        }
    }
}

fn scram_init_payload(idx: usize) -> (Option<Vec<u8>>, Option<String>) {
    match SC_INIT[idx] {
        "cf-right-user" => (Some(format!("n,,n={USER},r={CNONCE}").into_bytes()), Some(format!("n={USER},r={CNONCE}"))),
        "cf-wrong-user" => (Some(format!("n,,n=usex,r={CNONCE}").into_bytes()), Some(format!("n=usex,r={CNONCE}"))),
        "cf-no-gs2-header" => (Some(format!("n={USER},r={CNONCE}").into_bytes()), Some(format!("n={USER},r={CNONCE}"))),
        "cf-no-nonce" => (Some(format!("n,,n={USER}").into_bytes()), Some(format!("n={USER}"))),
        "plain-correct" => (Some(b"\0user\0password".to_vec()), None),
        "empty" => (Some(vec![]), None),
        _ => (None, None),
    }
}

/// client-final-message of the scripted SCRAM client for the response class `idx`
fn scram_final(v: Ver, idx: usize, cfb: &str, server_first: Option<&str>) -> Vec<u8> {
    let name = SC_RESP[idx];
    match name {
        "final-empty" => return vec![],
        "plain-correct" => return b"\0user\0password".to_vec(),
        _ => {}
    }
    let synthetic = format!("r={CNONCE}c19srv,s={},i=4096", b64e(b"0123456789abcdef"));
    let (sf_text, sf) = match server_first.and_then(|s| parse_server_first(s).map(|p| (s.to_string(), p))) {
        Some(x) => x,
        None => (synthetic.clone(), parse_server_first(&synthetic).unwrap()),
    };
    let mut pw = PASSWORD.to_string();
    let mut salt = sf.salt.clone();
    let mut iters = sf.iters;
    let mut gs2 = "n,,";
    let mut cfb_auth = cfb.to_string();
    let mut ext = "";
    match name {
        "final-wrong-password" => pw = "hunter22".into(),
        "final-password-prefix" => pw = "passwor".into(),
        "final-password-plus-one-byte" => pw = "passwordX".into(),
        "final-password-one-byte-different" => pw = "passwore".into(),
        "final-other-salt" => {
            if salt.is_empty() {
                salt.push(1)
            } else {
                salt[0] ^= 1
            }
        }
        "final-other-iterations" => iters += 1,
        "final-replayed-other-client-first" => cfb_auth = format!("n={USER},r=AnotherClientNonce"),
        "final-channel-binding-changed" => gs2 = "y,,",
        "final-extra-attribute" => ext = ",x=ext",
        _ => {}
    }
    let without = format!("c={},r={}{}", b64e(gs2.as_bytes()), sf.nonce, ext);
    let auth = auth_message(&cfb_auth, &sf_text, &without);
    let salted = v.hi(pw.as_bytes(), &salt, iters.min(20_000));
    let mut proof = client_proof(v, &salted, &auth);
    match name {
        "final-proof-bitflip" => proof[0] ^= 1,
        "final-proof-truncated" => proof.truncate(8),
        _ => {}
    }
    let sent = if name == "final-wrong-nonce" { format!("c=biws,r={}X", sf.nonce) } else { without };
    if name == "final-no-proof" {
        return sent.into_bytes();
    }
    format!("{sent},p={}", b64e(&proof)).into_bytes()
}

fn peer_open() -> Open {
    Open {
        container_id: "c19-scripted".into(),
        hostname: None,
        max_frame_size: 4096.into(),
        channel_max: 10.into(),
        idle_time_out: None,
        outgoing_locales: None,
        incoming_locales: None,
        offered_capabilities: None,
        desired_capabilities: None,
        properties: None,
    }
}

#[derive(Debug, Clone, Default)]
pub struct LObs {
    /// accept() still pending after action i
    pub alive: Vec<bool>,
    pub result: String,
    pub accept_ok: bool,
    pub open_on_wire: bool,
    /// sasl-outcome codes written by the listener (independent wire reader)
    pub outcomes: Vec<u8>,
    pub mechanisms: Vec<String>,
    pub challenges: usize,
    /// index of the client action after which the first OK outcome appeared
    pub ok_after: Option<usize>,
    pub wire: Vec<String>,
    pub trace: Vec<String>,
    pub cross: Option<String>,
    /// what the client wrote, write by write
    pub client_chunks: Vec<Vec<u8>>,
}

fn lib_items(pipe: &Pipe) -> Vec<Item> {
    let bytes: Vec<u8> = pipe.log().into_iter().filter(|e| e.dir == 0).flat_map(|e| e.bytes).collect();
    read_stream(&bytes)
}

fn outcome_codes(items: &[Item]) -> Vec<u8> {
    items
        .iter()
        .filter_map(|i| match i {
            Item::Sasl { code: 0x44, fields } => Some(match fields.first() {
                Some(Field::UByte(c)) => *c,
                _ => 255,
            }),
            _ => None,
        })
        .collect()
}

fn last_challenge(items: &[Item]) -> Option<String> {
    items.iter().rev().find_map(|i| match i {
        Item::Sasl { code: 0x42, fields } => match fields.first() {
            Some(Field::Binary(b)) => String::from_utf8(b.clone()).ok(),
            _ => None,
        },
        _ => None,
    })
}

async fn listener_scenario<S: SaslAcceptor + 'static>(acceptor: &ConnectionAcceptor<(), S>, kind: LKind, seq: Vec<Act>, burst: bool) -> LObs {
    let mut obs = LObs::default();
    let (pipe, a, _b) = Pipe::new();
    let mut peer = Peer::new(pipe.clone(), 1, Auto::none());
    let fut = acceptor.accept(a);
    tokio::pin!(fut);
    let mut result = None;
    macro_rules! rounds {
        ($n:expr) => {
            for _ in 0..$n {
                if result.is_none() {
                    tokio::select! {
                        biased;
                        r = &mut fut => { result = Some(r); }
                        _ = tokio::time::sleep(Duration::from_millis(1)) => {}
                    }
                } else {
                    tokio::time::sleep(Duration::from_millis(1)).await;
                }
                peer.pump();
            }
        };
    }
    rounds!(2);
    let pp = plain_payloads();
    let mut cfb = format!("n={USER},r={CNONCE}");
    let mut eof = false;
    for (i, act) in seq.iter().enumerate() {
        if eof {
            // nothing can be sent after the client closed its write half
            obs.alive.push(result.is_none());
            continue;
        }
        match *act {
            Act::HSasl => peer.send_proto_header(SASL_HEADER),
            Act::HAmqp => peer.send_proto_header(AMQP_HEADER),
            Act::Init(m, p) => {
                let payload = match kind {
                    LKind::Plain => pp[p].1.clone(),
                    LKind::Scram(_) => {
                        let (pl, c) = scram_init_payload(p);
                        if let Some(c) = c {
                            cfb = c;
                        }
                        pl
                    }
                };
                peer.send_sasl(Sasl::Init(SaslInit {
                    mechanism: Symbol::from(kind.mechs()[m]),
                    initial_response: payload.map(Binary::from),
                    hostname: None,
                }));
            }
            Act::Resp(p) => {
                let payload = match kind {
                    LKind::Plain => pp[p].1.clone().unwrap_or_default(),
                    LKind::Scram(v) => scram_final(v, p, &cfb, last_challenge(&lib_items(&pipe)).as_deref()),
                };
                peer.send_sasl(Sasl::Response(SaslResponse { response: Binary::from(payload) }));
            }
            Act::Mechs => peer.send_sasl(Sasl::Mechanisms(SaslMechanisms {
                sasl_server_mechanisms: Array::from(vec![Symbol::from(kind.mechs()[0])]),
            })),
            Act::Challenge => peer.send_sasl(Sasl::Challenge(SaslChallenge { challenge: Binary::from(b"r=x,s=QUJD,i=1".to_vec()) })),
            Act::OutcomeOk => peer.send_sasl(Sasl::Outcome(SaslOutcome { code: SaslCode::Ok, additional_data: None })),
            Act::Open => peer.send(0, Performative::Open(peer_open())),
            Act::Garbage => peer.send_raw(&[0xde, 0xad, 0xbe, 0xef, 0, 1, 2, 3, 4, 5, 6, 7]),
            Act::Partial => peer.send_raw(&[0, 0, 0]),
            Act::Eof => {
                peer.close_write();
                eof = true;
            }
        }
        if !burst {
            rounds!(3);
        }
        let so_far = if burst { vec![] } else { lib_items(&pipe) };
        // "alive" = the SASL/opening phase is still going on: accept() pending and the listener has not yet
        // written its AMQP open (what follows an open is connection lifecycle, property C12)
        obs.alive.push(result.is_none() && !so_far.iter().any(|i| matches!(i, Item::Amqp { code: Some(0x10), .. })));
        if !burst && obs.ok_after.is_none() && outcome_codes(&so_far).contains(&0) {
            obs.ok_after = Some(i);
        }
    }
    // epilogue: whatever is missing of "AMQP header, open", as long as accept() is still pending
    if result.is_none() && !eof {
        let n = seq.len();
        let after_header = n >= 1 && seq[n - 1] == Act::HAmqp;
        let after_open = n >= 2 && seq[n - 2] == Act::HAmqp && seq[n - 1] == Act::Open;
        if !after_open {
            if !after_header {
                peer.send_proto_header(AMQP_HEADER);
                if !burst {
                    rounds!(3);
                }
            }
            if result.is_none() {
                peer.send(0, Performative::Open(peer_open()));
            }
        }
    }
    rounds!(if burst { 8 } else { 4 });
    let items = lib_items(&pipe);
    obs.outcomes = outcome_codes(&items);
    if burst {
        // pipelined: the k-th answer (challenge or outcome) belongs to the k-th init/response sent
        let answers: Vec<&Item> = items.iter().filter(|i| matches!(i, Item::Sasl { code: 0x42 | 0x44, .. })).collect();
        if let Some(k) = answers.iter().position(|i| matches!(i, Item::Sasl { code: 0x44, fields } if fields.first() == Some(&Field::UByte(0)))) {
            obs.ok_after = seq.iter().enumerate().filter(|(_, a)| matches!(a, Act::Init(..) | Act::Resp(_))).map(|(i, _)| i).nth(k);
        }
    }
    obs.challenges = items.iter().filter(|i| matches!(i, Item::Sasl { code: 0x42, .. })).count();
    obs.mechanisms = items
        .iter()
        .find_map(|i| match i {
            Item::Sasl { code: 0x40, fields } => Some(match fields.first() {
                Some(Field::Symbols(v)) => v.clone(),
                Some(Field::Symbol(s)) => vec![s.clone()],
                _ => vec![],
            }),
            _ => None,
        })
        .unwrap_or_default();
    obs.open_on_wire = items.iter().any(|i| matches!(i, Item::Amqp { code: Some(0x10), .. }));
    obs.wire = items.iter().map(|i| i.short()).collect();
    // cross-check the independent reader against the harness peer's decoder
    let peer_codes: Vec<u8> = peer
        .trace
        .iter()
        .filter(|w| w.dir == Dirn::FromLib)
        .filter_map(|w| match &w.body {
            Body::Sasl(Sasl::Outcome(o)) => Some(o.code.clone() as u8),
            _ => None,
        })
        .collect();
    if peer_codes != obs.outcomes {
        obs.cross = Some(format!("independent reader sees outcome codes {:?}, the peer's decoder {:?}", obs.outcomes, peer_codes));
    }
    let peer_open_seen = peer.trace.iter().any(|w| w.dir == Dirn::FromLib && matches!(&w.body, Body::Perf(Performative::Open(_))));
    if peer_open_seen != obs.open_on_wire {
        obs.cross = Some(format!("independent reader open={}, the peer's decoder open={}", obs.open_on_wire, peer_open_seen));
    }
    obs.accept_ok = matches!(result, Some(Ok(_)));
    obs.result = match &result {
        None => "pending".into(),
        Some(Ok(_)) => "ok".into(),
        Some(Err(e)) => format!("err {e:?}"),
    };
    obs.trace = trace_to_strings(&peer.trace);
    obs.trace.push(format!("accept() = {}", obs.result));
    obs.client_chunks = pipe.log().into_iter().filter(|e| e.dir == 1).map(|e| e.bytes).collect();
    drop(result);
    obs
}

/// Replay across connections: one acceptor (one configured `ScramAuthenticator`) serves two connections.  On the
/// first an honest client authenticates; on the second a client that does NOT know the password writes exactly
/// the bytes the first one wrote (stepwise, or all at once).  The second accept() must fail: a proof is bound to
/// the nonces of its own exchange.  (OS randomness is the deterministic per-thread stream of the shim: successive
/// draws differ, so two honest exchanges in one execution get different server nonces.)
async fn scram_replay_scenario(v: Ver, burst: bool) -> (LObs, String, Vec<u8>, Vec<String>) {
    let kind = LKind::Scram(v);
    let acc = ConnectionAcceptor::builder().container_id("c19-listener").sasl_acceptor(ScramAuthenticator::new(scram_credential(v))).build();
    let honest = vec![Act::HSasl, Act::Init(0, 0), Act::Resp(0), Act::HAmqp, Act::Open];
    let first = listener_scenario(&acc, kind, honest, false).await;
    let (pipe, a, _b) = Pipe::new();
    let fut = acc.accept(a);
    tokio::pin!(fut);
    let mut result = None;
    macro_rules! rounds {
        ($n:expr) => {
            for _ in 0..$n {
                if result.is_none() {
                    tokio::select! {
                        biased;
                        r = &mut fut => { result = Some(r); }
                        _ = tokio::time::sleep(Duration::from_millis(1)) => {}
                    }
                } else {
                    tokio::time::sleep(Duration::from_millis(1)).await;
                }
            }
        };
    }
    rounds!(2);
    for chunk in &first.client_chunks {
        pipe.push_bytes(1, chunk);
        if !burst {
            rounds!(3);
        }
    }
    rounds!(8);
    let items = lib_items(&pipe);
    let outcomes = outcome_codes(&items);
    let res = match &result {
        None => "pending".to_string(),
        Some(Ok(_)) => "ok".to_string(),
        Some(Err(e)) => format!("err {e:?}"),
    };
    let wire = items.iter().map(|i| i.short()).collect();
    drop(result);
    (first, res, outcomes, wire)
}

fn scram_credential(v: Ver) -> Arc<SingleScramCredential> {
    static CREDS: [OnceLock<Arc<SingleScramCredential>>; 3] = [OnceLock::new(), OnceLock::new(), OnceLock::new()];
    let (i, sv) = match v {
        Ver::S1 => (0, ScramVersion::Sha1),
        Ver::S256 => (1, ScramVersion::Sha256),
        Ver::S512 => (2, ScramVersion::Sha512),
    };
    CREDS[i]
        .get_or_init(|| Arc::new(SingleScramCredential::new(USER, PASSWORD, sv).expect("scram credential")))
        .clone()
}

struct CaseRun<O> {
    obs: Option<O>,
    panics: Vec<String>,
    spun: bool,
    watchdog: bool,
}

fn run_listener_case(kind: LKind, seq: &[Act], burst: bool) -> CaseRun<LObs> {
    if let LKind::Scram(v) = kind {
        scram_credential(v); // built outside the execution thread, once
    }
    let seq = seq.to_vec();
    let scen: Scenario<LObs> = Arc::new(move || {
        let seq = seq.clone();
        Box::pin(async move {
            match kind {
                LKind::Plain => {
                    let acc = ConnectionAcceptor::builder()
                        .container_id("c19-listener")
                        .sasl_acceptor(SaslPlainMechanism::new(USER, PASSWORD))
                        .build();
                    listener_scenario(&acc, kind, seq, burst).await
                }
                LKind::Scram(v) => {
                    let acc = ConnectionAcceptor::builder()
                        .container_id("c19-listener")
                        .sasl_acceptor(ScramAuthenticator::new(scram_credential(v)))
                        .build();
                    listener_scenario(&acc, kind, seq, burst).await
                }
            }
        })
    });
    let ex = run_exec(vec![], &RunCfg::none(), &scen);
    CaseRun { obs: ex.out, panics: ex.panics, spun: ex.spun, watchdog: ex.watchdog }
}

#[derive(Default)]
struct Acc {
    executions: u64,
    violations: Vec<(String, String, J)>,
    /// all violating executions per signature (only the first few of each are kept in `violations`)
    violating: BTreeMap<String, u64>,
    machinery: Vec<String>,
    classes: HashSet<u64>,
    counters: BTreeMap<String, u64>,
    samples: Vec<J>,
    truncated: bool,
}

impl Acc {
    fn count(&mut self, k: &str, n: u64) {
        *self.counters.entry(k.to_string()).or_insert(0) += n;
    }
    fn violation(&mut self, sig: String, detail: String, replay: J) {
        let n = self.violating.entry(sig.clone()).or_insert(0);
        *n += 1;
        if *n <= 5 {
            self.violations.push((sig, detail, replay));
        }
    }
    fn machinery(&mut self, s: String) {
        if self.machinery.len() < 8 {
            self.machinery.push(s);
        }
    }
}

fn listener_replay(kind: LKind, seq: &[Act], burst: bool) -> J {
    json!({"part": "listener", "listener": kind.name(), "pipelined": burst, "actions": seq.iter().map(|a| act_name(kind, *a)).collect::<Vec<_>>()})
}

/// what made the listener say OK: the last init/response sent before the first OK outcome
fn ok_trigger(kind: LKind, seq: &[Act], obs: &LObs) -> String {
    let Some(k) = obs.ok_after else {
        return "without an OK outcome".into();
    };
    match seq[..=k].iter().rev().find(|a| matches!(a, Act::Init(..) | Act::Resp(_))) {
        // the mechanism name is not part of the class (it is not judged); the two payloads with bytes after a
        // third NUL are one class
        Some(Act::Init(_, p)) => {
            let pl = match kind {
                LKind::Plain => plain_class(*p),
                LKind::Scram(_) => SC_INIT[*p],
            };
            format!("OK after init({pl})")
        }
        Some(Act::Resp(p)) => {
            let pl = match kind {
                LKind::Plain => plain_class(*p),
                LKind::Scram(_) => SC_RESP[*p],
            };
            format!("OK after response({pl})")
        }
        _ => "OK without init or response".into(),
    }
}

fn plain_class(p: usize) -> &'static str {
    match plain_payloads()[p].0 {
        "extra-nul-field" | "trailing-nul" => "extra-nul-separated-field",
        other => other,
    }
}

fn judge_listener(kind: LKind, seq: &[Act], burst: bool, run: &CaseRun<LObs>, acc: &mut Acc) {
    acc.executions += 1;
    let names: Vec<String> = seq.iter().map(|a| act_name(kind, *a)).collect();
    let Some(obs) = &run.obs else {
        acc.machinery(format!("listener scenario {} {:?} did not finish: panics {:?} watchdog {}", kind.name(), names, run.panics, run.watchdog));
        return;
    };
    if run.spun || !run.panics.is_empty() {
        // not this property's business (C14/C15): handed to the owner as a machinery note
        acc.machinery(format!("listener {} {:?}: spun={} panics={:?} trace={:?}", kind.name(), names, run.spun, run.panics, obs.trace));
    }
    if let Some(c) = &obs.cross {
        acc.machinery(format!("listener {} {:?}: {c}", kind.name(), names));
    }
    let exp = match (expect(kind, seq), burst, kind) {
        // pipelined (everything written before the listener runs): a SCRAM response computed before the
        // challenge was seen cannot carry a valid proof (the server nonce is random) -> nothing authenticates;
        // a pipelined valid PLAIN exchange may succeed but is not required to here (pipelining is C12's business)
        (_, true, LKind::Scram(_)) => Expect::MustFail,
        (Expect::MustSucceed, true, LKind::Plain) => Expect::Either,
        (e, _, _) => e,
    };
    let opened = obs.accept_ok || obs.open_on_wire;
    let mode = if burst { "pipelined in one burst" } else { "one action per quiescent point" };
    match exp {
        Expect::MustFail if opened => {
            let payload_hex = seq
                .iter()
                .filter_map(|a| match (kind, a) {
                    (LKind::Plain, Act::Init(_, p)) | (LKind::Plain, Act::Resp(p)) => {
                        plain_payloads()[*p].1.as_ref().map(|b| format!("{:?}", String::from_utf8_lossy(b)))
                    }
                    _ => None,
                })
                .collect::<Vec<_>>();
            acc.violation(
                format!("unauthenticated-open [{}] {}", if kind == LKind::Plain { "PLAIN" } else { "SCRAM" }, ok_trigger(kind, seq, obs)),
                format!(
                    "listener {} opened a connection (accept()={}, listener's open on the wire={}) for client actions {:?} ({mode}; payload bytes {:?}) which do not present the configured credentials {:?}/{:?} in a well-formed exchange; listener wrote {:?}",
                    kind.name(), obs.result, obs.open_on_wire, names, payload_hex, USER, PASSWORD, obs.wire
                ),
                listener_replay(kind, seq, burst),
            );
        }
        Expect::MustSucceed if !(obs.accept_ok && obs.open_on_wire) => {
            acc.violation(
                format!("valid-exchange-rejected [{}]", if kind == LKind::Plain { "PLAIN" } else { "SCRAM" }),
                format!(
                    "listener {}: the canonical exchange with the configured credentials {:?} ({mode}) did not open the connection: accept()={}, listener's open on the wire={}, listener wrote {:?}",
                    kind.name(), names, obs.result, obs.open_on_wire, obs.wire
                ),
                listener_replay(kind, seq, burst),
            );
        }
        _ => {}
    }
    // evidence
    let answered = !obs.outcomes.is_empty() || obs.challenges > 0;
    if answered {
        acc.classes.insert(h64(&("L", kind, burst, &obs.wire, obs.result.split(['(', ' ', '{']).take(2).collect::<Vec<_>>())));
        acc.count("listener_runs_where_sasl_layer_answered", 1);
    }
    if obs.mechanisms.iter().any(|m| m == kind.name()) {
        acc.count("listener_runs_mechanisms_frame_received", 1);
    }
    for c in &obs.outcomes {
        acc.count(&format!("listener_outcome_code_{c}"), 1);
    }
    if obs.challenges > 0 {
        acc.count("listener_runs_with_challenge", 1);
    }
    match exp {
        Expect::MustSucceed => acc.count("listener_must_succeed_cases", 1),
        Expect::MustFail => acc.count("listener_must_fail_cases", 1),
        Expect::Either => {
            acc.count("listener_either_cases", 1);
            if opened {
                acc.count("listener_either_cases_opened", 1);
                if matches!(seq.get(1), Some(Act::Init(m, _)) if *m != 0) {
                    acc.count("listener_opened_with_unoffered_mechanism_name_and_valid_credentials", 1);
                }
            }
        }
    }
    if opened {
        acc.count("listener_runs_connection_opened", 1);
    }
    if burst {
        acc.count("listener_runs_pipelined", 1);
        if opened && expect(kind, seq) == Expect::MustSucceed {
            acc.count("listener_pipelined_canonical_plain_exchange_opened", 1);
        }
    }
    let want = match acc.samples.len() {
        0 => exp == Expect::MustSucceed && kind == LKind::Plain,
        1 => exp == Expect::MustSucceed && kind != LKind::Plain,
        2 => exp == Expect::MustFail && obs.outcomes.contains(&1) && seq.len() >= 3,
        _ => false,
    };
    if want {
        acc.samples.push(json!({"listener": kind.name(), "client_actions": names, "mode": mode, "expected": format!("{:?}", exp), "accept": obs.result, "listener_wrote": obs.wire}));
    }
}

/// every sequence of 1..=depth actions; `prune`: extend a sequence only while accept() is pending
/// Levels up to `min_depth` are always completed; deeper levels only while `deadline` has not passed (a level that
/// is cut is reported as not done).
fn enumerate_listener(kind: LKind, min_depth: usize, depth: usize, prune: bool, threads: usize, deadline: Instant, acc: &mut Acc) -> (usize, Vec<u64>) {
    let alpha = alphabet(kind);
    let mut frontier: Vec<Vec<Act>> = vec![vec![]];
    let mut per_level = vec![];
    let mut done = 0;
    for level in 1..=depth {
        if frontier.is_empty() {
            // nothing alive any more: all longer sequences are covered by their dead prefixes
            done = depth;
            break;
        }
        let cut = std::sync::atomic::AtomicBool::new(false);
        let mut next = vec![];
        let mut n_cands: u64 = 0;
        // a level is executed in slices of the frontier: the candidates and runs of one slice are judged and
        // dropped before the next starts (a whole level of candidates and run records once needed > 60 GiB)
        let per_slice = (20_000 / alpha.len().max(1)).max(1);
        for prefixes in frontier.chunks(per_slice) {
            let slice: Vec<Vec<Act>> = prefixes
                .iter()
                .flat_map(|p| {
                    alpha.iter().map(move |a| {
                        let mut q = p.clone();
                        q.push(*a);
                        q
                    })
                })
                .collect();
            n_cands += slice.len() as u64;
            let runs = par_map(&slice, threads, |_, seq| {
                if level > min_depth && Instant::now() > deadline {
                    cut.store(true, std::sync::atomic::Ordering::Relaxed);
                    return None;
                }
                Some((run_listener_case(kind, seq, false), if seq.len() >= 2 { Some(run_listener_case(kind, seq, true)) } else { None }))
            });
            for (seq, run) in slice.iter().zip(runs.iter()) {
                let Some((run, brun)) = run else { continue };
                judge_listener(kind, seq, false, run, acc);
                if let Some(brun) = brun {
                    judge_listener(kind, seq, true, brun, acc);
                }
                let alive = run.obs.as_ref().map(|o| o.alive.last().copied().unwrap_or(false)).unwrap_or(false);
                if (alive || !prune) && level < depth {
                    next.push(seq.clone());
                }
                if !alive {
                    acc.count(if prune { "listener_sequences_ending_dead" } else { "unpruned_sequences_ending_dead" }, 1);
                }
            }
            if cut.load(std::sync::atomic::Ordering::Relaxed) {
                break;
            }
        }
        per_level.push(n_cands);
        if cut.load(std::sync::atomic::Ordering::Relaxed) {
            acc.truncated = true;
            break;
        }
        done += 1;
        frontier = next;
    }
    (done, per_level)
}

// ================================================================================================
// Part 2: the SCRAM client under attack

const C_USER: &str = "user";
const C_PASSWORD: &str = "pencil";
const SALT1: &[u8] = b"c19-salt-0123456";
const SALT2: &[u8] = b"c19-salt-6543210";
const ITERS: u32 = 4096;

#[derive(Clone, Copy, Debug, PartialEq, Eq, Hash)]
pub enum Early {
    None,
    OkBeforeMechanisms,
    OkBeforeChallengeNoData,
    OkBeforeChallengeJunkSignature,
}
#[derive(Clone, Copy, Debug, PartialEq, Eq, Hash)]
pub enum NonceT {
    Honest,
    ServerOnly,
    ClientFirstCharChanged,
    ClientTruncated,
}
/// what the server signature is computed from
#[derive(Clone, Copy, Debug, PartialEq, Eq, Hash)]
pub enum Basis {
    Honest,
    OtherSalt,
    OtherIterations,
    OtherPassword,
    OtherAuthMessage,
    ClientKeyInsteadOfServerKey,
}
/// form of the additional-data of the outcome
#[derive(Clone, Copy, Debug, PartialEq, Eq, Hash)]
pub enum Form {
    Valid,
    BitFlip,
    Truncated,
    EmptySignature,
    Missing,
    EmptyData,
    NonUtf8,
    NoVPrefix,
    NotBase64,
    ErrorAttribute,
}
#[derive(Clone, Copy, Debug, PartialEq, Eq, Hash)]
pub enum Extra {
    None,
    RepeatChallenge,
    EmptyChallenge,
}

const EARLY: [Early; 4] = [Early::None, Early::OkBeforeMechanisms, Early::OkBeforeChallengeNoData, Early::OkBeforeChallengeJunkSignature];
const NONCES: [NonceT; 4] = [NonceT::Honest, NonceT::ServerOnly, NonceT::ClientFirstCharChanged, NonceT::ClientTruncated];
const BASES: [Basis; 6] = [Basis::Honest, Basis::OtherSalt, Basis::OtherIterations, Basis::OtherPassword, Basis::OtherAuthMessage, Basis::ClientKeyInsteadOfServerKey];
const FORMS: [Form; 10] = [Form::Valid, Form::BitFlip, Form::Truncated, Form::EmptySignature, Form::Missing, Form::EmptyData, Form::NonUtf8, Form::NoVPrefix, Form::NotBase64, Form::ErrorAttribute];
const EXTRAS: [Extra; 3] = [Extra::None, Extra::RepeatChallenge, Extra::EmptyChallenge];
const CODE_NAMES: [&str; 5] = ["ok", "auth", "sys", "sys-perm", "sys-temp"];

#[derive(Clone, Copy, Debug, PartialEq, Eq, Hash)]
pub struct Script {
    pub early: Early,
    pub nonce: NonceT,
    pub basis: Basis,
    pub form: Form,
    pub code: u8,
    pub extra: Extra,
}

impl Script {
    fn honest() -> Self {
        Script { early: Early::None, nonce: NonceT::Honest, basis: Basis::Honest, form: Form::Valid, code: 0, extra: Extra::None }
    }
    fn tampered(&self) -> bool {
        *self != Script::honest()
    }
    fn label(&self) -> String {
        let mut v = vec![];
        if self.early != Early::None {
            v.push(format!("early={:?}", self.early));
        }
        if self.nonce != NonceT::Honest {
            v.push(format!("nonce={:?}", self.nonce));
        }
        if self.basis != Basis::Honest {
            v.push(format!("signature-basis={:?}", self.basis));
        }
        if self.form != Form::Valid {
            v.push(format!("additional-data={:?}", self.form));
        }
        if self.code != 0 {
            v.push(format!("code={}", CODE_NAMES[self.code as usize]));
        }
        if self.extra != Extra::None {
            v.push(format!("extra={:?}", self.extra));
        }
        if v.is_empty() {
            "honest".into()
        } else {
            v.join(" ")
        }
    }
    fn to_json(&self) -> J {
        json!({"early": format!("{:?}", self.early), "nonce": format!("{:?}", self.nonce), "basis": format!("{:?}", self.basis), "form": format!("{:?}", self.form), "code": self.code, "extra": format!("{:?}", self.extra)})
    }
    fn from_json(j: &J) -> Option<Script> {
        let s = |k: &str| j[k].as_str().unwrap_or("").to_string();
        Some(Script {
            early: *EARLY.iter().find(|x| format!("{:?}", x) == s("early"))?,
            nonce: *NONCES.iter().find(|x| format!("{:?}", x) == s("nonce"))?,
            basis: *BASES.iter().find(|x| format!("{:?}", x) == s("basis"))?,
            form: *FORMS.iter().find(|x| format!("{:?}", x) == s("form"))?,
            code: j["code"].as_u64()? as u8,
            extra: *EXTRAS.iter().find(|x| format!("{:?}", x) == s("extra"))?,
        })
    }
}

fn sasl_code(c: u8) -> SaslCode {
    match c {
        0 => SaslCode::Ok,
        1 => SaslCode::Auth,
        2 => SaslCode::Sys,
        3 => SaslCode::SysPerm,
        _ => SaslCode::SysTemp,
    }
}

#[derive(Debug, Clone, Default)]
pub struct CObs {
    pub result: String,
    pub ok: bool,
    /// the client wrote its AMQP header after the SASL layer
    pub proceeded: bool,
    pub init_seen: bool,
    pub responses: usize,
    /// the client's proof verified by the independent SCRAM
    pub proof_ok: Option<bool>,
    pub outcome_sent: bool,
    pub notes: Vec<String>,
    pub wire: Vec<String>,
    pub trace: Vec<String>,
}

/// the independent server's outcome for the exchange so far
fn build_outcome(v: Ver, sc: Script, cfb: &str, server_first: &str, final_without_proof: &str) -> SaslOutcome {
    let (pw, salt, iters) = match sc.basis {
        Basis::OtherSalt => (C_PASSWORD, SALT2, ITERS),
        Basis::OtherIterations => (C_PASSWORD, SALT1, ITERS + 1),
        Basis::OtherPassword => ("pencil2", SALT1, ITERS),
        _ => (C_PASSWORD, SALT1, ITERS),
    };
    let salted = v.hi(pw.as_bytes(), salt, iters);
    let auth = if sc.basis == Basis::OtherAuthMessage {
        auth_message(cfb, &server_first.replacen("r=", "r=Z", 1), final_without_proof)
    } else {
        auth_message(cfb, server_first, final_without_proof)
    };
    let mut sig = if sc.basis == Basis::ClientKeyInsteadOfServerKey {
        let (ck, _) = refscram::keys(v, &salted);
        v.hmac(&ck, &auth)
    } else {
        server_signature(v, &salted, &auth)
    };
    let data: Option<Vec<u8>> = match sc.form {
        Form::Valid => Some(format!("v={}", b64e(&sig)).into_bytes()),
        Form::BitFlip => {
            sig[0] ^= 1;
            Some(format!("v={}", b64e(&sig)).into_bytes())
        }
        Form::Truncated => Some(format!("v={}", b64e(&sig[..8])).into_bytes()),
        Form::EmptySignature => Some(b"v=".to_vec()),
        Form::Missing => None,
        Form::EmptyData => Some(vec![]),
        Form::NonUtf8 => Some(vec![0xff, 0xfe, b'v', b'=']),
        Form::NoVPrefix => Some(b64e(&sig).into_bytes()),
        Form::NotBase64 => Some(b"v=!!!not-base64!!!".to_vec()),
        Form::ErrorAttribute => Some(b"e=invalid-proof".to_vec()),
    };
    SaslOutcome { code: sasl_code(sc.code), additional_data: data.map(Binary::from) }
}

async fn client_scenario(v: Ver, sc: Script) -> CObs {
    let mut obs = CObs::default();
    let (pipe, a, _b) = Pipe::new();
    let mut peer = Peer::new(pipe.clone(), 1, Auto::none());
    let profile = match v {
        Ver::S1 => SaslProfile::ScramSha1(SaslScramSha1::new(C_USER, C_PASSWORD)),
        Ver::S256 => SaslProfile::ScramSha256(SaslScramSha256::new(C_USER, C_PASSWORD)),
        Ver::S512 => SaslProfile::ScramSha512(SaslScramSha512::new(C_USER, C_PASSWORD)),
    };
    let fut = Connection::builder().container_id("c19-client").sasl_profile(profile).open_with_stream(a);
    tokio::pin!(fut);
    let mut result = None;
    let mut processed = 0usize;
    let mut cfb = String::new();
    let mut server_first = String::new();
    let mut final_without = String::new();
    let mut extra_sent = false;
    let mut outcome_pending = false;
    let mut quiet = 0;
    for _round in 0..60 {
        if result.is_none() {
            tokio::select! {
                biased;
                r = &mut fut => { result = Some(r); }
                _ = tokio::time::sleep(Duration::from_millis(1)) => {}
            }
        } else {
            tokio::time::sleep(Duration::from_millis(1)).await;
        }
        peer.pump();
        let items = lib_items(&pipe);
        let mut acted = false;
        while processed < items.len() {
            let it = items[processed].clone();
            if matches!(it, Item::Junk(_)) {
                break;
            }
            processed += 1;
            acted = true;
            match it {
                Item::Header(h) if h[4] == 3 => {
                    peer.send_proto_header(SASL_HEADER);
                    if sc.early == Early::OkBeforeMechanisms {
                        peer.send_sasl(Sasl::Outcome(SaslOutcome { code: SaslCode::Ok, additional_data: None }));
                        obs.outcome_sent = true;
                    } else {
                        peer.send_sasl(Sasl::Mechanisms(SaslMechanisms { sasl_server_mechanisms: Array::from(vec![Symbol::from(v.mech())]) }));
                    }
                }
                Item::Header(h) if h[4] == 0 => {
                    obs.proceeded = true;
                    peer.send_proto_header(AMQP_HEADER);
                }
                Item::Header(_) => {}
                Item::Sasl { code: 0x41, fields } => {
                    obs.init_seen = true;
                    if fields.first() != Some(&Field::Symbol(v.mech().to_string())) {
                        obs.notes.push(format!("init names mechanism {:?}", fields.first()));
                    }
                    let cf = match fields.get(1) {
                        Some(Field::Binary(b)) => String::from_utf8_lossy(b).into_owned(),
                        _ => String::new(),
                    };
                    cfb = cf.strip_prefix("n,,").unwrap_or(&cf).to_string();
                    let cnonce = cfb.split(',').find_map(|p| p.strip_prefix("r=")).unwrap_or("").to_string();
                    if !cfb.starts_with(&format!("n={C_USER},")) || cnonce.is_empty() {
                        obs.notes.push(format!("unexpected client-first {cf:?}"));
                    }
                    match sc.early {
                        Early::OkBeforeChallengeNoData => {
                            peer.send_sasl(Sasl::Outcome(SaslOutcome { code: SaslCode::Ok, additional_data: None }));
                            obs.outcome_sent = true;
                            continue;
                        }
                        Early::OkBeforeChallengeJunkSignature => {
                            let junk = format!("v={}", b64e(&v.h(b"junk")));
                            peer.send_sasl(Sasl::Outcome(SaslOutcome { code: SaslCode::Ok, additional_data: Some(Binary::from(junk.into_bytes())) }));
                            obs.outcome_sent = true;
                            continue;
                        }
                        _ => {}
                    }
                    // server nonce: its first character differs from the client nonce's last one so that the
                    // truncated form really is not an extension of the client's nonce
                    let sn = if cnonce.ends_with('c') { "d19SrvNonce3rfcNHYJY1ZVvWVs7j" } else { "c19SrvNonce3rfcNHYJY1ZVvWVs7j" };
                    let nonce = match sc.nonce {
                        NonceT::Honest => format!("{cnonce}{sn}"),
                        NonceT::ServerOnly => sn.to_string(),
                        NonceT::ClientFirstCharChanged => {
                            let first = if cnonce.starts_with('A') { 'B' } else { 'A' };
                            format!("{first}{}{sn}", &cnonce[1.min(cnonce.len())..])
                        }
                        NonceT::ClientTruncated => format!("{}{sn}", &cnonce[..cnonce.len().saturating_sub(1)]),
                    };
                    if sc.nonce != NonceT::Honest && nonce.starts_with(&cnonce) {
                        obs.notes.push("MACHINERY: the tampered nonce still extends the client's".into());
                    }
                    server_first = format!("r={nonce},s={},i={ITERS}", b64e(SALT1));
                    peer.send_sasl(Sasl::Challenge(SaslChallenge { challenge: Binary::from(server_first.clone().into_bytes()) }));
                }
                Item::Sasl { code: 0x43, fields } => {
                    obs.responses += 1;
                    let cfin = match fields.first() {
                        Some(Field::Binary(b)) => String::from_utf8_lossy(b).into_owned(),
                        _ => String::new(),
                    };
                    if obs.responses == 1 {
                        let salted = v.hi(C_PASSWORD.as_bytes(), SALT1, ITERS);
                        let (okp, without) = verify_client_final(v, &salted, &cfb, &server_first, &cfin);
                        obs.proof_ok = Some(okp);
                        final_without = without;
                    }
                    if sc.extra != Extra::None && !extra_sent {
                        extra_sent = true;
                        outcome_pending = true;
                        let ch = if sc.extra == Extra::RepeatChallenge { server_first.clone().into_bytes() } else { vec![] };
                        peer.send_sasl(Sasl::Challenge(SaslChallenge { challenge: Binary::from(ch) }));
                    } else {
                        outcome_pending = false;
                        peer.send_sasl(Sasl::Outcome(build_outcome(v, sc, &cfb, &server_first, &final_without)));
                        obs.outcome_sent = true;
                    }
                }
                Item::Amqp { code: Some(0x10), .. } => peer.send(0, Performative::Open(peer_open())),
                _ => {}
            }
        }
        if acted {
            quiet = 0;
        } else {
            quiet += 1;
            if outcome_pending && quiet >= 2 {
                // the client did not answer the extra challenge: deliver the (otherwise valid) outcome anyway
                outcome_pending = false;
                peer.send_sasl(Sasl::Outcome(build_outcome(v, sc, &cfb, &server_first, &final_without)));
                obs.outcome_sent = true;
                quiet = 0;
            } else if quiet >= 4 {
                break;
            }
        }
    }
    obs.ok = matches!(result, Some(Ok(_)));
    obs.result = match &result {
        None => "pending".into(),
        Some(Ok(_)) => "ok".into(),
        Some(Err(e)) => format!("err {e:?}"),
    };
    obs.wire = lib_items(&pipe).iter().map(|i| i.short()).collect();
    obs.trace = trace_to_strings(&peer.trace);
    obs.trace.push(format!("open_with_stream() = {}", obs.result));
    drop(result);
    obs
}

fn run_client_case(v: Ver, sc: Script) -> CaseRun<CObs> {
    let scen: Scenario<CObs> = Arc::new(move || Box::pin(client_scenario(v, sc)));
    let ex = run_exec(vec![], &RunCfg::none(), &scen);
    CaseRun { obs: ex.out, panics: ex.panics, spun: ex.spun, watchdog: ex.watchdog }
}

fn client_replay(v: Ver, sc: Script) -> J {
    json!({"part": "scram-client", "mechanism": v.mech(), "script": sc.to_json(), "label": sc.label()})
}

fn judge_client(v: Ver, sc: Script, run: &CaseRun<CObs>, acc: &mut Acc) {
    acc.executions += 1;
    let Some(obs) = &run.obs else {
        acc.machinery(format!("client scenario {} [{}] did not finish: panics {:?} watchdog {}", v.mech(), sc.label(), run.panics, run.watchdog));
        return;
    };
    if run.spun || !run.panics.is_empty() {
        acc.machinery(format!("client {} [{}]: spun={} panics={:?} trace={:?}", v.mech(), sc.label(), run.spun, run.panics, obs.trace));
    }
    for n in obs.notes.iter().filter(|n| n.starts_with("MACHINERY")) {
        acc.machinery(format!("client {} [{}]: {n}", v.mech(), sc.label()));
    }
    if sc.tampered() {
        if obs.ok || obs.proceeded {
            acc.violation(
                format!("scram-client-accepts-tampered-server [{}]", sc.label()),
                format!(
                    "{} client: the scripted server misbehaved ({}), yet open_with_stream()={} and the client {} its AMQP header after SASL; client wrote {:?}; trace {:?}",
                    v.mech(), sc.label(), obs.result, if obs.proceeded { "sent" } else { "did not send" }, obs.wire, obs.trace
                ),
                client_replay(v, sc),
            );
        }
    } else {
        if !obs.ok {
            acc.violation(
                "scram-client-rejects-honest-server".into(),
                format!("{} client: an honest server (independent SCRAM computation, valid signature) but open_with_stream()={}; notes {:?}; trace {:?}", v.mech(), obs.result, obs.notes, obs.trace),
                client_replay(v, sc),
            );
        }
        if obs.proof_ok != Some(true) {
            acc.violation(
                "scram-client-proof-rejected-by-reference".into(),
                format!("{} client: the client's proof does not verify under the independent SCRAM computation (proof_ok={:?}); notes {:?}; trace {:?}", v.mech(), obs.proof_ok, obs.notes, obs.trace),
                client_replay(v, sc),
            );
        }
    }
    if obs.init_seen {
        acc.classes.insert(h64(&("C", v, sc, obs.result.split(['(', ' ', '{']).take(2).collect::<Vec<_>>())));
        acc.count("client_runs_exchange_started", 1);
    }
    if obs.responses > 0 {
        acc.count("client_runs_reaching_the_proof", 1);
    }
    if obs.proof_ok == Some(true) {
        acc.count("client_proofs_verified_by_reference", 1);
    }
    if obs.outcome_sent {
        acc.count("client_runs_outcome_delivered", 1);
    }
    if sc.tampered() {
        acc.count("client_tampered_cases", 1);
        if !obs.ok && !obs.proceeded {
            acc.count("client_tampered_cases_refused", 1);
        }
    } else {
        acc.count("client_honest_cases", 1);
        if obs.ok {
            acc.count("client_honest_cases_opened", 1);
        }
    }
    if ((!sc.tampered() && v == Ver::S256) || (sc.form == Form::BitFlip && sc == Script { form: Form::BitFlip, ..Script::honest() } && v == Ver::S512)) && acc.samples.len() < 5 {
        acc.samples.push(json!({"mechanism": v.mech(), "server": sc.label(), "open_with_stream": obs.result, "client_wrote": obs.wire, "client_proof_verified_by_reference": obs.proof_ok}));
    }
}

/// honest + every single tamper (+ each non-OK code without additional-data)
fn single_tampers() -> Vec<Script> {
    let h = Script::honest();
    let mut v = vec![h];
    for e in EARLY.iter().skip(1) {
        v.push(Script { early: *e, ..h });
    }
    for n in NONCES.iter().skip(1) {
        v.push(Script { nonce: *n, ..h });
    }
    for b in BASES.iter().skip(1) {
        v.push(Script { basis: *b, ..h });
    }
    for f in FORMS.iter().skip(1) {
        v.push(Script { form: *f, ..h });
    }
    for c in 1..5u8 {
        v.push(Script { code: c, ..h });
        v.push(Script { code: c, form: Form::Missing, ..h });
    }
    for x in EXTRAS.iter().skip(1) {
        v.push(Script { extra: *x, ..h });
    }
    v
}

/// the full product of the tamper dimensions (early outcomes only alone: nothing follows them)
fn all_scripts() -> Vec<Script> {
    let h = Script::honest();
    let mut v = vec![];
    for n in NONCES {
        for b in BASES {
            for f in FORMS {
                for c in 0..5u8 {
                    for x in EXTRAS {
                        v.push(Script { early: Early::None, nonce: n, basis: b, form: f, code: c, extra: x });
                    }
                }
            }
        }
    }
    for e in EARLY.iter().skip(1) {
        v.push(Script { early: *e, ..h });
    }
    v
}

fn enumerate_client(scripts: &[Script], threads: usize, deadline: Instant, acc: &mut Acc) -> u64 {
    let cases: Vec<(Ver, Script)> = VERSIONS.iter().flat_map(|v| scripts.iter().map(move |s| (*v, *s))).collect();
    let cut = std::sync::atomic::AtomicBool::new(false);
    let runs = par_map(&cases, threads, |_, (v, s)| {
        if Instant::now() > deadline {
            cut.store(true, std::sync::atomic::Ordering::Relaxed);
            return None;
        }
        Some(run_client_case(*v, *s))
    });
    let mut n = 0;
    for ((v, s), r) in cases.iter().zip(runs.iter()) {
        if let Some(r) = r {
            judge_client(*v, *s, r, acc);
            n += 1;
        }
    }
    if cut.load(std::sync::atomic::Ordering::Relaxed) {
        acc.truncated = true;
    }
    n
}

// ================================================================================================

pub fn run(ctx: &Ctx) -> Outcome {
    let mut out = Outcome::new("exploration");
    if let Err(e) = refscram::self_test() {
        out.machinery_errors.push(format!("independent SCRAM self-test failed: {e}"));
        return out;
    }
    if let Some(p) = &ctx.replay {
        return replay(p, out);
    }
    let deadline = Instant::now() + Duration::from_secs_f64(ctx.budget_s * 0.9);
    let mut acc = Acc::default();
    // bounds: (pruned tree depth, unpruned validation depth).  Measured: quick ~7 s / 36 k executions; thorough
    // ~6 min / 1.6 M executions on 16 cores (depth 6 costs 2 M more executions, all of them in states kept
    // alive by stuffing zero bytes in front of frames, and was dropped)
    let (depth, unpruned_depth) = if ctx.quick() { (4, 2) } else if ctx.tier == vlib::report::Tier::Thorough { (7, 3) } else { (5, 3) };
    let mut bound_parts = vec![];
    let mut sequences_covered: u64 = 0;
    // ---- part 1: every kind completes `base_depth`; the levels beyond it share the budget (a level that does
    // not fit is reported as not completed and the evidence says exhaustive:false for it)
    let base_depth = depth.min(5);
    for (i, kind) in LKINDS.iter().copied().enumerate() {
        let a = alphabet(kind).len() as u64;
        let now = Instant::now();
        let share = deadline.saturating_duration_since(now) / (LKINDS.len() - i + 1) as u32;
        let (done, levels) = enumerate_listener(kind, base_depth, depth, true, ctx.threads, now + share, &mut acc);
        let covered: u64 = (1..=done as u32).map(|k| a.saturating_pow(k)).fold(0u64, |x, y| x.saturating_add(y));
        sequences_covered = sequences_covered.saturating_add(covered);
        bound_parts.push(format!(
            "{} listener: all sequences of <= {} of {} client actions ({} sequences; {} tree nodes executed after pruning at dead listeners, per level {:?}{}; every node stepwise and, from 2 actions on, also pipelined in one burst)",
            kind.name(), done, a, covered, levels.iter().sum::<u64>(), levels,
            if done < depth { format!("; level {} was started and cut by the time budget - its runs were judged but the level is not claimed", done + 1) } else { String::new() }
        ));
        if done < depth {
            acc.truncated = true;
        }
    }
    let pruned_exec = acc.executions;
    // ---- part 2
    let scripts = if ctx.quick() { single_tampers() } else { all_scripts() };
    // the client product is small and always completed
    let n = enumerate_client(&scripts, ctx.threads, deadline + Duration::from_secs(3600), &mut acc);
    bound_parts.push(format!(
        "SCRAM client x {{SHA-1, SHA-256, SHA-512}}: {} server scripts each ({}), {} executed",
        scripts.len(),
        if ctx.quick() { "honest + every single tamper + non-OK codes without data" } else { "full product of nonce x signature-basis x additional-data form x outcome code x extra challenge, + early outcomes" },
        n
    ));
    // ---- part 3: a recorded successful SCRAM exchange replayed on a second connection of the same acceptor
    let mut replays = 0u64;
    for v in VERSIONS {
        for burst in [false, true] {
            scram_credential(v);
            let scen: Scenario<(LObs, String, Vec<u8>, Vec<String>)> = Arc::new(move || Box::pin(scram_replay_scenario(v, burst)));
            let ex = run_exec(vec![], &RunCfg::none(), &scen);
            replays += 1;
            acc.executions += 1;
            let rep = json!({"part": "replay", "version": v.mech(), "burst": burst});
            match ex.out {
                None => acc.machinery(format!("replay scenario {} burst={burst} died: {:?}", v.mech(), ex.panics)),
                Some((first, res, outcomes, wire)) => {
                    if !first.accept_ok {
                        acc.machinery(format!("replay scenario {}: the honest first exchange did not authenticate: {:?}", v.mech(), first.trace));
                    } else if res == "ok" || outcomes.contains(&0) {
                        acc.violation(
                            format!("listener: replayed-exchange-accepted {}", v.mech()),
                            format!(
                                "one acceptor, two connections: an honest client authenticated on the first; a client that only replays the bytes of that exchange ({}) on the second got outcome codes {:?} and accept() = {res}; the listener wrote {:?}",
                                if burst { "in one burst" } else { "write by write" },
                                outcomes,
                                wire
                            ),
                            rep,
                        );
                    } else {
                        acc.count("replayed_exchanges_refused", 1);
                    }
                }
            }
        }
    }
    bound_parts.push(format!("SCRAM replay across two connections of one acceptor: {replays} cases (3 hash functions x stepwise / burst)"));
    // ---- validation of the pruning: the same enumeration without pruning, to a smaller depth
    let before_unpruned = acc.executions;
    for kind in LKINDS {
        let (done, levels) = enumerate_listener(kind, unpruned_depth, unpruned_depth, false, ctx.threads, deadline, &mut acc);
        bound_parts.push(format!("{} listener unpruned (validates the pruning): every sequence of <= {} actions executed stepwise and pipelined, per level {:?}", kind.name(), done, levels));
    }
    let unpruned_exec = acc.executions - before_unpruned;
    // ---- non-vacuity
    if acc.counters.get("listener_must_succeed_cases").copied().unwrap_or(0) == 0 {
        acc.machinery("no must-succeed listener case was executed".into());
    }
    if acc.counters.get("listener_runs_with_challenge").copied().unwrap_or(0) == 0 {
        acc.machinery("no SCRAM listener run produced a challenge".into());
    }
    if acc.counters.get("client_proofs_verified_by_reference").copied().unwrap_or(0) == 0 {
        acc.machinery("no SCRAM client proof was verified".into());
    }
    for (s, d, r) in acc.violations.drain(..) {
        out.violation(s, d, r);
    }
    out.machinery_errors.extend(acc.machinery.drain(..));
    out.set("evaluations", acc.executions);
    out.set("distinct_nontrivial", acc.classes.len() as u64);
    out.set("listener_executions_pruned_tree", pruned_exec);
    out.set("listener_executions_unpruned", unpruned_exec);
    out.set("violating_executions_by_class", json!(acc.violating));
    out.set("listener_sequences_covered", sequences_covered);
    out.set("client_executions", n);
    for (k, v) in &acc.counters {
        out.set(k, *v);
    }
    out.set("samples", json!(acc.samples));
    out.set("exhaustive", !acc.truncated);
    out.set("bound", bound_parts.join("; "));
    out.set(
        "rule",
        "listener: the tree of all client action sequences over the stated alphabet, each node executed on a fresh real ConnectionAcceptor + vpipe, a node is extended only while accept() is pending (dead prefixes absorb their extensions; validated by the unpruned enumeration); client: every server script of the stated product executed against the real Connection builder. distinct_nontrivial = distinct (listener kind, frames written by the listener, accept() result class) among runs in which the listener's SASL layer answered a client frame with an outcome or challenge, plus distinct (mechanism, server script, result class) among client runs in which the client sent its sasl-init",
    );
    out.assume("client actions are injected at quiescent points of the listener (one action, then run to quiescence); byte-level interleavings inside a frame are not explored here (C06)");
    out.assume("'valid credentials' is read permissively: authcid and password equal; mechanism name and a PLAIN authzid are not judged; extra frames after a valid authentication are not judged");
    out.assume("OS randomness (nonces, salts) is whatever the deterministic getrandom shim yields; no verdict depends on its value");
    out
}

fn replay(p: &std::path::Path, mut out: Outcome) -> Outcome {
    let s = std::fs::read_to_string(p).unwrap_or_default();
    let j: J = serde_json::from_str(&s).unwrap_or_default();
    let r = if j.get("replay").is_some() { j["replay"].clone() } else { j.clone() };
    let mut acc = Acc::default();
    match r["part"].as_str() {
        Some("replay") => {
            let v = VERSIONS.iter().copied().find(|v| Some(v.mech()) == r["version"].as_str()).unwrap_or(VERSIONS[0]);
            let burst = r["burst"].as_bool().unwrap_or(false);
            scram_credential(v);
            let scen: Scenario<(LObs, String, Vec<u8>, Vec<String>)> = Arc::new(move || Box::pin(scram_replay_scenario(v, burst)));
            let ex = run_exec(vec![], &RunCfg::none(), &scen);
            if let Some((first, res, outcomes, wire)) = ex.out {
                println!("first connection: accept() ok = {}", first.accept_ok);
                println!("second connection (replay): accept() = {res}, outcome codes {:?}, listener wrote {:?}", outcomes, wire);
                if first.accept_ok && (res == "ok" || outcomes.contains(&0)) {
                    out.violation(format!("listener: replayed-exchange-accepted {}", v.mech()), format!("accept() = {res}, outcomes {:?}", outcomes), r.clone());
                }
            }
        }
        Some("listener") => {
            let Some(kind) = LKINDS.iter().copied().find(|k| Some(k.name()) == r["listener"].as_str()) else {
                out.machinery_errors.push("replay: unknown listener".into());
                return out;
            };
            let alpha = alphabet(kind);
            let mut seq = vec![];
            for n in r["actions"].as_array().cloned().unwrap_or_default() {
                match alpha.iter().find(|a| Some(act_name(kind, **a).as_str()) == n.as_str()) {
                    Some(a) => seq.push(*a),
                    None => {
                        out.machinery_errors.push(format!("replay: unknown action {n}"));
                        return out;
                    }
                }
            }
            println!("replaying listener {} {:?} (reference verdict for the stepwise run: {:?})", kind.name(), seq.iter().map(|a| act_name(kind, *a)).collect::<Vec<_>>(), expect(kind, &seq));
            let burst = r["pipelined"].as_bool().unwrap_or(false);
            let run = run_listener_case(kind, &seq, burst);
            if let Some(o) = &run.obs {
                for l in &o.trace {
                    println!("  {l}");
                }
                println!("  listener wrote (independent reader): {:?}", o.wire);
            }
            judge_listener(kind, &seq, burst, &run, &mut acc);
        }
        Some("scram-client") => {
            let (Some(v), Some(sc)) = (r["mechanism"].as_str().and_then(Ver::from_mech), Script::from_json(&r["script"])) else {
                out.machinery_errors.push("replay: bad scram-client case".into());
                return out;
            };
            println!("replaying SCRAM client {} against server [{}]", v.mech(), sc.label());
            let run = run_client_case(v, sc);
            if let Some(o) = &run.obs {
                for l in &o.trace {
                    println!("  {l}");
                }
                println!("  client wrote (independent reader): {:?}; proof_ok={:?} notes={:?}", o.wire, o.proof_ok, o.notes);
            }
            judge_client(v, sc, &run, &mut acc);
        }
        _ => {
            out.machinery_errors.push("replay: no 'part' in the replay file".into());
            return out;
        }
    }
    for (s, d, rr) in acc.violations.drain(..) {
        println!("  FAIL {s}: {d}");
        out.violation(s, d, rr);
    }
    out.machinery_errors.extend(acc.machinery.drain(..));
    out.set("evaluations", 1);
    out.set("distinct_nontrivial", acc.classes.len() as u64);
    out.set("samples", json!([r]));
    out.set("rule", "replay of one case");
    out.set("exhaustive", false);
    out.set("bound", "one replayed case");
    out
}
