use std::sync::Arc;
use std::time::{Duration, Instant};
use vlib::explore::{determinism_check, explore, Bounds};
use vlib::peer::{drive, settle, trace_to_strings, Auto, Peer};
use vlib::report::Ctx;
use vlib::runner::{run_exec, RunCfg, Scenario};
use vlib::tape::Kind;
use vlib::vpipe::Pipe;

use fe2o3_amqp::{Connection, Sender, Session};

pub fn run(ctx: &Ctx) -> i32 {
    let scen: Scenario<Vec<String>> = Arc::new(|| {
        Box::pin(async {
            let (pipe, a, _b) = Pipe::new();
            let mut auto = Auto::default();
            auto.grant_credit = Some(10);
            auto.accept_transfers = true;
            let mut peer = Peer::new(pipe, 1, auto);
            let h = Duration::from_secs(10);
            let mut conn = drive(&mut peer, Connection::builder().container_id("c").open_with_stream(a), h)
                .await
                .expect("open hung")
                .expect("open");
            let mut sess = drive(&mut peer, Session::begin(&mut conn), h).await.unwrap().unwrap();
            let mut snd = drive(&mut peer, Sender::attach(&mut sess, "s1", "q"), h).await.unwrap().unwrap();
            let out = drive(&mut peer, snd.send("hello"), h).await.unwrap().unwrap();
            assert!(out.is_accepted());
            drive(&mut peer, snd.close(), h).await.unwrap().unwrap();
            drive(&mut peer, sess.end(), h).await.unwrap().unwrap();
            drive(&mut peer, conn.close(), h).await.unwrap().unwrap();
            settle(&mut peer, 2).await;
            trace_to_strings(&peer.trace)
        })
    });
    let cfg = RunCfg::default();
    let e = run_exec(vec![], &cfg, &scen);
    println!("points={} panics={:?} alive={}", e.points.len(), e.panics, e.alive_tasks);
    for l in e.out.as_ref().unwrap() {
        println!("  {l}");
    }
    let key = |e: &vlib::runner::Exec<Vec<String>>| {
        use std::hash::{Hash, Hasher};
        let mut h = std::collections::hash_map::DefaultHasher::new();
        e.out.hash(&mut h);
        e.panics.hash(&mut h);
        h.finish()
    };
    println!("determinism: {:?}", determinism_check(&cfg, &scen, key));
    let t = Instant::now();
    let st = explore(
        &cfg,
        &Bounds::new(1).kind(Kind::Task, 1),
        &scen,
        ctx.threads,
        Instant::now() + Duration::from_secs(60),
        |e| {
            if e.out.is_none() {
                println!("FAILED exec panics={:?}", e.panics);
            }
            key(e)
        },
    );
    println!("{:?} in {:?}", st, t.elapsed());
    0
}
