//! C15 frame-level corpus: size fields, doff / type bytes, corrupted performative bodies, nesting bombs.
//! Every entry is a byte string the scripted peer pushes verbatim after the handshake.
//! (The corruption / bomb generators follow the idea of c04.rs, applied to frame bodies.)
use super::scen15::{msg, xfer, H_RCV, H_SND, LIB_MFS, PCH};
use crate::typed;
use fe2o3_amqp_types::definitions::{self, AmqpError, Handle, Role as LinkRole};
use fe2o3_amqp_types::messaging::{Accepted, DeliveryState};
use fe2o3_amqp_types::performatives::*;
use std::collections::HashSet;
use vlib::peer::encode_perf;

pub struct RawCase {
    pub family: String,
    pub label: String,
    pub bytes: Vec<u8>,
}

fn rc(family: &str, label: String, bytes: Vec<u8>) -> RawCase {
    RawCase { family: family.to_string(), label, bytes }
}

/// frame with an arbitrary header; `size` None = the true size
pub fn frame(size: Option<u32>, doff: u8, ftype: u8, channel: u16, ext: usize, body: &[u8]) -> Vec<u8> {
    let total = 8 + ext + body.len();
    let mut v = Vec::with_capacity(total);
    v.extend_from_slice(&size.unwrap_or(total as u32).to_be_bytes());
    v.push(doff);
    v.push(ftype);
    v.extend_from_slice(&channel.to_be_bytes());
    v.extend(std::iter::repeat(0u8).take(ext));
    v.extend_from_slice(body);
    v
}

/// a session-level flow: a valid body on the mapped channel
pub fn valid_flow() -> Vec<u8> {
    encode_perf(&Performative::Flow(Flow {
        next_incoming_id: Some(0),
        incoming_window: 1000,
        next_outgoing_id: 0,
        outgoing_window: 1000,
        handle: None,
        delivery_count: None,
        link_credit: None,
        available: None,
        drain: false,
        echo: false,
        properties: None,
    }))
}

/// size field 0..=16, 2^31, 2^32-1, max-frame-size+1 (declared only) and a complete frame of max-frame-size+1 bytes
pub fn sizes() -> Vec<RawCase> {
    let flow = valid_flow();
    let mut out = vec![];
    for n in 0u32..=16 {
        // the size field, the rest of a header, then as many body bytes as the size field admits
        let body_len = (n as usize).saturating_sub(8).min(flow.len());
        let mut v = n.to_be_bytes().to_vec();
        v.extend_from_slice(&[2, 0]);
        v.extend_from_slice(&PCH.to_be_bytes());
        v.extend_from_slice(&flow[..body_len]);
        out.push(rc("size", format!("size field {n}"), v));
    }
    for n in [0x8000_0000u32, 0xffff_ffff, LIB_MFS + 1, 0x0100_0000] {
        let mut v = frame(Some(n), 2, 0, PCH, 0, &flow);
        out.push(rc("size", format!("size field {n} followed by a {}-byte flow", flow.len()), v.clone()));
        // the same with nothing behind the header
        v.truncate(8);
        out.push(rc("size", format!("size field {n}, header only"), v));
    }
    // a complete, otherwise valid transfer frame one byte larger than the endpoint's max-frame-size
    let t = encode_perf(&Performative::Transfer(xfer(H_RCV, Some(0), Some("big".into()), false)));
    let mut body = t.clone();
    body.extend_from_slice(&msg(&"x".repeat(LIB_MFS as usize + 1 - 8 - t.len() - 8)));
    let pad = LIB_MFS as usize + 1 - 8 - body.len();
    body.extend(std::iter::repeat(b'y').take(pad));
    let v = frame(None, 2, 0, PCH, 0, &body);
    assert_eq!(v.len(), LIB_MFS as usize + 1);
    out.push(rc("size", format!("complete transfer frame of max-frame-size+1 = {} bytes", v.len()), v));
    let v = frame(None, 2, 0, PCH, 0, &body[..body.len() - 1]);
    out.push(rc("size", format!("complete transfer frame of exactly max-frame-size = {} bytes", v.len()), v));
    out
}

fn doff_frame(d: u8, t: u8) -> Vec<u8> {
    let flow = valid_flow();
    let ext = (d as usize * 4).saturating_sub(8);
    frame(None, d, t, PCH, ext, &flow)
}

pub fn doffs() -> Vec<RawCase> {
    (0..=255u8).map(|d| rc("doff", format!("doff {d} type 0, valid flow body"), doff_frame(d, 0))).collect()
}
pub fn types() -> Vec<RawCase> {
    (0..=255u8).map(|t| rc("type", format!("doff 2 type {t}, valid flow body"), doff_frame(2, t))).collect()
}
pub fn grid() -> Vec<RawCase> {
    let mut v = vec![];
    for d in 0..16u8 {
        for t in 0..16u8 {
            if d == 2 || t == 0 {
                continue; // covered by doffs() / types()
            }
            v.push(rc("doff-x-type", format!("doff {d} type {t}, valid flow body"), doff_frame(d, t)));
        }
    }
    // doff pointing beyond the frame
    for d in [3u8, 4, 64, 255] {
        let flow = valid_flow();
        v.push(rc("doff-x-type", format!("doff {d} beyond the end of a {}-byte frame", 8 + flow.len()), frame(None, d, 0, PCH, 0, &flow)));
    }
    v
}

/// real performatives as the peer could send them in the scenario (they reach deep into the engines)
fn seeds() -> Vec<(String, u16, Vec<u8>)> {
    let mut out: Vec<(String, u16, Vec<u8>)> = vec![];
    macro_rules! t {
        ($name:expr, $g:path, $bits:expr, $wrap:path) => {{
            let (x, _, _) = $g((1u64 << $bits) - 1, false);
            out.push((format!("{}(all fields)", $name), PCH, encode_perf(&$wrap(x))));
            let (x, _, _) = $g(0, true);
            out.push((format!("{}(minimal)", $name), PCH, encode_perf(&$wrap(x))));
        }};
    }
    t!("open", typed::gen_open, 9, Performative::Open);
    t!("begin", typed::gen_begin, 5, Performative::Begin);
    t!("attach", typed::gen_attach, 11, Performative::Attach);
    t!("flow", typed::gen_flow, 8, Performative::Flow);
    t!("transfer", typed::gen_transfer, 10, Performative::Transfer);
    t!("disposition", typed::gen_disposition, 4, Performative::Disposition);
    t!("detach", typed::gen_detach, 2, Performative::Detach);
    t!("end", typed::gen_end, 1, Performative::End);
    t!("close", typed::gen_close, 1, Performative::Close);
    // performatives that fit the scenario's channel / handles
    let mut tr = encode_perf(&Performative::Transfer(xfer(H_RCV, Some(0), Some("t0".into()), false)));
    tr.extend_from_slice(&msg("hello"));
    out.push(("transfer(to the receiving link)+message".into(), PCH, tr));
    out.push((
        "flow(credit for the sending link)".into(),
        PCH,
        encode_perf(&Performative::Flow(Flow {
            next_incoming_id: Some(0),
            incoming_window: 1000,
            next_outgoing_id: 0,
            outgoing_window: 1000,
            handle: Some(Handle(H_SND)),
            delivery_count: Some(0),
            link_credit: Some(5),
            available: None,
            drain: false,
            echo: false,
            properties: None,
        })),
    ));
    out.push((
        "disposition(0..1)".into(),
        PCH,
        encode_perf(&Performative::Disposition(Disposition { role: LinkRole::Receiver, first: 0, last: Some(1), settled: true, state: Some(DeliveryState::Accepted(Accepted {})), batchable: false })),
    ));
    out.push(("detach(sending link, closed)".into(), PCH, encode_perf(&Performative::Detach(Detach { handle: Handle(H_SND), closed: true, error: None }))));
    out.push((
        "end(with error)".into(),
        PCH,
        encode_perf(&Performative::End(End { error: Some(definitions::Error::new(AmqpError::InternalError, Some("x".to_string()), None)) })),
    ));
    out.push(("close".into(), 0, encode_perf(&Performative::Close(Close { error: None }))));
    out
}

pub fn seed_count() -> usize {
    seeds().len()
}

/// truncation at every offset; every position overwritten with each of a few bytes, +1 / -1; one byte appended
pub fn corruptions(thorough: bool) -> Vec<RawCase> {
    let subs: &[u8] = if thorough { &[0x00, 0x01, 0x02, 0x7f, 0x80, 0xfe, 0xff, 0x40, 0x45, 0xc0, 0xd0, 0xe0, 0xf0, 0xa1, 0xb1] } else { &[0x00, 0xff, 0x40, 0xd0] };
    let mut out = vec![];
    let mut seen: HashSet<Vec<u8>> = HashSet::new();
    for (name, ch, s) in seeds() {
        let fam = format!("corrupt:{}", name.split('(').next().unwrap_or("?"));
        let mut push = |label: String, body: Vec<u8>, out: &mut Vec<RawCase>| {
            let f = frame(None, 2, 0, ch, 0, &body);
            if seen.insert(f.clone()) {
                out.push(rc(&fam, label, f));
            }
        };
        for cut in 0..s.len() {
            push(format!("{name} truncated to {cut} of {} bytes", s.len()), s[..cut].to_vec(), &mut out);
        }
        for i in 0..s.len() {
            for b in subs {
                if s[i] != *b {
                    let mut c = s.clone();
                    c[i] = *b;
                    push(format!("{name} byte {i} {:#04x}->{:#04x}", s[i], b), c, &mut out);
                }
            }
            for d in [1u8, 0xff] {
                let mut c = s.clone();
                c[i] = c[i].wrapping_add(d);
                push(format!("{name} byte {i} {:#04x}->{:#04x}", s[i], c[i]), c, &mut out);
            }
        }
        let mut c = s.clone();
        c.push(0x40);
        push(format!("{name} + one trailing byte"), c, &mut out);
    }
    out
}

/// size of the header a wrapper of `kind` puts in front of an inner value of `inner` bytes
fn wrap_header(kind: &str, inner: usize, out: Option<&mut Vec<u8>>) -> usize {
    let mut h: Vec<u8> = vec![];
    match kind {
        "list" => {
            if inner + 1 <= 255 {
                h.extend([0xc0, (inner + 1) as u8, 1]);
            } else {
                h.push(0xd0);
                h.extend(((inner + 4) as u32).to_be_bytes());
                h.extend(1u32.to_be_bytes());
            }
        }
        "map" => {
            if inner + 2 <= 255 {
                h.extend([0xc1, (inner + 2) as u8, 2]);
            } else {
                h.push(0xd1);
                h.extend(((inner + 5) as u32).to_be_bytes());
                h.extend(2u32.to_be_bytes());
            }
            h.push(0x40);
        }
        "array" => {
            h.push(0xf0);
            h.extend(((inner + 4) as u32).to_be_bytes());
            h.extend(1u32.to_be_bytes());
        }
        "described" => h.extend([0x00, 0x43]),
        _ => {
            // described(list[ described(list[ ... ]) ]) with the descriptor of `flow`
            h.extend([0x00, 0x53, 0x13, 0xd0]);
            h.extend(((inner + 4) as u32).to_be_bytes());
            h.extend(1u32.to_be_bytes());
        }
    }
    let n = h.len();
    if let Some(o) = out {
        o.extend(h);
    }
    n
}

/// `depth` wrappers of `kind` around a null; None if it would exceed `limit` bytes
fn nest(kind: &str, depth: usize, limit: usize) -> Option<Vec<u8>> {
    // sizes bottom-up, bytes top-down (linear)
    let mut sizes = Vec::with_capacity(depth + 1);
    let mut cur = 1usize;
    sizes.push(cur);
    for _ in 0..depth {
        cur += wrap_header(kind, cur, None);
        if cur > limit {
            return None;
        }
        sizes.push(cur);
    }
    let mut out = Vec::with_capacity(cur);
    for level in (0..depth).rev() {
        wrap_header(kind, sizes[level], Some(&mut out));
    }
    out.push(0x40);
    debug_assert_eq!(out.len(), cur);
    Some(out)
}

/// flow performative whose `properties` map carries `value` under key "k"
fn flow_with_property(value: &[u8]) -> Vec<u8> {
    let mut map = vec![0xa3, 0x01, b'k'];
    map.extend_from_slice(value);
    let mut fields: Vec<u8> = vec![0x43, 0x52, 100, 0x43, 0x52, 100, 0x40, 0x40, 0x40, 0x40, 0x42, 0x42];
    fields.push(0xd1);
    fields.extend(((map.len() + 4) as u32).to_be_bytes());
    fields.extend(2u32.to_be_bytes());
    fields.extend(&map);
    let mut v = vec![0x00, 0x53, 0x13, 0xd0];
    v.extend(((fields.len() + 4) as u32).to_be_bytes());
    v.extend(11u32.to_be_bytes());
    v.extend(&fields);
    v
}

/// nesting bombs up to what a frame of the endpoint's max-frame-size can carry, and huge declared sizes
pub fn bombs(thorough: bool) -> Vec<RawCase> {
    let mut out = vec![];
    let room = LIB_MFS as usize - 8 - 64;
    let depths: Vec<usize> = if thorough { vec![16, 64, 128, 256, 512, 1024, 2048, 4096, 8192, 16384, 21000, 32000] } else { vec![16, 128, 1024, 4096, 8192, 32000] };
    let tr = encode_perf(&Performative::Transfer(xfer(H_RCV, Some(0), Some("bomb".into()), false)));
    for kind in ["list", "map", "array", "described", "described-list"] {
        // deepest that fits
        let mut fit: Vec<usize> = vec![];
        let mut lo = 1usize;
        let mut hi = 40000usize;
        while lo < hi {
            let mid = (lo + hi + 1) / 2;
            if nest(kind, mid, room).is_some() {
                lo = mid;
            } else {
                hi = mid - 1;
            }
        }
        fit.push(lo);
        for d in depths.iter().copied().chain(fit) {
            let Some(b) = nest(kind, d, room) else { continue };
            out.push(rc("bomb", format!("frame body = {kind} nested {d} deep ({} bytes)", b.len()), frame(None, 2, 0, PCH, 0, &b)));
            let f = flow_with_property(&b);
            if f.len() <= room + 40 {
                out.push(rc("bomb", format!("flow.properties value = {kind} nested {d} deep"), frame(None, 2, 0, PCH, 0, &f)));
            }
            // message body of a transfer to the receiving link: decoded when the application calls recv()
            let mut body = tr.clone();
            body.extend_from_slice(&[0x00, 0x53, 0x77]);
            body.extend_from_slice(&b);
            if body.len() <= room + 40 {
                out.push(rc("bomb", format!("transfer payload amqp-value = {kind} nested {d} deep"), frame(None, 2, 0, PCH, 0, &body)));
            }
        }
    }
    for code in [0xa0u8, 0xb0, 0xb1, 0xb3, 0xc0, 0xd0, 0xd1, 0xe0, 0xf0] {
        for n in [0x7fff_ffffu32, 0x8000_0000, 0xffff_ffff, 0x0100_0000, 0x0001_0000] {
            let mut v = vec![code];
            v.extend(n.to_be_bytes());
            v.extend(n.to_be_bytes());
            v.extend([0x40; 8]);
            out.push(rc("huge-size", format!("frame body = constructor {code:#04x} declaring size/count {n}"), frame(None, 2, 0, PCH, 0, &v)));
            // as the field list of a performative
            let mut p = vec![0x00, 0x53, 0x14, 0xd0];
            p.extend(n.to_be_bytes());
            p.extend(n.to_be_bytes());
            p.extend([0x43, 0x43, 0x40, 0x43]);
            out.push(rc("huge-size", format!("transfer whose field list declares size = count = {n} (after {code:#04x} variant)"), frame(None, 2, 0, PCH, 0, &p)));
            // as the value of a flow property and as a message body
            let f = flow_with_property(&v);
            out.push(rc("huge-size", format!("flow.properties value = constructor {code:#04x} declaring {n}"), frame(None, 2, 0, PCH, 0, &f)));
            let mut body = tr.clone();
            body.extend_from_slice(&[0x00, 0x53, 0x77]);
            body.extend_from_slice(&v);
            out.push(rc("huge-size", format!("transfer payload amqp-value = constructor {code:#04x} declaring {n}"), frame(None, 2, 0, PCH, 0, &body)));
        }
    }
    let mut seen: HashSet<Vec<u8>> = HashSet::new();
    out.retain(|c| seen.insert(c.bytes.clone()));
    out
}
