//! C15 - a misbehaving peer cannot crash, wedge or spin an endpoint.
//!
//! Level: exploration.  Exhaustive enumeration of a stated corpus, each case executed on the real stack:
//!   part 1 (frame level)    : size fields 0..=16, 2^31, 2^32-1, 2^24, max-frame-size(+1); every doff byte and
//!                             every type byte with a valid body, the 16x16 grid of small doff x type; every
//!                             single-position corruption (truncation, overwrite, +-1, appended byte) of real
//!                             performatives; nesting bombs up to the frame size; huge declared sizes;
//!   part 2 (protocol level) : a catalogue of protocol-violating performatives (c15_scen.rs `catalogue()`; it also
//!                             holds one control - a heartbeat - that judges the harness, and one protocol-legal
//!                             drain flow that the corruption corpus showed to wedge a link)
//!   part 3 (resumption)     : a link with unsettled deliveries is detached without closing and resumed; the peer's
//!                             answering attach carries a lying `unsettled` map (c15_resume.rs: right / unknown tags x
//!                             received offsets at, beyond and far beyond the end, non-existent sections, terminal and
//!                             transactional states, null x incomplete-unsettled), sender and receiver links;
//!   x endpoint state reached by a conforming history prefix (before/after begin, attach, credit, outstanding
//!     deliveries, in the middle of a multi-frame delivery in either direction, during detach/end/close)
//!   x role (real client against the scripted peer; real listener against the scripted peer as client).
//!
//! Oracle (the statement, permissive readings noted):
//!   (1) no panic in any library task (panics raised by this harness' own code are machinery errors);
//!   (2) never blocks forever: the execution reaches quiescence (no busy spin, no watchdog) and - the statement
//!       quantifies over what the peer SENDS, so after its one bad input the scripted peer behaves conformingly
//!       again: it answers every close/end/detach, grants credit, settles, completes the delivery it had begun -
//!       every pending or subsequent API call on every handle the application owns returns (Ok or Err) within
//!       2 s of virtual time.  "Either ignored or error visible to the application" is read as: no call hangs;
//!       WHICH scope the library shuts down and whether a call on a surviving scope returns Ok or Err is not
//!       judged (recorded in the evidence as the outcome class);
//!   (3) work in proportion: CPU time of the executing thread from injecting the bad input to quiescence <= 2 s (a frame is at most
//!       64 KiB and is normally handled in well under a millisecond), the whole execution <= 2.5 s and inside
//!       the watchdog (quick 2.2 s, thorough 5 s), no single allocation above 64 MiB while the bad input is
//!       processed;
//!   (4) a second, independent connection (real client <-> real listener in the same runtime) completes a
//!       send/receive afterwards.
//! Every case runs in a worker sub-process (one case at a time per worker): a stack overflow or abort kills only
//! the worker and is reported for the case it was executing; a worker whose execution hit the watchdog exits so
//! that the spinning thread dies with it.
#[path = "c15_corpus.rs"]
mod corpus15;
#[path = "c15_scen.rs"]
mod scen15;
#[path = "c15_open.rs"]
mod open15;

use scen15::{catalogue, Bad, Case, Obs, Role, St, ALL_STATES};
use serde_json::{json, Value as J};
use std::collections::{BTreeMap, BTreeSet};
use std::io::{BufRead, BufReader, Write};
use std::process::{Child, ChildStdin, Command, Stdio};
use std::sync::atomic::{AtomicUsize, Ordering};
use std::sync::{mpsc, Arc, Mutex};
use std::time::{Duration, Instant};
use vlib::report::{Ctx, Outcome};
use vlib::runner::{run_exec, Exec, RunCfg, Scenario};
use vlib::util::{hex, unhex};

/// CPU time an execution may take before it is abandoned
const WATCHDOG_QUICK: Duration = Duration::from_millis(2200);
const WATCHDOG_THOROUGH: Duration = Duration::from_secs(5);
/// CPU time the endpoint may spend on one bad input (a frame of at most 64 KiB)
const SLOW_MS: f64 = 2000.0;
const ALLOC_LIMIT: usize = 64 << 20;
/// CPU time a whole execution may take (it normally takes a few milliseconds)
const EXEC_SLOW_MS: f64 = 2500.0;

fn watchdog(thorough: bool) -> Duration {
    if thorough {
        WATCHDOG_THOROUGH
    } else {
        WATCHDOG_QUICK
    }
}

// ------------------------------------------------------------------------------------------ the case list

fn states_protocol(thorough: bool) -> Vec<St> {
    if thorough {
        ALL_STATES.to_vec()
    } else {
        vec![St::Opened, St::Begun, St::AttachPending, St::Credit, St::Unsettled, St::MidIn, St::Ending, St::Closing]
    }
}
fn states_frames(thorough: bool) -> Vec<St> {
    if thorough {
        ALL_STATES.to_vec()
    } else {
        vec![St::Opened, St::Credit, St::Unsettled, St::MidIn]
    }
}

fn raw_corpus(thorough: bool) -> Vec<corpus15::RawCase> {
    let mut v = vec![];
    v.extend(corpus15::sizes());
    v.extend(corpus15::doffs());
    v.extend(corpus15::types());
    v.extend(corpus15::grid());
    v.extend(corpus15::bombs(thorough));
    v.extend(corpus15::corruptions(thorough));
    v
}

fn cases(thorough: bool) -> Vec<Case> {
    let mut out = vec![];
    for state in states_protocol(thorough) {
        for role in [Role::Client, Role::Listener] {
            for i in 0..catalogue().len() {
                out.push(Case { role, state, bad: Bad::Item(i) });
            }
        }
    }
    // the family "resumption with a lying unsettled map": its own scenario (c15_resume.rs); the state tag names
    // the closest state of the grid (sender: outstanding deliveries; receiver: in the middle of a delivery)
    for role in [Role::Client, Role::Listener] {
        for sp in scen15::resume::specs(thorough) {
            let state = if sp.side == scen15::resume::Side::Sender { St::Unsettled } else { St::MidIn };
            out.push(Case { role, state, bad: Bad::Resume(sp) });
        }
    }
    let raws: Vec<(String, String, Arc<Vec<u8>>)> = raw_corpus(thorough).into_iter().map(|r| (r.family, r.label, Arc::new(r.bytes))).collect();
    for state in states_frames(thorough) {
        for role in [Role::Client, Role::Listener] {
            for (family, label, bytes) in &raws {
                out.push(Case { role, state, bad: Bad::Raw { family: family.clone(), label: label.clone(), bytes: bytes.clone() } });
            }
        }
    }
    out
}

fn case_json(c: &Case) -> J {
    let bad = match &c.bad {
        Bad::Item(i) => json!({"item": catalogue()[*i].name}),
        Bad::Raw { family, label, bytes } => json!({"family": family, "label": label, "hex": hex(bytes)}),
        Bad::Resume(sp) => json!({"resume": sp.to_json()}),
    };
    json!({"role": c.role.tag(), "state": c.state.tag(), "bad": bad})
}

fn case_from_json(j: &J) -> Option<Case> {
    let role = Role::from_tag(j.get("role")?.as_str()?)?;
    let state = St::from_tag(j.get("state")?.as_str()?)?;
    let b = j.get("bad")?;
    let bad = if let Some(n) = b.get("item").and_then(|x| x.as_str()) {
        Bad::Item(scen15::item_index(n)?)
    } else if let Some(r) = b.get("resume") {
        Bad::Resume(scen15::resume::RSpec::from_json(r)?)
    } else {
        Bad::Raw {
            family: b.get("family")?.as_str()?.to_string(),
            label: b.get("label")?.as_str()?.to_string(),
            bytes: Arc::new(unhex(b.get("hex")?.as_str()?)?),
        }
    };
    Some(Case { role, state, bad })
}

// ------------------------------------------------------------------------------------------ one execution + oracle

fn run_case(case: &Case, thorough: bool) -> (Exec<Obs>, f64) {
    let c = case.clone();
    let scen: Scenario<Obs> = Arc::new(move || Box::pin(scen15::scenario(c.clone())));
    let cfg = RunCfg { real_timeout: watchdog(thorough), ..RunCfg::none() };
    let ex = run_exec(vec![], &cfg, &scen);
    // "work" is the CPU time of the executing thread: wall-clock time also measures what else the machine does
    let cpu = ex.cpu_ms;
    (ex, cpu)
}

#[derive(Debug, Clone, Default, serde::Serialize, serde::Deserialize)]
struct Res {
    i: usize,
    /// (signature, detail)
    fails: Vec<(String, String)>,
    mach: Option<String>,
    react: String,
    /// probe=outcome,... (error texts cut to their variant)
    api: String,
    ms: f64,
    bad_ms: f64,
    alloc: usize,
    /// the execution ran to its end with the bad input delivered in the intended state
    full: bool,
    /// the worker must be restarted (watchdog: a thread may still be spinning)
    poison: bool,
    crashed: bool,
}

fn harness_panic(p: &str) -> bool {
    p.contains("vcheck/src/") || p.contains("vlib/src/") || p.contains("refamqp/src/")
}

fn panic_class(p: &str) -> String {
    // message without magnitudes, plus the source file (no line number)
    let (m, loc) = p.rsplit_once(" @ ").unwrap_or((p, ""));
    let m: String = m.chars().map(|c| if c.is_ascii_digit() { '#' } else { c }).collect();
    let mut m2 = String::new();
    for c in m.chars() {
        if c == '#' && m2.ends_with('#') {
            continue;
        }
        m2.push(c);
    }
    let file = loc.rsplit_once(':').map(|x| x.0).unwrap_or(loc);
    let file = file.rsplit("/src/").next().unwrap_or(file);
    format!("{} in {}", m2.chars().take(70).collect::<String>(), file)
}

fn api_class(o: &str) -> String {
    if let Some(e) = o.strip_prefix("err:") {
        let v: String = e.chars().take_while(|c| c.is_alphanumeric() || *c == '_').collect();
        format!("err:{v}")
    } else if o.starts_with("skipped") {
        "skipped".into()
    } else {
        o.to_string()
    }
}

fn judge(idx: usize, case: &Case, ex: &Exec<Obs>, wall_ms: f64, thorough: bool) -> Res {
    let mut r = Res { i: idx, ms: wall_ms, ..Default::default() };
    let fam = case.family();
    let obs = ex.out.clone().unwrap_or_default();
    r.react = obs.reaction.clone();
    r.api = obs.api.iter().map(|(p, o)| format!("{p}={}", api_class(o))).collect::<Vec<_>>().join(",");
    r.bad_ms = obs.bad_ms;
    r.alloc = obs.max_alloc;
    r.full = obs.reached && obs.completed;
    let ctx = |obs: &Obs| format!("{}\n  reaction on the wire: {}\n  trace:\n    {}", case.describe(), if obs.reaction.is_empty() { "?" } else { &obs.reaction }, obs.trace.join("\n    "));
    if ex.watchdog {
        r.poison = true;
        r.fails.push((
            format!("disproportionate-work [{fam}]"),
            format!("the execution used more than {:?} of CPU time without finishing (a case normally takes a few milliseconds): the endpoint keeps computing on one input. {}", watchdog(thorough), case.describe()),
        ));
        return r;
    }
    let mut lib_panic = false;
    for p in &ex.panics {
        if harness_panic(p) {
            r.mach = Some(format!("harness panic: {p} [{}]", case.describe()));
        } else {
            lib_panic = true;
            r.fails.push((format!("panic:{} [{fam}]", panic_class(p)), format!("a library task panicked: {p}\n{}", ctx(&obs))));
        }
    }
    if ex.spun {
        r.fails.push((format!("busy-spin [{fam}]"), format!("more than 20000 task polls at one virtual instant: some task spins without ever blocking\n{}", ctx(&obs))));
        return r;
    }
    if ex.out.is_none() {
        if !lib_panic && r.mach.is_none() {
            r.mach = Some(format!("scenario produced no result: panics {:?} [{}]", ex.panics, case.describe()));
        }
        return r;
    }
    if let Some(m) = &obs.machinery {
        r.mach = Some(m.clone());
        return r;
    }
    if wall_ms > EXEC_SLOW_MS && obs.bad_ms <= SLOW_MS {
        r.fails.push((
            format!("disproportionate-work [{fam}]"),
            format!("the execution took {:.0} ms of CPU time (a case normally takes a few milliseconds; the bad input was {} bytes)\n{}", wall_ms, obs.bad_bytes, ctx(&obs)),
        ));
    }
    if obs.bad_ms > SLOW_MS {
        r.fails.push((
            format!("disproportionate-work [{fam}]"),
            format!("processing the bad input ({} bytes) to quiescence took {:.0} ms of CPU time\n{}", obs.bad_bytes, obs.bad_ms, ctx(&obs)),
        ));
    }
    if obs.max_alloc > ALLOC_LIMIT {
        r.fails.push((
            format!("disproportionate-allocation [{fam}]"),
            format!("while processing the bad input ({} bytes) a single allocation of {} bytes was requested\n{}", obs.bad_bytes, obs.max_alloc, ctx(&obs)),
        ));
    }
    let mut hung: Vec<&str> = vec![];
    for (p, o) in &obs.api {
        if o == "hang" && !hung.contains(&p.as_str()) {
            hung.push(p);
        }
    }
    if !hung.is_empty() {
        r.fails.push((
            // (role, state and the calls that hang are part of the class so that a listed finding covers one
            // wedge, not every hang the same kind of input could ever cause)
            format!("hang [{fam}] {:?}/{:?}: {}", case.role, case.state, hung.join("+")),
            format!(
                "{} did not return within {:?} of virtual time although the peer answered every close/end/detach, granted credit and settled: neither ignored nor an error visible to the application, the calls hang\n{}",
                hung.join(", "),
                scen15::HORIZON,
                ctx(&obs)
            ),
        ));
    }
    if let Some(e) = &obs.bystander {
        r.fails.push((format!("other-connection-affected [{fam}]"), format!("{e}\n{}", ctx(&obs))));
    }
    // the control input judges the harness: a heartbeat must leave everything working
    if fam == "ctl-empty-frame" && r.fails.is_empty() {
        let shutting = matches!(case.state, St::Detaching | St::PeerDetached | St::Ending | St::Closing);
        let bad: Vec<&(String, String)> = obs.api.iter().filter(|(_, o)| o != "ok").collect();
        if obs.reaction != "ignored" || (!shutting && !bad.is_empty()) {
            r.mach = Some(format!("CONTROL failed (a heartbeat must be ignored and every probe must succeed): reaction {} probes {:?}\n{}", obs.reaction, bad, ctx(&obs)));
        }
    }
    r
}

// ------------------------------------------------------------------------------------------ worker sub-process

fn worker_main(thorough: bool) -> ! {
    let list = cases(thorough);
    let stdin = std::io::stdin();
    let stdout = std::io::stdout();
    let mut line = String::new();
    loop {
        line.clear();
        match stdin.lock().read_line(&mut line) {
            Ok(0) | Err(_) => std::process::exit(0),
            Ok(_) => {}
        }
        for tok in line.split_whitespace() {
            let Ok(idx) = tok.parse::<usize>() else { continue };
            let Some(case) = list.get(idx) else {
                let r = Res { i: idx, mach: Some(format!("worker: no case {idx}")), ..Default::default() };
                let mut o = stdout.lock();
                let _ = writeln!(o, "R {}", serde_json::to_string(&r).unwrap());
                let _ = o.flush();
                continue;
            };
            let (ex, ms) = run_case(case, thorough);
            let r = judge(idx, case, &ex, ms, thorough);
            {
                let mut o = stdout.lock();
                let _ = writeln!(o, "R {}", serde_json::to_string(&r).unwrap());
                let _ = o.flush();
            }
            if r.poison {
                // a thread of this process may still be spinning: die with it
                std::process::exit(0);
            }
        }
    }
}

struct Worker {
    child: Child,
    stdin: ChildStdin,
    rx: mpsc::Receiver<String>,
}

fn spawn_worker(spec: &std::path::Path, thorough: bool) -> Result<Worker, String> {
    let exe = std::env::current_exe().map_err(|e| format!("current_exe: {e}"))?;
    let mut child = Command::new(exe)
        .arg("C15")
        .arg("--tier")
        .arg(if thorough { "thorough" } else { "quick" })
        .arg("--replay")
        .arg(spec)
        .stdin(Stdio::piped())
        .stdout(Stdio::piped())
        .stderr(Stdio::null())
        .spawn()
        .map_err(|e| format!("spawn worker: {e}"))?;
    let stdin = child.stdin.take().ok_or("worker stdin")?;
    let stdout = child.stdout.take().ok_or("worker stdout")?;
    let (tx, rx) = mpsc::channel();
    std::thread::spawn(move || {
        let mut rd = BufReader::new(stdout);
        let mut line = String::new();
        loop {
            line.clear();
            match rd.read_line(&mut line) {
                Ok(0) | Err(_) => break,
                Ok(_) => {
                    if tx.send(line.clone()).is_err() {
                        break;
                    }
                }
            }
        }
    });
    Ok(Worker { child, stdin, rx })
}

/// Run all cases in worker sub-processes.  Returns one result per executed case.
fn sweep(ctx: &Ctx, list: &Arc<Vec<Case>>, thorough: bool, machinery: &Mutex<Vec<String>>) -> (Vec<Res>, bool) {
    let dir = std::env::temp_dir().join(format!("c15-{}", std::process::id()));
    let _ = std::fs::create_dir_all(&dir);
    let spec = dir.join("worker.json");
    if let Err(e) = std::fs::write(&spec, json!({"worker": true, "thorough": thorough}).to_string()) {
        machinery.lock().unwrap().push(format!("cannot write worker spec: {e}"));
        return (vec![], false);
    }
    let next = AtomicUsize::new(0);
    let results: Mutex<Vec<Res>> = Mutex::new(Vec::with_capacity(list.len()));
    let cut = std::sync::atomic::AtomicBool::new(false);
    let deadline = ctx.budget_s * 0.9;
    // the worker's own watchdog counts CPU time and has a wall-clock back-stop of 20 x budget + 2 min (vlib::runner);
    // this outer one only catches a worker that is stuck outside an execution
    let per_case = watchdog(thorough) * 20 + Duration::from_secs(150);
    const BATCH: usize = 1;
    let n_single = list.iter().take_while(|c| !matches!(c.bad, Bad::Raw { .. })).count();
    std::thread::scope(|sc| {
        for _ in 0..ctx.threads.max(1) {
            sc.spawn(|| {
                let mut w: Option<Worker> = None;
                'batches: loop {
                    if ctx.elapsed() > deadline {
                        cut.store(true, Ordering::Relaxed);
                        break;
                    }
                    // protocol-level cases (the first `n_single`) one at a time: the heavy ones spread over all workers
                    let lo = next.fetch_add(1, Ordering::Relaxed);
                    let (lo, hi) = if lo < n_single { (lo, lo + 1) } else { let b = n_single + (lo - n_single) * BATCH; (b, b + BATCH) };
                    if lo >= list.len() {
                        break;
                    }
                    let mut todo: std::collections::VecDeque<usize> = (lo..hi.min(list.len())).collect();
                    let mut respawns = 0;
                    while !todo.is_empty() {
                        if w.is_none() {
                            match spawn_worker(&spec, thorough) {
                                Ok(x) => w = Some(x),
                                Err(e) => {
                                    machinery.lock().unwrap().push(e);
                                    break 'batches;
                                }
                            }
                        }
                        let wk = w.as_mut().unwrap();
                        let line = todo.iter().map(|i| i.to_string()).collect::<Vec<_>>().join(" ");
                        let mut dead = writeln!(wk.stdin, "{line}").and_then(|_| wk.stdin.flush()).is_err();
                        let mut timed_out = false;
                        while !dead && !todo.is_empty() {
                            match wk.rx.recv_timeout(per_case) {
                                Ok(l) => {
                                    let Some(js) = l.strip_prefix("R ") else { continue };
                                    match serde_json::from_str::<Res>(js.trim()) {
                                        Ok(r) => {
                                            if Some(&r.i) == todo.front() {
                                                todo.pop_front();
                                            }
                                            let poison = r.poison;
                                            results.lock().unwrap().push(r);
                                            if poison {
                                                dead = true;
                                                // expected exit, no crash
                                                let _ = wk.child.wait();
                                                w = None;
                                                break;
                                            }
                                        }
                                        Err(e) => machinery.lock().unwrap().push(format!("worker line not understood: {e}: {}", &l[..l.len().min(200)])),
                                    }
                                }
                                Err(mpsc::RecvTimeoutError::Timeout) => {
                                    dead = true;
                                    timed_out = true;
                                }
                                Err(mpsc::RecvTimeoutError::Disconnected) => {
                                    dead = true;
                                }
                            }
                        }
                        if dead && w.is_some() {
                            // the worker died (or got stuck) while executing the first case still to do
                            let mut wk = w.take().unwrap();
                            // stdout closed = the process is gone or going (wait for its status); no output
                            // within the time limit = stuck (kill it)
                            let stuck = timed_out;
                            if stuck {
                                let _ = wk.child.kill();
                            }
                            let status = wk.child.wait().map(|s| format!("{s}")).unwrap_or_else(|e| format!("{e}"));
                            if let Some(i) = todo.pop_front() {
                                let case = &list[i];
                                let fam = case.family();
                                let (sig, what) = if stuck {
                                    (format!("disproportionate-work [{fam}]"), format!("the worker process produced no result within {per_case:?} and was killed"))
                                } else {
                                    (format!("process-crash [{fam}]"), format!("the worker process died ({status}) while executing the case: a stack overflow, abort or fatal signal inside the endpoint"))
                                };
                                results.lock().unwrap().push(Res { i, fails: vec![(sig, format!("{what}. {}", case.describe()))], crashed: true, ..Default::default() });
                            }
                            respawns += 1;
                            if respawns > BATCH + 2 {
                                machinery.lock().unwrap().push("worker keeps dying".into());
                                break 'batches;
                            }
                        }
                    }
                }
                if let Some(mut wk) = w.take() {
                    drop(wk.stdin);
                    let _ = wk.child.wait();
                }
            });
        }
    });
    let _ = std::fs::remove_dir_all(&dir);
    let mut v = results.into_inner().unwrap();
    v.sort_by_key(|r| r.i);
    (v, !cut.load(Ordering::Relaxed))
}

// ------------------------------------------------------------------------------------------ run

fn state_rank(s: St) -> usize {
    ALL_STATES.iter().position(|x| *x == s).unwrap_or(99)
}

pub fn run(ctx: &Ctx) -> Outcome {
    scen15::set_alloc_hooks(crate::alloc_track::start, crate::alloc_track::stop);
    let thorough = !ctx.quick();
    if let Some(p) = &ctx.replay {
        return replay(p, thorough);
    }
    let mut out = Outcome::new("exploration");
    let t_gen = Instant::now();
    let list = Arc::new(cases(thorough));
    let gen_s = t_gen.elapsed().as_secs_f64();
    let machinery = Mutex::new(vec![]);
    let (results, complete) = sweep(ctx, &list, thorough, &machinery);
    out.machinery_errors.extend(machinery.into_inner().unwrap());

    if let Ok(p) = std::env::var("VERIF_C15_DUMP") {
        let mut s = String::new();
        for r in &results {
            s.push_str(&json!({"case": list[r.i].describe(), "react": r.react, "api": r.api, "ms": r.ms, "bad_ms": r.bad_ms, "alloc": r.alloc, "full": r.full, "fails": r.fails.iter().map(|f| f.0.clone()).collect::<Vec<_>>()}).to_string());
            s.push('\n');
        }
        let _ = std::fs::write(p, s);
    }
    // ---- aggregate
    let mut violations: Vec<(usize, usize, String, String, J)> = vec![];
    let mut classes: BTreeSet<(String, &'static str, &'static str, String)> = BTreeSet::new();
    let mut reactions: BTreeMap<String, u64> = BTreeMap::new();
    let mut by_part: BTreeMap<&'static str, u64> = BTreeMap::new();
    let mut by_state: BTreeMap<&'static str, u64> = BTreeMap::new();
    let mut api_hist: BTreeMap<String, u64> = BTreeMap::new();
    let mut families: BTreeSet<String> = BTreeSet::new();
    let mut resume_hist: BTreeMap<String, u64> = BTreeMap::new();
    let (mut full, mut hangs, mut watchdogs, mut crashes, mut machs) = (0u64, 0u64, 0u64, 0u64, 0u64);
    let (mut max_bad_ms, mut max_ms, mut max_alloc) = (0f64, 0f64, 0usize);
    for r in &results {
        let case = &list[r.i];
        let fam = case.family();
        *by_part
            .entry(match case.bad {
                Bad::Item(_) => "protocol-level",
                Bad::Resume(_) => "resumption-with-lying-unsettled-map",
                Bad::Raw { .. } => "frame-level",
            })
            .or_insert(0) += 1;
        families.insert(fam.clone());
        if let Some(m) = &r.mach {
            machs += 1;
            if machs <= 5 {
                out.machinery_errors.push(m.clone());
            }
        }
        if let (Bad::Resume(sp), true) = (&case.bad, r.full) {
            // what resume() returned, per side of the link (the first probe of the family)
            let first = r.api.split(',').next().unwrap_or("").to_string();
            *resume_hist.entry(format!("{} {}", case.role.tag(), first)).or_insert(0) += 1;
            let _ = sp;
        }
        if r.full {
            full += 1;
            *by_state.entry(case.state.tag()).or_insert(0) += 1;
            classes.insert((fam.clone(), case.role.tag(), case.state.tag(), r.react.clone()));
            // reaction without the condition detail for the histogram
            *reactions.entry(r.react.clone()).or_insert(0) += 1;
            for kv in r.api.split(',').filter(|s| !s.is_empty()) {
                let o = kv.rsplit('=').next().unwrap_or("");
                let o = if o.starts_with("err") { "err" } else { o };
                *api_hist.entry(o.to_string()).or_insert(0) += 1;
            }
        }
        if r.poison {
            watchdogs += 1;
        }
        if r.crashed {
            crashes += 1;
        }
        if !r.poison && !r.crashed {
            max_bad_ms = max_bad_ms.max(r.bad_ms);
            max_ms = max_ms.max(r.ms);
        }
        max_alloc = max_alloc.max(r.alloc);
        for (sig, detail) in &r.fails {
            if sig.starts_with("hang ") {
                hangs += 1;
            }
            violations.push((state_rank(case.state), r.i, sig.clone(), detail.clone(), json!({"case": case_json(case)})));
        }
    }
    if machs > 5 {
        out.machinery_errors.push(format!("... and {} more machinery errors", machs - 5));
    }
    // minimal case of each class first: earliest state, then list order
    violations.sort_by(|a, b| (a.0, a.1).cmp(&(b.0, b.1)));
    for (_, _, sig, detail, rep) in violations {
        out.violation(sig, detail, rep);
    }

    // ---- the open stage (in this process: every case is a handful of frames)
    let (open_cases, open_distinct) = open15::run(&mut out);
    out.set("open_stage_cases", open_cases);
    out.set("open_stage_distinct_outcomes", open_distinct);
    // ---- samples: re-execute three cases in this process for their traces
    let mut samples: Vec<J> = vec![];
    let mut want: Vec<usize> = vec![];
    let pick = |f: &dyn Fn(&Res, &Case) -> bool| results.iter().find(|r| r.full && r.fails.is_empty() && r.mach.is_none() && f(r, &list[r.i])).map(|r| r.i);
    if let Some(i) = pick(&|r, c| matches!(c.bad, Bad::Item(_)) && r.react.starts_with("end(")) {
        want.push(i);
    }
    if let Some(i) = pick(&|r, c| matches!(c.bad, Bad::Item(_)) && r.react.starts_with("detach(")) {
        want.push(i);
    }
    if let Some(i) = pick(&|r, c| matches!(c.bad, Bad::Raw { .. }) && c.state == St::Credit && r.react.starts_with("close(")) {
        want.push(i);
    }
    if let Some(i) = pick(&|r, c| matches!(c.bad, Bad::Resume(sp) if sp.side == scen15::resume::Side::Sender && sp.lie == scen15::resume::Lie::RecvLenP1 && sp.tags == scen15::resume::Tags::Right) && r.react.contains("transfer")) {
        want.truncate(2);
        want.push(i);
    }
    if want.len() < 3 {
        if let Some(i) = pick(&|_, _| true) {
            want.push(i);
        }
    }
    for i in want {
        let (ex, _) = run_case(&list[i], thorough);
        if let Some(o) = ex.out {
            samples.push(json!({"case": list[i].describe(), "reaction": o.reaction, "probes": o.api.iter().map(|(p, r)| format!("{p} -> {r}")).collect::<Vec<_>>(), "trace": o.trace}));
        }
    }

    let n_raw = list.iter().filter(|c| matches!(c.bad, Bad::Raw { .. })).count() / (states_frames(thorough).len() * 2).max(1);
    out.set("evaluations", results.len() as u64);
    out.set("cases_in_bound", list.len() as u64);
    out.set("distinct_nontrivial", classes.len() as u64);
    out.set(
        "rule",
        "an evaluation = one (role, state, bad input) case executed on the real stack with all probes; distinct_nontrivial counts distinct (input family or catalogue item, role, state, wire reaction of the endpoint) tuples among the executions in which the state prefix was verified (window/credit/pending call really in place), the bad input was delivered in that state and every probe ran",
    );
    out.set("exhaustive", complete && results.len() == list.len());
    out.set(
        "bound",
        format!(
            "protocol level: {} catalogue items x states {:?} x 2 roles; resumption with a lying unsettled map: {} cases (sender|receiver link x 3 sets of unsettled deliveries x {{right tag(s), unknown tag, both}} x 16 delivery states + no map + empty map x incomplete-unsettled false|true) x 2 roles; frame level: {} byte strings (sizes, 256 doff, 256 type, doff x type grid, bombs, single-position corruptions of {} seed performatives) x states {:?} x 2 roles",
            catalogue().len(),
            states_protocol(thorough).iter().map(|s| s.tag()).collect::<Vec<_>>(),
            scen15::resume::specs(thorough).len(),
            n_raw,
            corpus15::seed_count(),
            states_frames(thorough).iter().map(|s| s.tag()).collect::<Vec<_>>()
        ),
    );
    out.set("samples", J::Array(samples));
    out.set("executions_full", full);
    out.set("by_part", json!(by_part));
    out.set("executions_by_state_reached", json!(by_state));
    out.set("wire_reactions", json!(reactions));
    out.set("probe_outcomes", json!(api_hist));
    out.set("input_families", families.len() as u64);
    out.set("resumption_family_resume_call_outcomes", json!(resume_hist));
    out.set("hang_findings", hangs);
    out.set("watchdog_cases", watchdogs);
    out.set("worker_crashes", crashes);
    out.set("max_real_ms_bad_input", (max_bad_ms * 10.0).round() / 10.0);
    out.set("max_real_ms_execution", (max_ms * 10.0).round() / 10.0);
    out.set("max_single_allocation_bytes", max_alloc as u64);
    out.set("case_generation_s", (gen_s * 100.0).round() / 100.0);
    out.assume("after its one bad input the scripted peer behaves conformingly and helpfully (answers every close/end/detach, grants credit, settles, completes its started delivery): the property quantifies over what the peer sends, not over what it withholds");
    out.assume("virtual time (paused tokio clock), default task schedule; a pending API call counts as hung after 2 s of virtual time with the peer answering at every quiescent point");
    out.assume("real-time budgets: 2 s per bad input, watchdog per execution; allocation budget 64 MiB per request (frames are at most 64 KiB)");
    out
}

fn replay(p: &std::path::Path, thorough: bool) -> Outcome {
    let mut out = Outcome::new("exploration");
    let j: J = match std::fs::read_to_string(p).map_err(|e| e.to_string()).and_then(|s| serde_json::from_str(&s).map_err(|e| e.to_string())) {
        Ok(j) => j,
        Err(e) => {
            out.machinery_errors.push(format!("cannot read replay {}: {e}", p.display()));
            return out;
        }
    };
    if j.get("worker").and_then(|w| w.as_bool()) == Some(true) {
        worker_main(j.get("thorough").and_then(|t| t.as_bool()).unwrap_or(thorough));
    }
    let cj = j.get("replay").and_then(|r| r.get("case")).or_else(|| j.get("case")).cloned().unwrap_or(J::Null);
    let Some(case) = case_from_json(&cj) else {
        out.machinery_errors.push("replay file has no understandable case".into());
        return out;
    };
    println!("replaying: {}", case.describe());
    let (ex, ms) = run_case(&case, thorough);
    if let Some(o) = &ex.out {
        for l in &o.trace {
            println!("{l}");
        }
        println!("reaction: {}  bad input processed in {:.2} ms real, largest allocation {} bytes", o.reaction, o.bad_ms, o.max_alloc);
    }
    println!("execution: {:.1} ms real, watchdog={} spun={} panics={:?}", ms, ex.watchdog, ex.spun, ex.panics);
    let r = judge(0, &case, &ex, ms, thorough);
    if let Some(m) = r.mach {
        out.machinery_errors.push(m);
    }
    for (sig, detail) in r.fails {
        out.violation(sig, detail, json!({"case": case_json(&case)}));
    }
    out
}
