//! C03 - wire codec round-trip: decode(encode(x)) == x for every value of the bounded grammar and
//! every typed protocol item with every presence subset of its optional fields.
use crate::typed;
use serde_amqp::Value;
use serde_json::json;
use std::collections::HashSet;
use std::sync::Mutex;
use vlib::corpus;
use vlib::report::{Ctx, Outcome};
use vlib::util::{catch, h64, hex, par_map};

pub struct Fail {
    pub sig: String,
    pub detail: String,
}

/// the round-trip oracle for one untyped value (raw: signature = kind + shape of `v`)
fn check_value_raw(v: &Value) -> Vec<Fail> {
    let mut fails = vec![];
    let shape = corpus::shape(v);
    let enc = match catch(|| serde_amqp::to_vec(v)) {
        Err(p) => {
            fails.push(Fail {
                sig: format!("encode-panic {shape}"),
                detail: format!("to_vec panicked: {p}"),
            });
            return fails;
        }
        Ok(Err(e)) => {
            fails.push(Fail {
                sig: format!("encode-error {shape}"),
                detail: format!("to_vec failed on a valid value: {e}"),
            });
            return fails;
        }
        Ok(Ok(b)) => b,
    };
    match catch(|| serde_amqp::from_slice::<Value>(&enc)) {
        Err(p) => fails.push(Fail {
            sig: format!("decode-panic {shape}"),
            detail: format!("from_slice panicked on the library's own encoding {}: {p}", hex(&enc)),
        }),
        Ok(Err(e)) => fails.push(Fail {
            sig: format!("decode-error {shape}"),
            detail: format!("from_slice rejects the library's own encoding {}: {e}", hex(&enc)),
        }),
        Ok(Ok(back)) => {
            if &back != v {
                fails.push(Fail {
                    sig: format!("roundtrip {shape}"),
                    detail: format!(
                        "decode(encode(x)) != x: x={} bytes={} decoded={}",
                        trunc(&format!("{:?}", v)),
                        hex(&enc),
                        trunc(&format!("{:?}", back))
                    ),
                });
            }
        }
    }
    match catch(|| serde_amqp::from_reader::<Value>(std::io::Cursor::new(&enc))) {
        Err(p) => fails.push(Fail {
            sig: format!("decode-panic(reader) {shape}"),
            detail: format!("from_reader panicked on {}: {p}", hex(&enc)),
        }),
        Ok(Err(e)) => fails.push(Fail {
            sig: format!("decode-error(reader) {shape}"),
            detail: format!("from_reader rejects the library's own encoding {}: {e}", hex(&enc)),
        }),
        Ok(Ok(back)) => {
            if &back != v {
                fails.push(Fail {
                    sig: format!("roundtrip(reader) {shape}"),
                    detail: format!("from_reader(encode(x)) != x: x={} bytes={}", trunc(&format!("{:?}", v)), hex(&enc)),
                });
            }
        }
    }
    fails
}

fn children(v: &Value) -> Vec<&Value> {
    match v {
        Value::List(l) => l.iter().collect(),
        Value::Array(a) => a.0.iter().collect(),
        Value::Map(m) => m.iter().flat_map(|(k, v)| [k, v]).collect(),
        Value::Described(d) => vec![&d.value],
        _ => vec![],
    }
}

/// smallest sub-value of `v` that fails on its own (so that one root cause gives one signature)
pub fn minimal_failing(v: &Value) -> Value {
    for c in children(v) {
        if !check_value_raw(c).is_empty() {
            return minimal_failing(c);
        }
    }
    v.clone()
}

/// Known structural root cause: arrays whose elements are compound or described values.
fn array_of_compound(v: &Value) -> Option<&'static str> {
    if let Value::Array(a) = v {
        return match a.0.first() {
            Some(Value::List(_)) => Some("array-of-list"),
            Some(Value::Map(_)) => Some("array-of-map"),
            Some(Value::Array(_)) => Some("array-of-array"),
            Some(Value::Described(_)) => Some("array-of-described"),
            _ => None,
        };
    }
    None
}

/// the round-trip oracle for one untyped value; failures are attributed to the smallest failing
/// sub-value and slice/reader variants of the same failure are merged
pub fn check_value(v: &Value) -> Vec<Fail> {
    let raw = check_value_raw(v);
    if raw.is_empty() {
        return raw;
    }
    let m = minimal_failing(v);
    let mraw = if &m == v { raw } else { check_value_raw(&m) };
    let mut out: Vec<Fail> = vec![];
    for f in mraw {
        // (the family is looked for anywhere inside the minimal failing value: an array of empty lists decodes
        // "fine" on its own and only corrupts the sibling that follows it)
        let sig = match array_of_compound(&m).or_else(|| crate::c05::array_of_compound(&m)) {
            Some(k) => k.to_string(),
            None => f.sig.replace("(reader)", ""),
        };
        if !out.iter().any(|o| o.sig == sig) {
            out.push(Fail { sig, detail: f.detail });
        }
    }
    out
}

pub fn trunc(s: &str) -> String {
    if s.len() > 300 {
        let mut e = 300;
        while !s.is_char_boundary(e) {
            e -= 1;
        }
        format!("{}..", &s[..e])
    } else {
        s.to_string()
    }
}

fn nontrivial(v: &Value) -> bool {
    !matches!(
        v,
        Value::Null
            | Value::Bool(_)
            | Value::Ubyte(_)
            | Value::Ushort(_)
            | Value::Byte(_)
            | Value::Short(_)
            | Value::Float(_)
            | Value::Double(_)
            | Value::Decimal32(_)
            | Value::Decimal64(_)
            | Value::Decimal128(_)
            | Value::Char(_)
            | Value::Timestamp(_)
            | Value::Uuid(_)
    )
}

pub fn run(ctx: &Ctx) -> Outcome {
    let mut out = Outcome::new("exploration");
    if let Some(p) = &ctx.replay {
        return replay(ctx, p, out);
    }
    let depth = if ctx.quick() { 3 } else { 4 };
    let vals = corpus::values(depth);
    let distinct = Mutex::new(HashSet::<u64>::new());
    let res = par_map(&vals, ctx.threads, |_, v| {
        let f = check_value(v);
        if nontrivial(v) {
            if let Ok(Ok(b)) = catch(|| serde_amqp::to_vec(v)) {
                distinct.lock().unwrap().insert(h64(&b));
            }
        }
        f
    });
    let mut evals = vals.len() as u64;
    for (v, fs) in vals.iter().zip(res) {
        for f in fs {
            let rb = refamqp::encode_widest(&corpus::value_to_rval(v));
            out.violation(f.sig, f.detail, json!({"kind": "value", "ref_encoding_hex": hex_full(&rb)}));
        }
    }
    // sibling leak: every value as 2nd element of a list after every representative leaf
    // (serializer mode flags must not leak between siblings)
    let reps = corpus::reps();
    let subjects: Vec<Value> = if ctx.quick() { corpus::values(2) } else { corpus::values(3) };
    let pairs: Vec<(usize, usize)> = (0..subjects.len()).flat_map(|i| (0..reps.len()).map(move |j| (i, j))).collect();
    let res = par_map(&pairs, ctx.threads, |_, (i, j)| {
        let v = Value::List(vec![reps[*j].clone(), subjects[*i].clone()]);
        let f = check_value(&v);
        let m = Value::Map({
            let mut m = serde_amqp::primitives::OrderedMap::new();
            m.insert(reps[*j].clone(), subjects[*i].clone());
            m
        });
        let mut f2 = check_value(&m);
        let mut f = f;
        f.append(&mut f2);
        f
    });
    evals += 2 * pairs.len() as u64;
    for ((i, j), fs) in pairs.iter().zip(res) {
        for f in fs {
            let v = Value::List(vec![reps[*j].clone(), subjects[*i].clone()]);
            let rb = refamqp::encode_widest(&corpus::value_to_rval(&v));
            out.violation(
                f.sig,
                f.detail,
                json!({"kind": "value", "ref_encoding_hex": hex_full(&rb)}),
            );
        }
    }
    // typed items
    let t = typed::run_roundtrip(ctx);
    evals += t.evaluations;
    for f in t.fails {
        out.violation(f.0, f.1, f.2);
    }
    let d = distinct.into_inner().unwrap().len() as u64 + t.distinct;
    out.set("evaluations", evals);
    out.set("distinct_nontrivial", d);
    out.set("rule", "values: every value of the bounded grammar (vlib::corpus: ~120 boundary leaves; level-1/2/3 compounds over one representative per type incl. every compound type, count/size width boundaries 254..257) + every value as sibling after each of 25 representative leaves in a list and as map value; typed: every protocol composite x every presence subset of its optional fields (x default/non-default representative). Non-trivial = variable-width or compound value / typed item; distinct = distinct encoded byte strings");
    out.set("exhaustive", true);
    out.set("bound", format!("grammar depth {depth}; typed presence subsets: all 2^n"));
    out.set("typed_items", t.evaluations);
    out.set("typed_types", json!(t.types));
    let samples: Vec<String> = vals
        .iter()
        .rev()
        .step_by(vals.len() / 5 + 1)
        .take(5)
        .map(|v| format!("{} -> {}", trunc(&format!("{:?}", v)), hex(&serde_amqp::to_vec(v).unwrap_or_default())))
        .collect();
    out.set("samples", json!(samples.into_iter().chain(t.samples.into_iter()).collect::<Vec<_>>()));
    out.assume("values outside the boundary representatives of the grammar are not covered");
    out.assume("equality is the library's own PartialEq on Value (floats compared by OrderedFloat, NaN == NaN) / Debug rendering for typed items");
    out
}

pub fn hex_full(b: &[u8]) -> String {
    b.iter().map(|x| format!("{:02x}", x)).collect()
}

fn replay(_ctx: &Ctx, p: &std::path::Path, mut out: Outcome) -> Outcome {
    let Ok(s) = std::fs::read_to_string(p) else {
        out.machinery_errors.push(format!("cannot read {}", p.display()));
        return out;
    };
    let j: serde_json::Value = serde_json::from_str(&s).unwrap_or_default();
    let r = &j["replay"];
    match r["kind"].as_str() {
        Some("value") => {
            let b = vlib::util::unhex(r["ref_encoding_hex"].as_str().unwrap_or("")).unwrap_or_default();
            let Ok(rv) = refamqp::decode_all(&b) else {
                out.machinery_errors.push("replay: reference encoding does not decode".into());
                return out;
            };
            let Some(v) = corpus::rval_to_value(&rv) else {
                out.machinery_errors.push("replay: not convertible".into());
                return out;
            };
            println!("replaying value {}", trunc(&format!("{:?}", v)));
            for f in check_value(&v) {
                println!("  FAIL {}: {}", f.sig, f.detail);
                out.violation(f.sig, f.detail, r.clone());
            }
        }
        Some("typed") | Some("typed-sweep") => {
            for f in typed::replay_one(r) {
                println!("  FAIL {}: {}", f.0, f.1);
                out.violation(f.0, f.1, f.2);
            }
        }
        _ => out.machinery_errors.push("replay: unknown kind".into()),
    }
    out.set("evaluations", 1);
    out.set("distinct_nontrivial", 0);
    out.set("rule", "replay");
    out.set("samples", json!([r]));
    out
}
