//! C02 - settlement: each send resolves once, with its own delivery's outcome.
//!
//! Part A (sender side, history search): a real client with TWO `Sender` links on one session against the
//! scripted receiver.  Four deliveries are put in flight (link A: ids 0 and 3, link B: ids 1 and 2, so that the
//! ids of the two links interleave: 1..2 lies on one link, 0..1 and 2..3 span both), then every history of
//! peer events (dispositions for single ids / ranges / unknown ids, settled or not, every delivery state, plus
//! "the application sends one more message on link A / B") is executed on a fresh real stack, for every
//! snd-settle-mode x rcv-settle-mode pair.  Oracle: the statement of C02 (see `ModelA::judge`).
//!
//! Part B (receiver side, history search): `c02_rx.rs` - a real `Receiver` against a scripted sender.
//!
//! Part C (schedule exploration): real client senders against a real listener whose receiver accepts at once;
//! every schedule within the deviation bound; every send must resolve `accepted`.
//!
//! "Exactly once": a `DeliveryFut` is a Rust future, so "never twice" holds by construction of the API (a
//! completed future is not polled again); what is checked is that every future completes when - and not
//! before - the first terminal disposition covering its own delivery-id arrives, and with that state.
#[path = "c02_rx.rs"]
mod rx;
#[path = "c02_lsn.rs"]
mod lsn;

use crate::scen;
use fe2o3_amqp::acceptor::{ConnectionAcceptor, LinkAcceptor, LinkEndpoint, SessionAcceptor};
use fe2o3_amqp::link::Sender;
use fe2o3_amqp::{Connection, Sendable, Session};
use fe2o3_amqp_types::definitions::{self, AmqpError, ReceiverSettleMode, Role, SenderSettleMode};
use fe2o3_amqp_types::messaging::{Accepted, DeliveryState, Message, Modified, Outcome as AmqpOutcome, Received, Rejected, Released};
use fe2o3_amqp_types::performatives::*;
use fe2o3_amqp_types::primitives::Value;
use serde::{Deserialize, Serialize};
use serde_json::json;
use std::collections::{BTreeMap, BTreeSet};
use std::sync::atomic::{AtomicU64, Ordering};
use std::sync::{Arc, Mutex};
use std::time::{Duration, Instant};
use vlib::explore::{explore, Bounds};
use vlib::history::{search, HistOut};
use vlib::peer::{drive, settle, Auto, Body, Dirn, Peer, WFrame};
use vlib::report::{Ctx, Outcome};
use vlib::runner::{run_exec, RunCfg, Scenario};
use vlib::tape::Kind;
use vlib::util::h64;
use vlib::vpipe::Pipe;

/// horizon for library calls that complete without waiting for the peer's decision
pub const SHORT: Duration = Duration::from_millis(30);

// ------------------------------------------------------------------------------------------------
// configuration and events
// ------------------------------------------------------------------------------------------------

#[derive(Debug, Clone, Copy, PartialEq, Eq, Hash, Serialize, Deserialize)]
pub enum Snd {
    Settled,
    Unsettled,
    Mixed,
}
#[derive(Debug, Clone, Copy, PartialEq, Eq, Hash, Serialize, Deserialize)]
pub enum Rcv {
    First,
    Second,
}
impl Snd {
    fn mode(self) -> SenderSettleMode {
        match self {
            Snd::Settled => SenderSettleMode::Settled,
            Snd::Unsettled => SenderSettleMode::Unsettled,
            Snd::Mixed => SenderSettleMode::Mixed,
        }
    }
}
impl Rcv {
    pub fn mode(self) -> ReceiverSettleMode {
        match self {
            Rcv::First => ReceiverSettleMode::First,
            Rcv::Second => ReceiverSettleMode::Second,
        }
    }
}

#[derive(Debug, Clone, Copy, PartialEq, Eq, Hash, Serialize, Deserialize)]
pub enum St {
    Acc,
    Rej,
    Rel,
    Mod,
    /// `received`: not a terminal state
    Rcvd,
}

#[derive(Debug, Clone, Copy, PartialEq, Eq, Hash, Serialize, Deserialize)]
pub enum Ev {
    /// the scripted receiver sends disposition(role=receiver, first..last, settled, state); ids are relative
    /// to the delivery-id of the first delivery of the scenario
    D { first: u32, last: u32, settled: bool, st: St },
    /// the application sends one more message on link A / link B
    SendA,
    SendB,
}

fn d(first: u32, last: u32, settled: bool, st: St) -> Ev {
    Ev::D { first, last, settled, st }
}

impl Ev {
    fn name(&self) -> String {
        match self {
            Ev::D { first, last, settled, st } => {
                if first == last {
                    format!("disp({first},{},{st:?})", if *settled { "settled" } else { "unsettled" })
                } else {
                    format!("disp({first}..{last},{},{st:?})", if *settled { "settled" } else { "unsettled" })
                }
            }
            Ev::SendA => "sendA".into(),
            Ev::SendB => "sendB".into(),
        }
    }
}

/// The delivery state the scripted receiver puts on the wire for an event.  `rejected` and `modified` carry
/// values that depend on the event's ids so that two different dispositions never carry equal states by accident.
fn wire_state(first: u32, last: u32, st: St) -> DeliveryState {
    match st {
        St::Acc => DeliveryState::Accepted(Accepted {}),
        St::Rej => DeliveryState::Rejected(Rejected {
            error: Some(definitions::Error::new(AmqpError::NotAllowed, Some(format!("rejected-by-peer-{first}-{last}")), None)),
        }),
        St::Rel => DeliveryState::Released(Released {}),
        St::Mod => DeliveryState::Modified(Modified {
            delivery_failed: Some(true),
            undeliverable_here: Some(first % 2 == 0),
            message_annotations: None,
        }),
        St::Rcvd => DeliveryState::Received(Received { section_number: 0, section_offset: 3 }),
    }
}

/// what `send` has to return for a delivery to which the receiver applied this terminal state
fn expected_result(s: &DeliveryState) -> Option<String> {
    let o = match s.clone() {
        DeliveryState::Accepted(a) => AmqpOutcome::Accepted(a),
        DeliveryState::Rejected(r) => AmqpOutcome::Rejected(r),
        DeliveryState::Released(r) => AmqpOutcome::Released(r),
        DeliveryState::Modified(m) => AmqpOutcome::Modified(m),
        _ => return None,
    };
    Some(format!("Ok({:?})", o))
}

/// The event alphabet.  `wide` adds more single-id / flag / state combinations (thorough tier).
/// In rcv-settle-mode second the receiver's dispositions are unsettled (it must not settle before the
/// sender); a few settled ones stay in the alphabet and are enabled only once the sender has settled.
pub fn alphabet(rcv: Rcv, wide: bool) -> Vec<Ev> {
    use St::*;
    let mut v = vec![
        // single ids
        d(1, 1, true, Acc),
        d(1, 1, false, Acc),
        d(0, 0, true, Rel),
        d(3, 3, false, Mod),
        d(2, 2, false, Rej),
        d(2, 2, false, Rcvd),
        // ranges: two deliveries of one link; spanning both links; three; all four
        d(1, 2, false, Acc),
        d(0, 1, true, Rej),
        d(0, 2, true, Acc),
        d(1, 3, false, Rel),
        d(0, 3, true, Acc),
        d(0, 3, false, Rcvd),
        d(2, 3, true, Mod),
        // ids never sent / not sent yet
        d(9, 9, true, Acc),
        d(3, 5, false, Acc),
        d(4, 4, true, Rej),
        Ev::SendA,
        Ev::SendB,
    ];
    if wide {
        v.extend([d(0, 0, false, Rej), d(3, 3, true, Acc), d(2, 2, true, Rel), d(0, 1, false, Mod), d(2, 3, false, Acc), d(0, 3, false, Acc)]);
    }
    if rcv == Rcv::Second {
        let keep_settled = [d(1, 1, true, Acc), d(0, 3, true, Acc)];
        let mut w: Vec<Ev> = vec![];
        for e in v {
            let e2 = match e {
                Ev::D { first, last, settled: true, st } if !keep_settled.contains(&e) => d(first, last, false, st),
                other => other,
            };
            if !w.contains(&e2) {
                w.push(e2);
            }
        }
        v = w;
    }
    v
}

// ------------------------------------------------------------------------------------------------
// the oracle's own bookkeeping (written from the statement)
// ------------------------------------------------------------------------------------------------

#[derive(Debug, Clone)]
struct Dl {
    link: usize,
    /// delivery-id relative to the first delivery of the scenario
    id: u32,
    tag: Vec<u8>,
    presettled: bool,
    /// expected result of `send` = state of the first terminal disposition covering this delivery
    terminal: Option<String>,
    /// the receiver has sent settled=true for it
    peer_settled: bool,
    /// the library's sender has sent a settled disposition covering it
    lib_settled: bool,
    /// the library settled it although the receiver had reported no terminal outcome (already reported)
    settled_early: bool,
}

#[derive(Debug, Clone, Default)]
pub struct Obs {
    pub executed: usize,
    /// (signature, detail, number of events executed when it was detected)
    pub fails: Vec<(String, String, usize)>,
    pub state_keys: Vec<u64>,
    pub trace: Vec<String>,
    pub machinery: Option<String>,
    /// non-vacuity counters
    pub outstanding_at_start: usize,
    pub resolved_acc: usize,
    pub resolved_other: usize,
    pub presettled_immediate: usize,
    pub sender_settles_seen: usize,
    pub attach_unsettled_entries: usize,
    pub final_checked: bool,
}

type Log = Arc<Mutex<Vec<(usize, String)>>>;

fn covered(first: u32, last: u32) -> std::ops::RangeInclusive<u32> {
    first..=last
}

async fn do_send(peer: &mut Peer, sender: &mut Sender, k: usize, settled: Option<bool>, log: &Log) -> Result<(), String> {
    let msg = Message::builder().data(serde_bytes::ByteBuf::from(scen::body(k, 8))).build();
    let sendable = Sendable::builder().message(msg).settled(settled).build();
    match drive(peer, sender.send_batchable(sendable), SHORT).await {
        Some(Ok(fut)) => {
            let log = log.clone();
            tokio::spawn(async move {
                let r = fut.await;
                let s = match r {
                    Ok(o) => format!("Ok({:?})", o),
                    Err(e) => format!("Err({:?})", e),
                };
                log.lock().unwrap().push((k, s));
            });
            Ok(())
        }
        Some(Err(e)) => Err(format!("send_batchable #{k} failed: {e:?}")),
        None => Err(format!("send_batchable #{k} hangs although the link has credit")),
    }
}

/// transfers the library has written so far: (handle, delivery-id, tag, settled flag), one per delivery
fn lib_transfers(trace: &[WFrame]) -> Vec<(u32, Option<u32>, Vec<u8>, bool)> {
    trace
        .iter()
        .filter(|w| w.dir == Dirn::FromLib)
        .filter_map(|w| match &w.body {
            Body::Perf(Performative::Transfer(t)) if t.delivery_tag.is_some() => {
                Some((t.handle.0, t.delivery_id, t.delivery_tag.as_ref().map(|x| x.to_vec()).unwrap_or_default(), t.settled.unwrap_or(false)))
            }
            _ => None,
        })
        .collect()
}

/// `x0`: the session's initial next-outgoing-id, i.e. the delivery-id of the first delivery (ids are serial numbers:
/// with x0 = 2^32-2 the four initial deliveries are 2^32-2, 2^32-1, 0, 1 and the ranges of the alphabet wrap)
pub async fn scenario_a(x0: u32, snd: Snd, rcv: Rcv, events: Vec<Ev>) -> Obs {
    let mut obs = Obs::default();
    let mut auto = Auto::default();
    auto.accept_transfers = false;
    auto.grant_credit = Some(100);
    auto.rcv_settle_mode = Some(rcv.mode());
    auto.incoming_window = 100_000;
    let mut c = match scen::open_client(auto, 512).await {
        Ok(c) => c,
        Err(e) => {
            obs.machinery = Some(e);
            return obs;
        }
    };
    let mut session = match scen::begin(&mut c, Session::builder().next_outgoing_id(x0)).await {
        Ok(s) => s,
        Err(e) => {
            obs.machinery = Some(e);
            return obs;
        }
    };
    let mut senders: Vec<Sender> = vec![];
    for name in ["link-A", "link-B"] {
        let r = drive(
            &mut c.peer,
            Sender::builder().name(name).target("q").sender_settle_mode(snd.mode()).receiver_settle_mode(rcv.mode()).attach(&mut session),
            scen::H,
        )
        .await;
        match r {
            Some(Ok(s)) => senders.push(s),
            other => {
                obs.machinery = Some(format!("attach {name} failed: {:?}", other.map(|r| r.map(|_| ()).map_err(|e| e.to_string()))));
                return obs;
            }
        }
    }
    settle(&mut c.peer, 1).await;
    let handles: Vec<u32> = ["link-A", "link-B"].iter().map(|n| c.peer.links.iter().find(|l| l.name == *n).map(|l| l.lib_handle).unwrap_or(u32::MAX)).collect();
    let log: Log = Default::default();
    // ---- four deliveries in flight: A, B, B, A.  In mode mixed the application chooses per message.
    let initial: [(usize, Option<bool>); 4] = match snd {
        Snd::Mixed => [(0, None), (1, Some(true)), (1, Some(false)), (0, Some(false))],
        _ => [(0, None), (1, None), (1, None), (0, None)],
    };
    let mut sent_links: Vec<usize> = vec![];
    for (k, (link, settled)) in initial.iter().enumerate() {
        if let Err(e) = do_send(&mut c.peer, &mut senders[*link], k, *settled, &log).await {
            obs.machinery = Some(e);
            return obs;
        }
        sent_links.push(*link);
    }
    settle(&mut c.peer, 2).await;
    let mut dls: Vec<Dl> = vec![];
    let mut base = 0u32;
    // (re)read the deliveries from the wire; returns a machinery message if the wire does not show them
    macro_rules! absorb_transfers {
        () => {{
            let ts = lib_transfers(&c.peer.trace);
            let mut err = None;
            if ts.len() != sent_links.len() {
                err = Some(format!("{} sends were started but the wire shows {} deliveries", sent_links.len(), ts.len()));
            } else {
                for (k, (h, id, tag, settled)) in ts.iter().enumerate().skip(dls.len()) {
                    let Some(id) = id else {
                        err = Some(format!("delivery #{k} has no delivery-id on the wire"));
                        break;
                    };
                    if k == 0 {
                        base = *id;
                    }
                    if *h != handles[sent_links[k]] {
                        err = Some(format!("delivery #{k} went out on handle {h}, expected {}", handles[sent_links[k]]));
                        break;
                    }
                    dls.push(Dl {
                        link: sent_links[k],
                        id: id.wrapping_sub(base),
                        tag: tag.clone(),
                        presettled: *settled,
                        terminal: None,
                        peer_settled: false,
                        lib_settled: false,
                        settled_early: false,
                    });
                }
            }
            err
        }};
    }
    if let Some(e) = absorb_transfers!() {
        obs.machinery = Some(e);
        obs.trace = vlib::peer::trace_to_strings(&c.peer.trace);
        return obs;
    }
    for (k, dl) in dls.iter().enumerate() {
        if dl.id != k as u32 {
            obs.machinery = Some(format!("delivery #{k} got relative delivery-id {}", dl.id));
            return obs;
        }
    }
    obs.outstanding_at_start = dls.iter().filter(|x| !x.presettled).count();
    let mut notes: Vec<String> = vec![];
    let mut disp_cursor = 0usize; // index into the wire trace up to which library dispositions were judged
    judge(rcv, &mut dls, &c.peer.trace, &mut disp_cursor, &log, base, "start", None, 0, &mut obs);
    obs.state_keys.push(state_key(&dls, &log));
    // ---- the history
    for (i, ev) in events.iter().enumerate() {
        // enabledness (only protocol-valid receiver behaviour is generated)
        let mut required: Option<BTreeSet<u32>> = None;
        match ev {
            Ev::D { first, last, settled, st } => {
                let ws = wire_state(*first, *last, *st);
                let exp = expected_result(&ws);
                let mut ok = true;
                for dl in dls.iter().filter(|x| !x.presettled && covered(*first, *last).contains(&x.id)) {
                    // a receiver does not replace a terminal outcome it has announced by another state
                    if let Some(t) = &dl.terminal {
                        if exp.as_ref() != Some(t) {
                            ok = false;
                        }
                    }
                    // rcv-settle-mode second: the receiver does not settle before the sender has settled
                    if rcv == Rcv::Second && *settled && !dl.lib_settled {
                        ok = false;
                    }
                    // settled=true always comes with a terminal outcome in this alphabet
                }
                if !ok {
                    break;
                }
                let mut req = BTreeSet::new();
                for dl in dls.iter_mut().filter(|x| !x.presettled && covered(*first, *last).contains(&x.id)) {
                    if dl.terminal.is_none() {
                        dl.terminal = exp.clone();
                    }
                    if *settled {
                        dl.peer_settled = true;
                    }
                    if rcv == Rcv::Second && dl.terminal.is_some() && !*settled && !dl.lib_settled {
                        req.insert(dl.id);
                    }
                }
                required = Some(req);
                let disp = Disposition {
                    role: Role::Receiver,
                    first: base.wrapping_add(*first),
                    last: if first == last { None } else { Some(base.wrapping_add(*last)) },
                    settled: *settled,
                    state: Some(ws),
                    batchable: false,
                };
                let ch = c.peer.our_channel(0);
                c.peer.send(ch, Performative::Disposition(disp));
            }
            Ev::SendA | Ev::SendB => {
                let link = if *ev == Ev::SendA { 0 } else { 1 };
                let settled = match snd {
                    Snd::Mixed => Some(link == 1),
                    _ => None,
                };
                let k = sent_links.len();
                if let Err(e) = do_send(&mut c.peer, &mut senders[link], k, settled, &log).await {
                    obs.machinery = Some(format!("after {:?}: {e}", events[..i].iter().map(|e| e.name()).collect::<Vec<_>>()));
                    break;
                }
                sent_links.push(link);
            }
        }
        settle(&mut c.peer, 2).await;
        if let Some(e) = absorb_transfers!() {
            obs.machinery = Some(e);
            break;
        }
        obs.executed = i + 1;
        notes.push(format!("-- event {}: {}", i + 1, ev.name()));
        judge(rcv, &mut dls, &c.peer.trace, &mut disp_cursor, &log, base, &ev.name(), required, i + 1, &mut obs);
        obs.state_keys.push(state_key(&dls, &log));
    }
    // ---- after the history: what does each side still hold as unsettled?  Non-closing detach + resume and
    // read the `unsettled` map of the library's attach.
    let resolved_before: Vec<(usize, String)> = log.lock().unwrap().clone();
    if obs.machinery.is_none() && obs.executed == events.len() {
        let n = events.len();
        for (li, s) in senders.drain(..).enumerate().collect::<Vec<_>>().into_iter().rev() {
            let name = if li == 0 { "link-A" } else { "link-B" };
            let mark = c.peer.trace.len();
            let det = match drive(&mut c.peer, s.detach(), SHORT).await {
                Some(Ok(d)) => d,
                Some(Err((_, e))) => {
                    obs.machinery = Some(format!("non-closing detach of {name} failed: {e:?}"));
                    break;
                }
                None => {
                    obs.machinery = Some(format!("non-closing detach of {name} hangs"));
                    break;
                }
            };
            // the resume may go on to re-send unsettled deliveries; only its attach frame is looked at
            let resumed = drive(&mut c.peer, det.resume(), SHORT).await;
            settle(&mut c.peer, 1).await;
            let att = c.peer.trace[mark..].iter().find_map(|w| match (&w.body, w.dir) {
                (Body::Perf(Performative::Attach(a)), Dirn::FromLib) if a.name == name => Some(a.clone()),
                _ => None,
            });
            let Some(att) = att else {
                obs.machinery = Some(format!("no attach for {name} on the wire after detach + resume (resume: {:?})", resumed.map(|r| r.is_ok())));
                break;
            };
            let keys: BTreeSet<Vec<u8>> = att.unsettled.as_ref().map(|m| m.keys().map(|k| k.to_vec()).collect()).unwrap_or_default();
            obs.attach_unsettled_entries += keys.len();
            notes.push(format!("-- resume {name}: attach.unsettled tags = {:?}", keys));
            for dl in dls.iter().filter(|x| x.link == li) {
                let held = keys.contains(&dl.tag);
                // settled from the sender's point of view: sent pre-settled, or the receiver settled it, or
                // the sender itself sent the settling disposition
                let is_settled = dl.presettled || dl.peer_settled || dl.lib_settled;
                if is_settled && held && !dl.settled_early {
                    obs.fails.push((
                        "sender-retains-settled-delivery".into(),
                        format!(
                            "delivery {} (tag {:?}) on {name} is settled ({}) but the sender's attach after a non-closing detach + resume still lists it in `unsettled`",
                            dl.id,
                            dl.tag,
                            if dl.presettled { "sent pre-settled" } else if dl.peer_settled { "settled by the receiver" } else { "settled by the sender's own disposition" }
                        ),
                        n,
                    ));
                }
                // Permissive reading: a delivery whose terminal outcome is known but which nobody has settled
                // yet may or may not be listed.  A delivery without any terminal outcome is still unsettled
                // and has to be there.
                if !is_settled && dl.terminal.is_none() && !held {
                    obs.fails.push((
                        "sender-drops-unsettled-delivery".into(),
                        format!(
                            "delivery {} (tag {:?}) on {name} has no outcome yet and is not settled, but the sender's attach after a non-closing detach + resume does not list it in `unsettled` ({:?})",
                            dl.id, dl.tag, keys
                        ),
                        n,
                    ));
                }
            }
        }
        obs.final_checked = obs.machinery.is_none();
    }
    for (_, r) in &resolved_before {
        if r.starts_with("Ok(Accepted") {
            obs.resolved_acc += 1;
        } else if r.starts_with("Ok(") {
            obs.resolved_other += 1;
        }
    }
    obs.fails.sort();
    obs.fails.dedup();
    let mut tr = vec![format!("snd-settle-mode {snd:?}, rcv-settle-mode {rcv:?}; history {:?}", events.iter().map(|e| e.name()).collect::<Vec<_>>())];
    tr.extend(vlib::peer::trace_to_strings(&c.peer.trace).into_iter().filter(|l| !l.contains("HEADER") && !l.contains(" open(") && !l.contains(" begin(")));
    tr.extend(notes);
    tr.push(format!("send results: {:?}", resolved_before));
    obs.trace = tr;
    obs
}

fn state_key(dls: &[Dl], log: &Log) -> u64 {
    let res: BTreeMap<usize, String> = log.lock().unwrap().iter().cloned().collect();
    let v: Vec<(u32, bool, Option<&String>, bool, bool, Option<&String>)> =
        dls.iter().enumerate().map(|(k, x)| (x.id, x.presettled, x.terminal.as_ref(), x.peer_settled, x.lib_settled, res.get(&k))).collect();
    h64(&v)
}

/// Judge the state reached at quiescence after one event (the statement of C02, sender side).
#[allow(clippy::too_many_arguments)]
fn judge(rcv: Rcv, dls: &mut [Dl], trace: &[WFrame], cursor: &mut usize, log: &Log, base: u32, after: &str, required: Option<BTreeSet<u32>>, step: usize, obs: &mut Obs) {
    // (1) dispositions written by the library's sending endpoints in this step
    let mut settled_now: BTreeSet<u32> = BTreeSet::new();
    for w in &trace[*cursor..] {
        if w.dir != Dirn::FromLib {
            continue;
        }
        if let Body::Perf(Performative::Disposition(dp)) = &w.body {
            if dp.role != Role::Sender {
                obs.fails.push((
                    "sender-disposition-wrong-role".into(),
                    format!("after {after}: the client has only sending links but wrote {}", w.short()),
                    step,
                ));
                continue;
            }
            if !dp.settled {
                continue;
            }
            obs.sender_settles_seen += 1;
            let f = dp.first.wrapping_sub(base);
            let l = dp.last.unwrap_or(dp.first).wrapping_sub(base);
            for dl in dls.iter_mut().filter(|x| !x.presettled && covered(f, l).contains(&x.id)) {
                settled_now.insert(dl.id);
                // "the sender sends that settling disposition for every delivery the receiver reported a
                // terminal outcome for" - not for a delivery whose outcome is still open: settling it makes
                // the receiver forget the delivery, so its send can never complete with the receiver's outcome.
                if dl.terminal.is_none() && !dl.peer_settled && !dl.settled_early {
                    dl.settled_early = true;
                    obs.fails.push((
                        "sender-settles-delivery-without-terminal-outcome".into(),
                        format!("after {after}: the sender wrote {} covering delivery {} for which the receiver has reported no terminal outcome", w.short(), dl.id),
                        step,
                    ));
                }
                dl.lib_settled = true;
            }
        }
    }
    *cursor = trace.len();
    // (2) rcv-settle-mode second: every delivery the receiver has just reported a terminal outcome for (unsettled)
    // gets the sender's settling disposition (ranges allowed; ids outside the scenario's deliveries are ignored)
    if let Some(req) = required {
        let missing: Vec<u32> = req.iter().copied().filter(|id| !dls.iter().any(|x| x.id == *id && x.lib_settled)).collect();
        if !missing.is_empty() {
            let done: Vec<u32> = req.iter().copied().filter(|id| !missing.contains(id)).collect();
            // shape of the failure: the ids left out are the tail of the ids concerned / something else
            let shape = if done.iter().all(|x| missing.iter().all(|m| m > x)) { "last-run" } else { "other" };
            obs.fails.push((
                format!("sender-settling-disposition-missing[{shape}]"),
                format!(
                    "rcv-settle-mode second, after {after}: the receiver reported terminal outcomes (unsettled) for deliveries {:?}; the sender wrote a settling disposition (role=sender, settled=true) for {:?} only - none for {:?}; sender dispositions in this step cover {:?}",
                    req, done, missing, settled_now
                ),
                step,
            ));
        }
    }
    let _ = rcv;
    // (3) the send futures
    let res = log.lock().unwrap().clone();
    for (k, dl) in dls.iter().enumerate() {
        let got: Vec<&String> = res.iter().filter(|(kk, _)| *kk == k).map(|(_, r)| r).collect();
        if got.len() > 1 {
            obs.fails.push(("send-resolved-twice".into(), format!("after {after}: send #{k} (delivery {}) completed {} times: {:?}", dl.id, got.len(), got), step));
            continue;
        }
        let accepted = format!("Ok({:?})", AmqpOutcome::Accepted(Accepted {}));
        let want: Option<&String> = if dl.presettled { Some(&accepted) } else { dl.terminal.as_ref() };
        match (want, got.first()) {
            (None, None) => {}
            (Some(w), Some(g)) if *g == w => {
                if dl.presettled && step == 0 {
                    obs.presettled_immediate += 1;
                }
            }
            (None, Some(g)) => obs.fails.push((
                "send-resolved-without-terminal-outcome".into(),
                format!("after {after}: send #{k} (delivery {}) completed with {g} although no terminal disposition has covered its delivery-id", dl.id),
                step,
            )),
            (Some(w), None) => obs.fails.push((
                if dl.presettled { "presettled-send-not-resolved".to_string() } else { "send-not-resolved".to_string() },
                format!(
                    "after {after}: send #{k} (delivery {}{}) is still pending; expected {w}",
                    dl.id,
                    if dl.presettled { ", sent pre-settled" } else { "" }
                ),
                step,
            )),
            (Some(w), Some(g)) => obs.fails.push((
                "send-resolved-with-wrong-outcome".into(),
                format!("after {after}: send #{k} (delivery {}) completed with {g}; the first terminal disposition covering its delivery-id carried {w}", dl.id),
                step,
            )),
        }
    }
}

// ------------------------------------------------------------------------------------------------
// drivers
// ------------------------------------------------------------------------------------------------

/// shortest failing history per signature (ties: smallest), with the number of failing executions
#[derive(Default)]
pub struct Collect {
    pub best: BTreeMap<String, (Vec<String>, serde_json::Value, String, Vec<String>)>,
    pub count: BTreeMap<String, u64>,
}

impl Collect {
    pub fn add(&mut self, sig: &str, names: Vec<String>, replay: serde_json::Value, detail: String, trace: Vec<String>) {
        *self.count.entry(sig.to_string()).or_insert(0) += 1;
        let better = match self.best.get(sig) {
            None => true,
            Some((n, _, _, _)) => (names.len(), &names) < (n.len(), n),
        };
        if better {
            self.best.insert(sig.to_string(), (names, replay, detail, trace));
        }
    }
    pub fn report(self, out: &mut Outcome, prefix: &str) {
        for (sig, (names, replay, detail, trace)) in self.best {
            let n = self.count.get(&sig).copied().unwrap_or(1);
            let mut r = replay;
            r["trace"] = json!(trace);
            out.violation(sig, format!("{prefix} history {:?} ({} failing executions in this class): {detail}", names, n), r);
        }
    }
}

fn run_history_a(x0: u32, snd: Snd, rcv: Rcv, evs: Vec<Ev>) -> (HistOut, Obs) {
    let scen: Scenario<Obs> = {
        let evs = evs.clone();
        Arc::new(move || {
            let evs = evs.clone();
            Box::pin(scenario_a(x0, snd, rcv, evs))
        })
    };
    let ex = run_exec(vec![], &RunCfg::none(), &scen);
    let mut out = HistOut::default();
    let mut o = match ex.out {
        Some(o) => o,
        None => {
            out.executed = evs.len();
            out.machinery = Some(format!("C02/A scenario died ({snd:?},{rcv:?},{:?}): panics {:?} watchdog {}", evs.iter().map(|e| e.name()).collect::<Vec<_>>(), ex.panics, ex.watchdog));
            return (out, Obs::default());
        }
    };
    out.executed = o.executed;
    out.state_keys = o.state_keys.clone();
    out.trace = o.trace.clone();
    out.machinery = o.machinery.take().map(|m| format!("C02/A ({snd:?},{rcv:?},{:?}): {m}", evs.iter().map(|e| e.name()).collect::<Vec<_>>()));
    if ex.spun {
        out.machinery = Some(format!("C02/A busy loop detected ({snd:?},{rcv:?},{:?})", evs.iter().map(|e| e.name()).collect::<Vec<_>>()));
    }
    // a panic inside the library while the peer and the application stay within the quantifier: the engine that
    // died cannot resolve the sends or write the settling dispositions the statement asks for
    if let Some((sig, msg)) = vlib::util::library_panic(&ex.panics) {
        o.fails.push((sig, format!("a library task panicked: {msg}"), o.executed));
        out.machinery = None;
    } else if !ex.panics.is_empty() && out.machinery.is_none() {
        out.machinery = Some(format!("C02/A panic in a task ({snd:?},{rcv:?},{:?}): {:?}", evs.iter().map(|e| e.name()).collect::<Vec<_>>(), ex.panics));
    }
    (out, o)
}

#[derive(Default)]
pub struct Totals {
    pub executions: u64,
    pub states: u64,
    pub transitions: u64,
    pub truncated: bool,
    pub completed: Vec<String>,
    pub cut: Vec<String>,
    pub samples: Vec<Vec<String>>,
}

fn part_a(ctx: &Ctx, deadline: Instant, out: &mut Outcome, tot: &mut Totals) {
    let pairs: Vec<(Snd, Rcv)> = [Snd::Unsettled, Snd::Mixed, Snd::Settled].into_iter().flat_map(|s| [Rcv::First, Rcv::Second].into_iter().map(move |r| (s, r))).collect();
    // (alphabet kind, depth) levels, in the order they are run; lower depths first so that the shortest
    // counterexample of a class is found
    // (initial delivery-id, wide alphabet?, depth); W: the delivery-ids of the scenario cross 2^32
    const W: u32 = u32::MAX - 1;
    let levels: Vec<(u32, bool, usize)> = if ctx.quick() {
        vec![(0, true, 1), (0, true, 2), (W, true, 1), (W, true, 2), (0, true, 3)]
    } else {
        vec![(0, true, 1), (0, true, 2), (W, true, 1), (W, true, 2), (0, true, 3), (W, true, 3), (0, true, 4), (0, false, 5)]
    };
    let collect = Mutex::new(Collect::default());
    let cnt_out3 = AtomicU64::new(0);
    let cnt_acc = AtomicU64::new(0);
    let cnt_other = AtomicU64::new(0);
    let cnt_pre = AtomicU64::new(0);
    let cnt_echo = AtomicU64::new(0);
    let cnt_final = AtomicU64::new(0);
    let cnt_entries = AtomicU64::new(0);
    for (x0, wide, depth) in levels {
        for (snd, rcv) in pairs.iter().copied() {
            // with snd-settle-mode settled every delivery is pre-settled and every disposition refers to an
            // unknown delivery: the deepest levels add nothing there
            let depth_here = if snd == Snd::Settled { depth.min(3) } else { depth };
            if depth_here < depth {
                continue;
            }
            let alpha = alphabet(rcv, wide);
            let label = format!("A:{snd:?}/{rcv:?} depth {depth_here} over {} events{}", alpha.len(), if x0 != 0 { " (ids cross 2^32)" } else { "" });
            if Instant::now() > deadline {
                tot.truncated = true;
                tot.cut.push(label);
                continue;
            }
            let st = search(alpha.len(), depth_here, ctx.threads, deadline, |h| {
                let evs: Vec<Ev> = h.iter().map(|i| alpha[*i]).collect();
                let (mut ho, o) = run_history_a(x0, snd, rcv, evs.clone());
                if o.outstanding_at_start >= 3 {
                    cnt_out3.fetch_add(1, Ordering::Relaxed);
                }
                cnt_acc.fetch_add(o.resolved_acc as u64, Ordering::Relaxed);
                cnt_other.fetch_add(o.resolved_other as u64, Ordering::Relaxed);
                cnt_pre.fetch_add(o.presettled_immediate as u64, Ordering::Relaxed);
                cnt_echo.fetch_add(o.sender_settles_seen as u64, Ordering::Relaxed);
                cnt_final.fetch_add(o.final_checked as u64, Ordering::Relaxed);
                cnt_entries.fetch_add(o.attach_unsettled_entries as u64, Ordering::Relaxed);
                if !o.fails.is_empty() {
                    let mut c = collect.lock().unwrap();
                    for (sig, detail, step) in &o.fails {
                        let pre: Vec<Ev> = evs[..(*step).min(evs.len())].to_vec();
                        let names: Vec<String> = pre.iter().map(|e| e.name()).collect();
                        c.add(sig, names.clone(), json!({"part": "A", "x0": x0, "snd": snd, "rcv": rcv, "events": pre, "event_names": names}), format!("snd-settle-mode {snd:?}, rcv-settle-mode {rcv:?}{}: {detail}", if x0 != 0 { format!(", first delivery-id {x0}") } else { String::new() }), o.trace.clone());
                    }
                }
                ho.fails.clear();
                ho
            });
            tot.executions += st.executions;
            tot.states += st.distinct_states;
            tot.transitions += st.distinct_transitions;
            if st.truncated {
                tot.truncated = true;
                tot.cut.push(label);
            } else {
                tot.completed.push(label);
            }
            for m in st.machinery.into_iter().take(2) {
                if out.machinery_errors.len() < 8 {
                    out.machinery_errors.push(m);
                }
            }
            if tot.samples.len() < 2 && depth_here >= 3 && rcv == Rcv::Second {
                tot.samples.extend(st.sample_traces.into_iter().take(1));
            }
        }
    }
    collect.into_inner().unwrap().report(out, "sender side,");
    out.set("a_executions_with_3plus_unsettled_deliveries_outstanding", cnt_out3.load(Ordering::Relaxed));
    out.set("a_sends_resolved_accepted", cnt_acc.load(Ordering::Relaxed));
    out.set("a_sends_resolved_rejected_released_modified", cnt_other.load(Ordering::Relaxed));
    out.set("a_presettled_sends_resolved_immediately", cnt_pre.load(Ordering::Relaxed));
    out.set("a_sender_settling_dispositions_seen", cnt_echo.load(Ordering::Relaxed));
    out.set("a_detach_resume_inspections", cnt_final.load(Ordering::Relaxed));
    out.set("a_unsettled_entries_seen_in_resume_attach", cnt_entries.load(Ordering::Relaxed));
}

// ------------------------------------------------------------------------------------------------
// Part C: schedules of "transfer written, the disposition comes back very fast"
// ------------------------------------------------------------------------------------------------

#[derive(Debug, Clone, Default, Hash)]
struct CObs {
    results: Vec<String>,
    setup_error: Option<String>,
}

const CT: Duration = Duration::from_secs(5);

async fn scenario_c() -> CObs {
    let mut r = CObs::default();
    let (_pipe, a, b) = Pipe::new();
    // real listener: the receiver accepts every delivery as soon as it has it
    tokio::spawn(async move {
        let acceptor = ConnectionAcceptor::new("lib-listener");
        let Ok(mut conn) = acceptor.accept(b).await else { return };
        let sacc = SessionAcceptor::new();
        while let Ok(mut session) = sacc.accept(&mut conn).await {
            tokio::spawn(async move {
                let lacc = LinkAcceptor::new();
                while let Ok(ep) = lacc.accept(&mut session).await {
                    if let LinkEndpoint::Receiver(mut rx) = ep {
                        tokio::spawn(async move {
                            while let Ok(dv) = rx.recv::<Value>().await {
                                if !rx.auto_accept() && rx.accept(&dv).await.is_err() {
                                    break;
                                }
                            }
                        });
                    }
                }
            });
        }
    });
    macro_rules! setup {
        ($what:expr, $fut:expr) => {
            match tokio::time::timeout(CT, $fut).await {
                Ok(Ok(v)) => v,
                Ok(Err(e)) => {
                    r.setup_error = Some(format!("set-up step '{}' failed: {:?}", $what, e));
                    return r;
                }
                Err(_) => {
                    r.setup_error = Some(format!("set-up step '{}' hangs", $what));
                    return r;
                }
            }
        };
    }
    let mut conn = setup!("open", Connection::builder().container_id("client").open_with_stream(a));
    let mut session = setup!("begin", Session::begin(&mut conn));
    let s1 = setup!("attach link-1", Sender::attach(&mut session, "link-1", "q1"));
    let s2 = setup!("attach link-2", Sender::attach(&mut session, "link-2", "q2"));
    tokio::time::sleep(Duration::from_millis(1)).await;
    // the race: two application tasks send at the same instant; the listener's dispositions come back while
    // the senders are still doing their bookkeeping
    let mut tasks = vec![];
    for (li, mut s) in [s1, s2].into_iter().enumerate() {
        tasks.push(tokio::spawn(async move {
            let mut res = vec![];
            for k in 0..2 {
                let x = tokio::time::timeout(CT, s.send(format!("m-{li}-{k}"))).await;
                res.push(match x {
                    Ok(Ok(o)) => format!("link-{} send {k}: Ok({:?})", li + 1, o),
                    Ok(Err(e)) => format!("link-{} send {k}: Err({:?})", li + 1, e),
                    Err(_) => format!("link-{} send {k}: still pending after 5 s of virtual time", li + 1),
                });
            }
            (res, s)
        }));
    }
    let mut keep = vec![];
    for t in tasks {
        match t.await {
            Ok((res, s)) => {
                r.results.extend(res);
                keep.push(s);
            }
            Err(e) => r.results.push(format!("sending task died: {e:?}")),
        }
    }
    r
}

fn part_c(ctx: &Ctx, deadline: Instant, out: &mut Outcome) -> (u64, u64, String, bool) {
    let scen: Scenario<CObs> = Arc::new(|| Box::pin(scenario_c()));
    let bounds = if ctx.quick() {
        Bounds::new(1).kind(Kind::Task, 1).kind(Kind::Select, 1)
    } else {
        Bounds::new(2).kind(Kind::Task, 2).kind(Kind::Select, 1).kind(Kind::Preempt, 1)
    };
    let cfg = RunCfg::default();
    let fails: Mutex<Vec<(String, String, Vec<vlib::tape::Point>)>> = Mutex::new(vec![]);
    let good = AtomicU64::new(0);
    let st = explore(&cfg, &bounds, &scen, ctx.threads, deadline, |e| {
        match &e.out {
            None => fails.lock().unwrap().push(("machinery".into(), format!("C02/C scenario died: {:?}", e.panics), e.points.clone())),
            Some(o) if o.setup_error.is_some() => fails.lock().unwrap().push(("machinery".into(), format!("C02/C {}", o.setup_error.clone().unwrap()), e.points.clone())),
            Some(o) => {
                let bad: Vec<&String> = o.results.iter().filter(|x| !x.contains("Ok(Accepted")).collect();
                if o.results.len() != 4 || !bad.is_empty() {
                    fails.lock().unwrap().push((
                        "fast-disposition-send-not-accepted".into(),
                        format!("real listener accepts every delivery at once, but: {:?} (all results {:?})", bad, o.results),
                        e.points.clone(),
                    ));
                } else {
                    good.fetch_add(1, Ordering::Relaxed);
                }
            }
        }
        h64(&e.out)
    });
    let mut seen = BTreeSet::new();
    for (s, dtl, points) in fails.into_inner().unwrap() {
        if s == "machinery" {
            if out.machinery_errors.len() < 8 {
                out.machinery_errors.push(dtl);
            }
        } else if seen.insert(s.clone()) {
            let dev: Vec<String> = points.iter().filter(|p| p.chosen != 0).map(|p| format!("{:?}={}", p.kind, p.chosen)).collect();
            out.violation(s, format!("{dtl}; deviations from the default schedule: {:?}", dev), json!({"part": "C", "schedule": points}));
        }
    }
    for dv in &st.divergences {
        out.machinery_errors.push(format!("C02/C {dv}"));
    }
    out.set("c_schedules_all_sends_accepted", good.load(Ordering::Relaxed));
    (
        st.executions,
        st.points_total,
        format!("{} ({} executions; default run: {} task choice points of which {} with >= 2 runnable tasks, {} select choice points; level {:?} complete)", bounds.describe(), st.executions, st.choice_points_by_kind[Kind::Task.idx()], st.branching_points_by_kind[Kind::Task.idx()], st.choice_points_by_kind[Kind::Select.idx()], st.completed_level),
        st.exhaustive,
    )
}

// ------------------------------------------------------------------------------------------------

// ---------------------------------------------------------------------------------------------------------
// Part D: a late disposition for a delivery of a link that has been closed since.  Link "a" sends delivery 0
// (left without an outcome) and is closed / dropped; link "b" attaches (the handle number is free again) and sends
// delivery 1 - every link numbers its delivery-tags from zero.  A disposition that names delivery-id 0 is
// about link a's delivery: b's send must not complete with it.  Then delivery 1 gets its own outcome.

#[derive(Debug, Clone, Copy, PartialEq, Eq, Hash, Serialize, Deserialize)]
pub enum Gone {
    Close,
    Detach,
    Drop,
}

pub async fn stale_disposition_scenario(gone: Gone, stale_rejected: bool) -> (Vec<(String, String)>, Vec<String>, Option<String>) {
    let mut fails = vec![];
    let mut auto = Auto::default();
    auto.accept_transfers = false;
    auto.grant_credit = Some(10);
    let mut c = match scen::open_client(auto, 4096).await {
        Ok(c) => c,
        Err(e) => return (fails, vec![], Some(e)),
    };
    let mut session = match scen::begin(&mut c, Session::builder()).await {
        Ok(s) => s,
        Err(e) => return (fails, vec![], Some(e)),
    };
    let attach = |name: &'static str| Sender::builder().name(name).target("q").sender_settle_mode(SenderSettleMode::Unsettled);
    let mut a = match drive(&mut c.peer, attach("a").attach(&mut session), scen::H).await {
        Some(Ok(s)) => s,
        _ => return (fails, vec![], Some("part D: attach a failed".into())),
    };
    settle(&mut c.peer, 2).await;
    let fut0 = match drive(&mut c.peer, a.send_batchable("m0"), scen::H).await {
        Some(Ok(f)) => f,
        other => return (fails, vlib::peer::trace_to_strings(&c.peer.trace), Some(format!("part D: send_batchable on a: {:?}", other.map(|r| r.map(|_| ()).map_err(|e| e.to_string()))))),
    };
    settle(&mut c.peer, 2).await;
    let mut kept = None;
    match gone {
        Gone::Close => {
            let _ = drive(&mut c.peer, a.close(), scen::H).await;
        }
        Gone::Detach => {
            kept = drive(&mut c.peer, a.detach(), scen::H).await.and_then(|r| r.ok());
        }
        Gone::Drop => drop(a),
    }
    settle(&mut c.peer, 3).await;
    let mut b = match drive(&mut c.peer, attach("b").attach(&mut session), scen::H).await {
        Some(Ok(s)) => s,
        _ => return (fails, vlib::peer::trace_to_strings(&c.peer.trace), Some("part D: attach b failed".into())),
    };
    settle(&mut c.peer, 2).await;
    let task = tokio::spawn(async move {
        let r = b.send("m1").await.map(|o| format!("{o:?}")).map_err(|e| e.to_string());
        (b, r)
    });
    settle(&mut c.peer, 3).await;
    // which ids went on the wire?
    let ids: Vec<u32> = c
        .peer
        .trace
        .iter()
        .filter_map(|w| match (&w.body, w.dir) {
            (Body::Perf(Performative::Transfer(t)), Dirn::FromLib) => t.delivery_id,
            _ => None,
        })
        .collect();
    if ids != vec![0, 1] {
        return (fails, vlib::peer::trace_to_strings(&c.peer.trace), Some(format!("part D: expected deliveries 0 and 1 on the wire, saw {:?}", ids)));
    }
    if task.is_finished() {
        return (fails, vlib::peer::trace_to_strings(&c.peer.trace), Some("part D: the send on b completed without any disposition".into()));
    }
    let stale_state = if stale_rejected { DeliveryState::Rejected(Rejected { error: None }) } else { DeliveryState::Released(Released {}) };
    c.peer.send(0, Performative::Disposition(Disposition { role: Role::Receiver, first: 0, last: None, settled: true, state: Some(stale_state.clone()), batchable: false }));
    settle(&mut c.peer, 3).await;
    if task.is_finished() {
        let (_b, r) = task.await.expect("send task");
        fails.push((
            "outcome-of-another-delivery (late disposition for a closed link's delivery)".to_string(),
            format!(
                "link a sent delivery 0 and was {:?}; link b sent delivery 1; the peer's disposition(first=0, settled, {:?}) made b's send of delivery 1 complete with {:?}",
                gone, stale_state, r
            ),
        ));
        drop(fut0);
        drop(kept);
        return (fails, vlib::peer::trace_to_strings(&c.peer.trace), None);
    }
    c.peer.send(0, Performative::Disposition(Disposition { role: Role::Receiver, first: 1, last: None, settled: true, state: Some(DeliveryState::Accepted(Accepted {})), batchable: false }));
    settle(&mut c.peer, 3).await;
    if !task.is_finished() {
        fails.push(("send-not-resolved (after a late disposition for a closed link's delivery)".to_string(), "disposition(first=1, settled, accepted) did not complete b's send of delivery 1".to_string()));
        task.abort();
    } else {
        let (_b, r) = task.await.expect("send task");
        if !r.as_ref().map(|s| s.contains("Accepted")).unwrap_or(false) {
            fails.push(("wrong-outcome (after a late disposition for a closed link's delivery)".to_string(), format!("delivery 1 was accepted, b's send completed with {:?}", r)));
        }
    }
    drop(fut0);
    drop(kept);
    (fails, vlib::peer::trace_to_strings(&c.peer.trace), None)
}

fn part_d(out: &mut Outcome) -> u64 {
    let mut n = 0;
    for gone in [Gone::Close, Gone::Detach, Gone::Drop] {
        for rej in [true, false] {
            let scen: Scenario<(Vec<(String, String)>, Vec<String>, Option<String>)> = Arc::new(move || Box::pin(stale_disposition_scenario(gone, rej)));
            let ex = run_exec(vec![], &RunCfg::none(), &scen);
            n += 1;
            match ex.out {
                Some((fails, trace, mach)) => {
                    if let Some(m) = mach {
                        out.machinery_errors.push(m);
                    }
                    for (s, d) in fails {
                        out.violation(s, d, json!({"part": "D", "gone": gone, "stale_rejected": rej, "trace": trace}));
                    }
                }
                None => out.machinery_errors.push(format!("part D {gone:?} died: {:?}", ex.panics)),
            }
        }
    }
    n
}

pub fn run(ctx: &Ctx) -> Outcome {
    let mut out = Outcome::new("model_checking");
    if let Some(p) = &ctx.replay {
        return replay(p, out);
    }
    let t0 = Instant::now();
    let budget = Duration::from_secs_f64(ctx.budget_s);
    // budget split: A 55 %, B 25 %, C the rest
    let (fa, fb) = if ctx.quick() { (0.5, 0.75) } else { (0.55, 0.8) };
    let mut tot = Totals::default();
    part_a(ctx, t0 + budget.mul_f64(fa), &mut out, &mut tot);
    rx::part_b(ctx, t0 + budget.mul_f64(fb), &mut out, &mut tot);
    let c = part_c(ctx, t0 + budget, &mut out);
    let d = part_d(&mut out);
    let e = rx::part_e(ctx, &mut out);
    let (f_cases, f_second) = lsn::part_f(&mut out);
    out.set("f_listener_sender_cases", f_cases);
    out.set("f_listener_sender_cases_in_mode_second", f_second);
    out.set("e_delivery_shape_sequences", e);
    out.set("late_disposition_after_link_reuse_cases", d);
    out.set("states", tot.states.max(1));
    out.set("transitions", tot.transitions.max(1) + c.1);
    out.set("traces_validated_against_impl", tot.executions + c.0);
    out.set("history_executions", tot.executions);
    out.set("schedule_executions", c.0);
    out.set("samples", json!(tot.samples));
    out.set("exhaustive", !tot.truncated && c.3);
    out.set("levels_completed", json!(tot.completed));
    out.set("levels_cut_by_budget", json!(tot.cut));
    out.set(
        "bound",
        format!(
            "sender side: {}; receiver side: {}; schedules: {}{}",
            if ctx.quick() { "all histories of <= 3 events over the wide alphabet (24 events) x 6 settle-mode pairs" } else { "all histories of <= 4 events over the wide alphabet (24 events) and of 5 events over the base alphabet (18 events) x settle-mode pairs (snd settled: <= 3)" },
            if ctx.quick() { "all histories of <= 3 application calls / sender settlements over 18 (rcv first) / 21 (rcv second) events on 3 deliveries" } else { "all histories of <= 4 events over 18 / 21 events and of 5 events over 9 / 12 events on 3 deliveries" },
            c.2,
            if tot.truncated { " - CUT by the budget, see levels_cut_by_budget" } else { "" }
        ),
    );
    out.set("rule", "states = distinct (per delivery: pre-settled, first terminal outcome reported, settled by receiver, settled by sender, result of its send future) at quiescence after each event; every state reached by executing the real links, session and connection engines against the scripted peer; plus the distinct schedules of the client/listener race");
    out.assume("the scripted peer acts at quiescent points of the library; it never replaces a terminal outcome it has announced for a delivery by a different state, and in rcv-settle-mode second it does not settle a delivery before the sender has");
    out.assume("a DeliveryFut cannot complete twice by construction of Rust futures; 'exactly once' is checked as: completes when, and not before, the first terminal disposition covering its delivery-id has arrived");
    out.assume("a delivery whose terminal outcome is known but which neither side has settled may or may not be listed in the `unsettled` map of a resuming attach (both accepted)");
    out.assume("schedule exploration is at tokio-poll granularity (task order, select branch); the window between queueing a transfer and inserting its unsettled entry lies inside one poll and has no preempt hook in the library, so it is not reachable on the single-threaded runtime");
    out
}

fn replay(p: &std::path::Path, mut out: Outcome) -> Outcome {
    let s = std::fs::read_to_string(p).unwrap_or_default();
    let j: serde_json::Value = serde_json::from_str(&s).unwrap_or_default();
    let r = &j["replay"];
    match r["part"].as_str() {
        Some("A") => {
            let snd: Snd = serde_json::from_value(r["snd"].clone()).unwrap_or(Snd::Unsettled);
            let rcv: Rcv = serde_json::from_value(r["rcv"].clone()).unwrap_or(Rcv::First);
            let evs: Vec<Ev> = serde_json::from_value(r["events"].clone()).unwrap_or_default();
            println!("replaying part A: snd {snd:?} rcv {rcv:?} {:?}", evs.iter().map(|e| e.name()).collect::<Vec<_>>());
            let x0 = r["x0"].as_u64().unwrap_or(0) as u32;
            let (ho, o) = run_history_a(x0, snd, rcv, evs);
            for l in &ho.trace {
                println!("  {l}");
            }
            if let Some(m) = ho.machinery {
                out.machinery_errors.push(m);
            }
            for (s, dtl, _) in o.fails {
                println!("  FAIL {s}: {dtl}");
                out.violation(s, dtl, r.clone());
            }
        }
        Some("B") => rx::replay_b(r, &mut out),
        Some("E") => rx::replay_e(r, &mut out),
        Some("F") => lsn::replay_f(r, &mut out),
        _ => {
            println!("schedule replay: re-running the exploration with quick bounds");
            let ctx = Ctx {
                id: "C02".into(),
                tier: vlib::report::Tier::Quick,
                seed: 0,
                budget_s: 60.0,
                start: Instant::now(),
                replay: None,
                threads: 8,
            };
            let mut o2 = Outcome::new("model_checking");
            part_c(&ctx, Instant::now() + Duration::from_secs(60), &mut o2);
            out.violations = o2.violations;
        }
    }
    out.set("states", 1);
    out.set("transitions", 1);
    out.set("traces_validated_against_impl", 1);
    out.set("samples", json!([r]));
    out.set("exhaustive", true);
    out.set("bound", "replay of one case");
    out.set("rule", "replay");
    out
}
