//! C18 - transactions on the listener side are atomic and isolated until discharge.
//!
//! Exhaustive search over histories of {declare, post(link x txn), commit, rollback, control link goes away,
//! session end} executed on the real stack, judged against a reference model written from the statement
//! (map txn -> ordered posts; per link the deliveries visible to the application):
//!  * series S1-shared / S1-owned: the real client API (Controller+Transaction / OwnedTransaction) drives a real
//!    listener (ConnectionAcceptor, SessionAcceptor with a control link acceptor, LinkAcceptor) over a vpipe; one
//!    task per accepted receiver link drains `recv()` into the application log; the client->listener bytes are
//!    tapped and parsed independently for the controller-side obligations;
//!  * series S2: the scripted peer acts as the client, so that it can post to / discharge never-declared and
//!    finished ids, and post after discharge;
//!  * series S3: the real client API against the scripted peer acting as a coordinator that can reject a
//!    discharge (txn-id and fail flag on the wire, reported outcome = the coordinator's).
//! Plus a deviation-bounded schedule exploration of a commit racing with posts (two real endpoints).
#[path = "c18_common.rs"]
pub mod common;
#[path = "c18_s1.rs"]
mod s1;
#[path = "c18_s2.rs"]
pub mod s2;
#[path = "c18_s3.rs"]
mod s3;
#[path = "c18_race.rs"]
mod race;

use common::*;
use serde_json::json;
use std::collections::BTreeMap;
use std::sync::atomic::{AtomicU64, Ordering};
use std::sync::Arc;
use std::time::{Duration, Instant};
use vlib::history::{search, HistOut};
use vlib::report::{Ctx, Outcome};
use vlib::runner::{run_exec, RunCfg, Scenario};

#[derive(Debug, Clone, Default)]
pub struct Obs {
    pub executed: usize,
    pub fails: Vec<(String, String)>,
    pub state_keys: Vec<u64>,
    pub trace: Vec<String>,
    pub machinery: Option<String>,
    // non-vacuity counters
    pub declares: u64,
    pub txn_posts: u64,
    pub multi_frame_posts: u64,
    pub withheld_states: u64,
    pub commits_with_posts: u64,
    pub refusals: u64,
    /// S2 with the session probe: (event index, event name, next-incoming-id in the listener's answer - None if
    /// it did not answer, Some(None) if the field was unset -, transfer frames the client had sent)
    pub session_probes: Vec<(usize, String, Option<Option<u32>>, u32)>,
    // S2-relink
    pub link_closes: u64,
    pub handle_reuses: u64,
    /// commits accepted while the transaction held a post whose link the client had closed
    pub commits_with_post_on_closed_link: u64,
    /// ... and the handle number of that link was held by a NEW link at the commit
    pub commits_with_post_on_reused_handle: u64,
    /// 1 if the history ended with: commit accepted, a post of it had lost its link before, nobody ever saw it
    pub commit_accepted_post_discarded_link_gone: u64,
}

#[derive(Default)]
struct Counters {
    declares: AtomicU64,
    txn_posts: AtomicU64,
    multi_frame_posts: AtomicU64,
    withheld_states: AtomicU64,
    commits_with_posts: AtomicU64,
    refusals: AtomicU64,
    link_closes: AtomicU64,
    handle_reuses: AtomicU64,
    commits_with_post_on_closed_link: AtomicU64,
    commits_with_post_on_reused_handle: AtomicU64,
    commit_accepted_post_discarded_link_gone: AtomicU64,
}

fn run_history(series: Series, evs: Vec<Ev>, cnt: Option<&Counters>) -> HistOut {
    let scen: Scenario<Obs> = {
        let evs = evs.clone();
        Arc::new(move || {
            let evs = evs.clone();
            match series {
                Series::S1Shared => Box::pin(s1::scenario(false, evs)),
                Series::S1Owned => Box::pin(s1::scenario(true, evs)),
                Series::S2 => Box::pin(s2::scenario(evs, false)),
                Series::S2Settled => Box::pin(s2::scenario(evs, true)),
                Series::S3 => Box::pin(s3::scenario(evs)),
                Series::S2Relink => Box::pin(s2::scenario_relink(evs, false)),
                Series::S2RelinkSettled => Box::pin(s2::scenario_relink(evs, true)),
            }
        })
    };
    let ex = run_exec(vec![], &RunCfg::none(), &scen);
    let mut out = HistOut::default();
    let tag = series.tag();
    match ex.out {
        Some(o) => {
            out.executed = o.executed;
            out.fails = o.fails.into_iter().map(|(s, d)| if s.starts_with("controller:") { (s, format!("[{tag}] {d}")) } else { (format!("{tag} {s}"), d) }).collect();
            out.state_keys = o.state_keys;
            out.trace = o.trace;
            out.machinery = o.machinery;
            if let Some(c) = cnt {
                c.declares.fetch_add(o.declares, Ordering::Relaxed);
                c.txn_posts.fetch_add(o.txn_posts, Ordering::Relaxed);
                c.multi_frame_posts.fetch_add(o.multi_frame_posts, Ordering::Relaxed);
                c.withheld_states.fetch_add(o.withheld_states, Ordering::Relaxed);
                c.commits_with_posts.fetch_add(o.commits_with_posts, Ordering::Relaxed);
                c.refusals.fetch_add(o.refusals, Ordering::Relaxed);
                c.link_closes.fetch_add(o.link_closes, Ordering::Relaxed);
                c.handle_reuses.fetch_add(o.handle_reuses, Ordering::Relaxed);
                c.commits_with_post_on_closed_link.fetch_add(o.commits_with_post_on_closed_link, Ordering::Relaxed);
                c.commits_with_post_on_reused_handle.fetch_add(o.commits_with_post_on_reused_handle, Ordering::Relaxed);
                c.commit_accepted_post_discarded_link_gone.fetch_add(o.commit_accepted_post_discarded_link_gone, Ordering::Relaxed);
            }
        }
        None => {
            out.executed = evs.len();
            // C18 does not speak about panics or hangs of the machinery itself: machinery error with the trace
            out.machinery = Some(format!("{tag}: scenario died (watchdog={}) panics {:?}", ex.watchdog, ex.panics));
        }
    }
    if ex.spun && out.machinery.is_none() {
        out.machinery = Some(format!("{tag}: busy loop (>20000 polls at one virtual instant) in history {:?}", evs.iter().map(|e| ev_name(series, *e)).collect::<Vec<_>>()));
    }
    let lib_panics: Vec<&String> = ex.panics.iter().filter(|p| !p.contains("vcheck/src")).collect();
    if !lib_panics.is_empty() && out.machinery.is_none() {
        out.machinery = Some(format!("{tag}: a library task panicked in history {:?}: {:?}", evs.iter().map(|e| ev_name(series, *e)).collect::<Vec<_>>(), lib_panics));
    }
    out
}

/// (first depth, target depth): quick runs one depth; thorough deepens iteratively and reports the largest depth it
/// completed inside the budget
fn depths_for(ctx: &Ctx, s: Series) -> (usize, usize) {
    match (ctx.quick(), s) {
        (true, Series::S1Shared) => (5, 5),
        (true, Series::S1Owned) => (4, 4),
        (true, Series::S2) => (4, 4),
        (true, Series::S2Settled) => (4, 4),
        (true, Series::S3) => (4, 4),
        // depth 6 reaches [declare, post, post, close-link, attach-reusing-handle, commit] and
        // [declare, post, close-link, attach-reusing-handle, post on the new link, commit]
        (true, Series::S2Relink) => (6, 6),
        (true, Series::S2RelinkSettled) => (5, 5),
        (false, Series::S1Shared) => (5, 7),
        (false, Series::S1Owned) => (5, 7),
        (false, Series::S2) => (5, 7),
        (false, Series::S2Settled) => (5, 6),
        (false, Series::S3) => (5, 6),
        (false, Series::S2Relink) => (6, 8),
        (false, Series::S2RelinkSettled) => (6, 7),
    }
}

pub fn run(ctx: &Ctx) -> Outcome {
    let mut out = Outcome::new("model_checking");
    if let Some(p) = &ctx.replay {
        return replay(p, out);
    }
    let t0 = Instant::now();
    let total = Duration::from_secs_f64(ctx.budget_s);
    let cnt = Counters::default();
    let mut states = 0u64;
    let mut transitions = 0u64;
    let mut executions = 0u64;
    let mut events = 0u64;
    let mut truncated = false;
    let mut samples = vec![];
    let mut bounds = vec![];
    let mut per_series = BTreeMap::new();
    // signature -> (shortest history, detail, trace, series, count)
    let mut found: BTreeMap<String, (Vec<usize>, String, Vec<String>, Series, u64)> = BTreeMap::new();
    // budget shares: the race exploration gets what is left after the four history searches
    let shares = [0.22, 0.17, 0.17, 0.08, 0.12, 0.08, 0.06];
    for (si, series) in ALL_SERIES.iter().copied().enumerate() {
        let (d0, d1) = depths_for(ctx, series);
        let share: f64 = shares[..=si].iter().sum();
        let deadline = t0 + total.mul_f64(share);
        let mut completed: Option<usize> = None;
        let mut sample = None;
        let abc = alphabet(series);
        for depth in d0..=d1 {
            let st = search(abc.len(), depth, ctx.threads, deadline, |h| run_history(series, h.iter().map(|i| abc[*i]).collect(), Some(&cnt)));
            executions += st.executions;
            events += st.events_executed;
            for m in st.machinery {
                out.machinery_errors.push(m);
            }
            for (h, sig, detail, trace) in st.violations {
                let e = found.entry(sig).or_insert((h.clone(), detail.clone(), trace.clone(), series, 0));
                e.4 += 1;
                // keep the shortest failing history (failing prefix = events executed), then the smallest
                let cur = (failing_len(&e.2), e.0.clone());
                let new = (failing_len(&trace), h.clone());
                if new < cur {
                    e.0 = h;
                    e.1 = detail;
                    e.2 = trace;
                    e.3 = series;
                }
            }
            if st.truncated {
                per_series.entry(series.tag().to_string()).or_insert(json!({"complete": false, "depth": 0}));
                per_series.insert(format!("{} (cut at depth {depth})", series.tag()), json!({"executions": st.executions, "states": st.distinct_states, "transitions": st.distinct_transitions, "complete": false}));
                break;
            }
            completed = Some(depth);
            sample = st.sample_traces.into_iter().next().or(sample);
            // states/transitions of the deepest completed search (shallower ones are subsumed)
            per_series.insert(series.tag().to_string(), json!({"executions": st.executions, "states": st.distinct_states, "transitions": st.distinct_transitions, "pruned_disabled": st.pruned_disabled, "complete": true, "depth": depth}));
        }
        if let Some(j) = per_series.get(series.tag()) {
            states += j["states"].as_u64().unwrap_or(0);
            transitions += j["transitions"].as_u64().unwrap_or(0);
        }
        truncated |= completed != Some(d1);
        bounds.push(match completed {
            Some(d) if d == d1 => format!("{}: all histories of depth {} over {} events", series.tag(), d, abc.len()),
            Some(d) => format!("{}: all histories of depth {} over {} events (depth {} CUT by the budget)", series.tag(), d, abc.len(), d + 1),
            None => format!("{}: depth {} CUT by the budget, nothing completed", series.tag(), d0),
        });
        if let Some(t) = sample {
            samples.push(json!({"series": series.tag(), "trace": t}));
        }
    }
    for (sig, (h, detail, trace, series, n)) in found {
        let k = failing_len(&trace);
        let hist: Vec<usize> = h[..k.min(h.len())].to_vec();
        let names: Vec<String> = hist.iter().map(|i| ev_name(series, alphabet(series)[*i])).collect();
        out.violation(
            sig,
            format!("[{}] minimal history {:?}: {detail} ({n} histories of this run end in this class)", series.tag(), names),
            json!({"series": series.tag(), "events": hist, "event_names": names, "trace": trace}),
        );
    }
    // schedule exploration: commit racing with posts
    let r = race::run(ctx, t0 + total, &mut out);
    out.set("states", states.max(1));
    out.set("transitions", transitions.max(1));
    out.set("traces_validated_against_impl", executions + r.executions);
    out.set("executions", executions);
    out.set("events_executed", events);
    out.set("per_series", json!(per_series));
    out.set("schedule_exploration", json!({"executions": r.executions, "bound": r.bound, "distinct_outcomes": r.distinct, "complete": r.complete}));
    out.set("declares_executed", cnt.declares.load(Ordering::Relaxed));
    out.set("transactional_posts_executed", cnt.txn_posts.load(Ordering::Relaxed));
    out.set("multi_frame_posts_observed_on_wire", cnt.multi_frame_posts.load(Ordering::Relaxed));
    out.set("quiescent_states_with_withheld_posts", cnt.withheld_states.load(Ordering::Relaxed));
    out.set("commits_releasing_posts", cnt.commits_with_posts.load(Ordering::Relaxed));
    out.set("refusals_of_unknown_or_finished_ids_observed", cnt.refusals.load(Ordering::Relaxed));
    out.set(
        "relink",
        json!({
            "data_links_closed_by_the_client": cnt.link_closes.load(Ordering::Relaxed),
            "new_links_attached_on_a_reused_handle_number": cnt.handle_reuses.load(Ordering::Relaxed),
            "commits_accepted_with_a_post_whose_link_was_closed": cnt.commits_with_post_on_closed_link.load(Ordering::Relaxed),
            "of_these_with_the_handle_number_held_by_a_new_link": cnt.commits_with_post_on_reused_handle.load(Ordering::Relaxed),
            // documented, not judged: the statement's "all of them are delivered" has no addressee once the link is gone
            "histories_ending_commit_accepted_post_discarded_because_its_link_was_gone": cnt.commit_accepted_post_discarded_link_gone.load(Ordering::Relaxed),
        }),
    );
    out.set("samples", json!(samples.into_iter().take(3).collect::<Vec<_>>()));
    out.set("exhaustive", !truncated && r.complete);
    out.set("bound", format!("{}; schedules: {}", bounds.join("; "), r.bound));
    out.set(
        "rule",
        "states = distinct canonical observable states (reference-model state: per-slot transaction status, withheld posts per link, visible deliveries per link, discarded posts, links closed by the client, committed posts whose link was gone; which link holds which handle number; control link attached; session alive; length of the application log) reached at quiescence by executing the real stack; transitions = distinct (state, event, state) triples",
    );
    out.assume("events are separated by quiescence (history search); concurrency between a commit and posts is covered by the separate schedule exploration only");
    out.assume("'in posting order' is judged per link: deliveries on different links are drained by different application tasks and have no defined relative order");
    out.assume("'refused with the transaction error' is read permissively: a rejected outcome, a link detach, a session end or a connection close carrying any amqp:transaction:* condition counts as refusal, as long as nothing is applied");
    out.assume("link 1 carries one-frame messages and link 2 ~1200-byte messages that need >= 3 frames at max-frame-size 512 (size is tied to the link to keep the alphabet at 14 events)");
    out.assume("transactional retirement and acquisition are not exercised: the statement defines no observable for them");
    out.assume("S2-relink: a post belongs to the link (attachment) it was sent on; a committed post whose link the client closed before the commit is not demanded anywhere (no addressee), it only must not reach the application of another link; posts and discharges are only issued while the transaction is live, on one transaction slot");
    out
}

/// number of events of the history that were executed when the trace was recorded
fn failing_len(trace: &[String]) -> usize {
    trace.iter().filter(|l| l.starts_with("-- event")).count()
}

fn replay(p: &std::path::Path, mut out: Outcome) -> Outcome {
    let s = std::fs::read_to_string(p).unwrap_or_default();
    let j: serde_json::Value = serde_json::from_str(&s).unwrap_or_default();
    let r = &j["replay"];
    if r.get("schedule").is_some() {
        return race::replay(r, out);
    }
    let series = Series::from_tag(r["series"].as_str().unwrap_or("")).unwrap_or(Series::S1Shared);
    let abc = alphabet(series);
    let evs: Vec<Ev> = r["events"].as_array().map(|a| a.iter().filter_map(|x| x.as_u64()).map(|i| abc[i as usize % abc.len()]).collect()).unwrap_or_default();
    println!("replaying {} {:?}", series.tag(), evs.iter().map(|e| ev_name(series, *e)).collect::<Vec<_>>());
    let o = run_history(series, evs, None);
    for l in &o.trace {
        println!("  {l}");
    }
    if let Some(m) = o.machinery {
        out.machinery_errors.push(m);
    }
    for (s, d) in o.fails {
        println!("  FAIL {s}: {d}");
        out.violation(s, d, r.clone());
    }
    out.set("states", 1);
    out.set("transitions", 1);
    out.set("traces_validated_against_impl", 1);
    out.set("samples", json!([r]));
    out
}
