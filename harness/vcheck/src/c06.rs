//! C06 - frames on the wire: what the real `Transport` writes is a sequence of complete AMQP frames,
//! each within max-frame-size, decoding back to the same performative / payload; what it reads is
//! decoded identically under every partition of the byte stream.
use crate::typed::{self, dbg, Exp, Expect};
use fe2o3_amqp::frames::amqp::{Frame, FrameBody};
use fe2o3_amqp::transport::Transport;
use fe2o3_amqp_types::performatives::*;
use futures_util::{SinkExt, StreamExt};
use refamqp::RVal;
use serde_json::json;
use std::collections::{HashSet, VecDeque};
use std::sync::Mutex;
use std::time::{Duration, Instant};
use vlib::report::{Ctx, Outcome};
use vlib::util::{catch, h64, hex, par_map};
use vlib::vpipe::{Chunking, Pipe};

fn rt() -> tokio::runtime::Runtime {
    tokio::runtime::Builder::new_current_thread().enable_time().start_paused(true).build().unwrap()
}

#[derive(Clone)]
enum Item {
    Perf { ty: &'static str, mask: u64, alt: bool, channel: u16 },
    Transfer { mask: u64, tag_len: usize, payload_len: usize, channel: u16, pre_split_more: bool },
    Empty,
}

fn frame_of(item: &Item) -> (Frame, Option<Expect>, Vec<u8>) {
    match item {
        Item::Empty => (Frame::empty(), None, vec![]),
        Item::Perf { ty, mask, alt, channel } => {
            macro_rules! mk {
                ($g:path, $v:path) => {{
                    let (x, _, e) = $g(*mask, *alt);
                    (Frame::new(*channel, $v(x)), Some(e), vec![])
                }};
            }
            match *ty {
                "open" => mk!(typed::gen_open, FrameBody::Open),
                "begin" => mk!(typed::gen_begin, FrameBody::Begin),
                "attach" => mk!(typed::gen_attach, FrameBody::Attach),
                "flow" => mk!(typed::gen_flow, FrameBody::Flow),
                "disposition" => mk!(typed::gen_disposition, FrameBody::Disposition),
                "detach" => mk!(typed::gen_detach, FrameBody::Detach),
                "end" => mk!(typed::gen_end, FrameBody::End),
                _ => mk!(typed::gen_close, FrameBody::Close),
            }
        }
        Item::Transfer { mask, tag_len, payload_len, channel, pre_split_more } => {
            let (mut t, _, mut e) = typed::gen_transfer(*mask, false);
            let tag: Vec<u8> = (0..*tag_len as u8).collect();
            t.delivery_tag = Some(serde_bytes::ByteBuf::from(tag.clone()));
            e.fields[2] = Exp::Is(RVal::Binary(tag));
            t.delivery_id = Some(7);
            e.fields[1] = Exp::Is(RVal::Uint(7));
            t.message_format = Some(0);
            e.fields[3] = Exp::Is(RVal::Uint(0));
            t.more = *pre_split_more;
            e.fields[5] = if *pre_split_more { Exp::Is(RVal::Bool(true)) } else { Exp::NullOr(RVal::Bool(false)) };
            t.aborted = false;
            e.fields[9] = Exp::NullOr(RVal::Bool(false));
            let payload: Vec<u8> = (0..*payload_len).map(|i| (i * 31 + 7) as u8).collect();
            (
                Frame::new(
                    *channel,
                    FrameBody::Transfer {
                        performative: t,
                        payload: bytes::Bytes::from(payload.clone()),
                    },
                ),
                Some(e),
                payload,
            )
        }
    }
}

fn describe(item: &Item) -> String {
    match item {
        Item::Empty => "empty frame".into(),
        Item::Perf { ty, mask, alt, channel } => format!("{ty}(mask={mask:#b},alt={alt}) on channel {channel}"),
        Item::Transfer { mask, tag_len, payload_len, channel, pre_split_more } => {
            format!("transfer(mask={mask:#b},tag={tag_len}B,payload={payload_len}B,more={pre_split_more}) on channel {channel}")
        }
    }
}

/// send one frame through a real Transport with encoder max-frame-size `m`, return the bytes written
fn write_through(item: &Item, m: usize, write_chunk: Chunking) -> Result<Vec<u8>, String> {
    let (frame, _, _) = frame_of(item);
    let r = rt();
    r.block_on(async move {
        let (pipe, a, _b) = Pipe::new();
        pipe.set_write_chunking(0, write_chunk);
        let mut t: Transport<_, Frame> = Transport::bind(a, m, None);
        t.send(frame).await.map_err(|e| format!("send failed: {e:?}"))?;
        t.flush().await.map_err(|e| format!("flush failed: {e:?}"))?;
        Ok(pipe.take_bytes(1))
    })
}

use crate::typed::field_ok;

/// judge the byte stream written for one item
fn judge_write(item: &Item, m: usize, bytes: &[u8]) -> Vec<(String, String)> {
    let mut f = vec![];
    let (_, exp, payload) = frame_of(item);
    let what = describe(item);
    let kind = match item {
        Item::Empty => "empty",
        Item::Perf { ty, .. } => ty,
        Item::Transfer { .. } => "transfer",
    };
    let (frames, used) = match refamqp::parse_frames(bytes) {
        Ok(x) => x,
        Err(e) => {
            return vec![(
                format!("not-a-frame-sequence {kind}"),
                format!("{what} at max-frame-size {m}: the {} bytes written are not a sequence of AMQP frames: {} at offset {} ({})", bytes.len(), e.msg, e.offset, hex(bytes)),
            )]
        }
    };
    if used != bytes.len() {
        return vec![(
            format!("incomplete-frame {kind}"),
            format!("{what} at max-frame-size {m}: {} trailing bytes do not form a complete frame ({})", bytes.len() - used, hex(bytes)),
        )];
    }
    if frames.is_empty() {
        return vec![(format!("nothing-written {kind}"), format!("{what}: no frame written"))];
    }
    let want_channel = match item {
        Item::Empty => 0,
        Item::Perf { channel, .. } | Item::Transfer { channel, .. } => *channel,
    };
    let mut cat = vec![];
    let n = frames.len();
    for (i, fr) in frames.iter().enumerate() {
        if fr.size as usize > m {
            f.push((
                format!("oversized-frame {kind}"),
                format!("{what}: frame {i} of {n} has size {} > max-frame-size {m}", fr.size),
            ));
        }
        if fr.doff != 2 || fr.ftype != 0 || fr.channel != want_channel || !fr.ext_header.is_empty() {
            f.push((
                format!("bad-frame-header {kind}"),
                format!("{what}: frame {i}: doff={} type={} channel={} (expected 2/0/{want_channel})", fr.doff, fr.ftype, fr.channel),
            ));
        }
        match refamqp::split_body(&fr.body) {
            Ok(None) => {
                if !matches!(item, Item::Empty) {
                    f.push((format!("empty-body {kind}"), format!("{what}: frame {i} has an empty body")));
                }
            }
            Err(e) => f.push((
                format!("undecodable-body {kind}"),
                format!("{what} at max-frame-size {m}: body of frame {i}/{n} is not a performative: {} at {} ({})", e.msg, e.offset, hex(&fr.body)),
            )),
            Ok(Some((perf, pl))) => {
                if matches!(item, Item::Empty) {
                    f.push(("nonempty-body empty".into(), format!("empty frame written with a body {}", hex(&fr.body))));
                    continue;
                }
                let exp = exp.as_ref().unwrap();
                match refamqp::validate_composite(&perf) {
                    Err(e) => f.push((
                        format!("invalid-performative {kind}"),
                        format!("{what}: frame {i}: {} (field {})", e.msg, e.offset),
                    )),
                    Ok((comp, fields)) => {
                        if comp.name != exp.composite {
                            f.push((format!("wrong-performative {kind}"), format!("{what}: frame {i} carries a {}", comp.name)));
                            continue;
                        }
                        if !matches!(item, Item::Transfer { .. }) {
                            if n != 1 {
                                f.push((format!("split-non-transfer {kind}"), format!("{what}: written as {n} frames")));
                            }
                            if !pl.is_empty() {
                                f.push((format!("payload-on-non-transfer {kind}"), format!("{what}: {} payload bytes", pl.len())));
                            }
                            for (k, e) in exp.fields.iter().enumerate() {
                                let got = fields.get(k).cloned().unwrap_or(RVal::Null);
                                if !field_ok(e, &got) {
                                    f.push((
                                        format!("wrong-field {kind}.{}", comp.fields[k].name),
                                        format!("{what}: field {} on the wire is {:?}, expected {:?}", comp.fields[k].name, got, e),
                                    ));
                                }
                            }
                        } else {
                            cat.extend_from_slice(pl);
                            let last = i + 1 == n;
                            // field 5 = more
                            let more = matches!(fields.get(5), Some(RVal::Bool(true)));
                            let orig_more = matches!(item, Item::Transfer { pre_split_more: true, .. });
                            if !last && !more {
                                f.push((
                                    "transfer more-flag-missing".into(),
                                    format!("{what} at max-frame-size {m}: frame {i} of {n} does not have more=true"),
                                ));
                            }
                            if last && more != orig_more {
                                f.push((
                                    "transfer more-flag-on-last".into(),
                                    format!("{what} at max-frame-size {m}: last frame has more={more}, the transfer given had more={orig_more}"),
                                ));
                            }
                            for (k, e) in exp.fields.iter().enumerate() {
                                if k == 5 {
                                    continue;
                                }
                                let got = fields.get(k).cloned().unwrap_or(RVal::Null);
                                // handle is mandatory on every frame; on continuation frames the other fields may be
                                // omitted but must not contradict the first frame
                                let ok = if i == 0 || k == 0 { field_ok(e, &got) } else { got == RVal::Null || field_ok(e, &got) };
                                if !ok {
                                    f.push((
                                        format!("transfer wrong-field {}{}", comp.fields[k].name, if i == 0 { "" } else { " (continuation)" }),
                                        format!("{what} at max-frame-size {m}: frame {i}/{n}: field {} is {:?}, expected {:?}", comp.fields[k].name, got, e),
                                    ));
                                }
                            }
                        }
                    }
                }
            }
        }
    }
    if matches!(item, Item::Transfer { .. }) && cat != payload {
        f.push((
            "transfer payload-corrupted".into(),
            format!(
                "{what} at max-frame-size {m}: the payloads of the {n} frames concatenate to {} bytes, the original has {} (first difference at {:?})",
                cat.len(),
                payload.len(),
                cat.iter().zip(&payload).position(|(a, b)| a != b)
            ),
        ));
    }
    f
}

/// feed `stream` to a real Transport under the given read chunking and return a rendering of what it yields
fn read_through(stream: &[u8], m: usize, chunk: Chunking) -> Vec<String> {
    let r = rt();
    let stream = stream.to_vec();
    r.block_on(async move {
        let (pipe, a, _b) = Pipe::new();
        pipe.push_bytes(1, &stream);
        pipe.close_write(1);
        pipe.set_read_chunking(1, chunk);
        let mut t: Transport<_, Frame> = Transport::bind(a, m, None);
        let mut out = vec![];
        loop {
            match tokio::time::timeout(std::time::Duration::from_secs(5), t.next()).await {
                Err(_) => {
                    out.push("HANG".to_string());
                    break;
                }
                Ok(None) => break,
                Ok(Some(Ok(fr))) => out.push(format!("ch{} {:?}", fr.channel, fr.body)),
                Ok(Some(Err(e))) => {
                    out.push(format!("ERR {e:?}"));
                    break;
                }
            }
        }
        out
    })
}

fn reference_stream() -> (Vec<u8>, usize) {
    // reference-encoded frames: every performative kind (all fields, widest and narrowest encodings), empty
    // frames, transfers with payloads (payload starting with bytes that look like format codes)
    let mut s = vec![];
    let mut n = 0;
    let mut push = |body: Vec<u8>, ch: u16| {
        s.extend(refamqp::encode_frame(0, ch, &body));
        n += 1;
    };
    macro_rules! p {
        ($g:path, $bits:expr, $code:expr, $ch:expr) => {{
            let (_, _, e) = $g((1u64 << $bits) - 1, false);
            let rv = typed::expect_to_rval($code, &e);
            push(refamqp::encode_narrowest(&rv), $ch);
            let (_, _, e) = $g(0, true);
            let rv = typed::expect_to_rval($code, &e);
            push(refamqp::encode_widest(&rv), $ch);
        }};
    }
    p!(typed::gen_open, 9, 0x10, 0);
    push(vec![], 0);
    p!(typed::gen_begin, 5, 0x11, 1);
    p!(typed::gen_attach, 11, 0x12, 1);
    p!(typed::gen_flow, 8, 0x13, 65535);
    for (mask, payload) in [(0b11_1111_1111u64, vec![0x00u8, 0x53, 0x77, 0xa1, 0x02, b'h', b'i']), (0, vec![]), (0b1, (0..200u8).collect())] {
        let (_, _, e) = typed::gen_transfer(mask, false);
        let rv = typed::expect_to_rval(0x14, &e);
        let mut b = refamqp::encode_narrowest(&rv);
        b.extend(payload);
        push(b, 2);
    }
    p!(typed::gen_disposition, 4, 0x15, 2);
    push(vec![], 0);
    p!(typed::gen_detach, 2, 0x16, 1);
    p!(typed::gen_end, 1, 0x17, 1);
    p!(typed::gen_close, 1, 0x18, 0);
    (s, n)
}


// ------------------------------------------------------------------------------------ negotiated frame sizes
/// A real client connection that announces max-frame-size `local` against a scripted peer that announces `remote`:
/// what the library writes has to respect the PEER's size, and the library has to accept frames up to its OWN.
async fn negotiated_scenario(local: u32, remote: u32) -> Vec<(String, String)> {
    use fe2o3_amqp::link::{Receiver, Sender};
    use fe2o3_amqp::Session;
    use vlib::peer::{drive, settle, Auto, Dirn};
    let mut f = vec![];
    let what = format!("library announces max-frame-size {local}, the peer {remote}");
    let mut auto = Auto::default();
    auto.max_frame_size = remote;
    auto.grant_credit = Some(1000);
    auto.accept_transfers = true;
    let mut c = match crate::scen::open_client(auto, local).await {
        Ok(c) => c,
        Err(e) => return vec![("machinery".into(), format!("{what}: {e}"))],
    };
    let mut session = match crate::scen::begin(&mut c, Session::builder()).await {
        Ok(s) => s,
        Err(e) => return vec![("machinery".into(), format!("{what}: {e}"))],
    };
    let h = crate::scen::H;
    let mut sender = match drive(&mut c.peer, Sender::attach(&mut session, "s", "q"), h).await {
        Some(Ok(s)) => s,
        _ => return vec![("machinery".into(), format!("{what}: sender attach failed"))],
    };
    let mut receiver = match drive(&mut c.peer, Receiver::attach(&mut session, "r", "q"), h).await {
        Some(Ok(r)) => r,
        _ => return vec![("machinery".into(), format!("{what}: receiver attach failed"))],
    };
    let r_our = c.peer.links.last().map(|l| l.our_handle).unwrap_or(1);
    // --- outgoing: bodies around 1x and 3x of both sizes
    for len in [10usize, remote as usize - 60, remote as usize + 1, local as usize + 1, 3 * local.max(remote) as usize + 7] {
        let body = "z".repeat(len);
        match drive(&mut c.peer, sender.send(body), h).await {
            Some(Ok(_)) => {}
            other => f.push(("negotiated-size: send failed".into(), format!("{what}: send of a {len}-byte body: {:?}", other.map(|r| r.map(|_| ()).map_err(|e| e.to_string()))))),
        }
    }
    settle(&mut c.peer, 2).await;
    if let Some(e) = &c.peer.stream_error {
        f.push(("negotiated-size: not-a-frame-sequence".into(), format!("{what}: {e}")));
    }
    let mut largest = 0u32;
    for w in c.peer.trace.iter().filter(|w| w.dir == Dirn::FromLib) {
        largest = largest.max(w.size);
        if w.size > remote {
            f.push((
                "negotiated-size: frame larger than the peer's max-frame-size".into(),
                format!("{what}: the library wrote a frame of {} bytes ({})", w.size, w.short()),
            ));
            break;
        }
    }
    if remote < local && largest < remote {
        // (not an error: an implementation may keep its frames below the limit - a benign variant that cuts frames 32
        // bytes short does; it only means that "exactly at the limit" was not seen in this pair, which the evidence counts)
        f.push(("note: no frame reached the peer's limit".into(), format!("{what}: largest frame {largest}")));
    }
    // --- incoming: a transfer frame of exactly the library's own max-frame-size must be accepted
    let overhead = {
        let t = probe_transfer(r_our);
        let mut b = vlib::peer::encode_perf(&Performative::Transfer(t));
        b.extend_from_slice(&[]);
        8 + b.len()
    };
    let payload = {
        // a data section of the right total size: 0x00 0x53 0x75 0xb0 len32 bytes...
        let n = local as usize - overhead - 8;
        let mut p = vec![0x00, 0x53, 0x75, 0xb0];
        p.extend_from_slice(&(n as u32).to_be_bytes());
        p.extend(std::iter::repeat(0x61).take(n));
        p
    };
    c.peer.send_perf(0, Performative::Transfer(probe_transfer(r_our)), &payload);
    let frame_len = c.peer.trace.last().map(|w| w.size).unwrap_or(0);
    match drive(&mut c.peer, receiver.recv::<fe2o3_amqp_types::messaging::Body<serde_amqp::Value>>(), h).await {
        Some(Ok(d)) => {
            let _ = drive(&mut c.peer, receiver.accept(&d), h).await;
        }
        other => f.push((
            "negotiated-size: frame of the library's own max-frame-size refused".into(),
            format!("{what}: the peer sent a transfer frame of {frame_len} bytes (<= {local}); recv() -> {:?}", other.map(|r| r.map(|_| ()).map_err(|e| e.to_string()))),
        )),
    }
    if frame_len != local {
        f.push(("machinery".into(), format!("{what}: the probe frame has {frame_len} bytes instead of {local}")));
    }
    f
}

fn probe_transfer(handle: u32) -> Transfer {
    Transfer {
        handle: fe2o3_amqp_types::definitions::Handle(handle),
        delivery_id: Some(0),
        delivery_tag: Some(serde_bytes::ByteBuf::from(vec![7u8])),
        message_format: Some(0),
        settled: Some(true),
        more: false,
        rcv_settle_mode: None,
        state: None,
        resume: false,
        aborted: false,
        batchable: false,
    }
}

// ------------------------------------------------------------------------------------ the protocol header
/// The 8-byte protocol header is part of the byte stream too: the library reads it through the same socket and
/// the statement quantifies over chunk boundaries inside it.  A real client (`open_with_stream`) and a real
/// listener (`accept`, without and with a SASL layer) get the peer's header - and everything behind it - in
/// reads of the given shape; the handshake has to succeed exactly as with whole reads.
async fn header_scenario(listener: bool, sasl: bool, chunk: Chunking) -> Vec<(String, String)> {
    use fe2o3_amqp::acceptor::{ConnectionAcceptor, SaslPlainMechanism};
    use fe2o3_amqp::Connection;
    use vlib::peer::{drive, settle, Auto, Body, Dirn, Peer, AMQP_HEADER, SASL_HEADER};
    let what = format!("{} reads the peer's {} header as {:?}", if listener { "listener" } else { "client" }, if sasl { "SASL" } else { "AMQP" }, chunk);
    let mut f = vec![];
    let (pipe, a, _b) = Pipe::new();
    pipe.set_read_chunking(1, chunk);
    let h = crate::scen::H;
    if !listener {
        let mut peer = Peer::new(pipe.clone(), 1, Auto::default());
        match drive(&mut peer, Connection::builder().container_id("lib").open_with_stream(a), h).await {
            Some(Ok(mut c)) => match drive(&mut peer, c.close(), h).await {
                Some(Ok(())) => {}
                other => f.push(("header-chunking: close failed".into(), format!("{what}: close() -> {:?}", other.map(|r| r.map_err(|e| e.to_string()))))),
            },
            Some(Err(e)) => f.push(("header-chunking: open failed".into(), format!("{what}: open_with_stream -> {e}"))),
            None => f.push(("header-chunking: open hangs".into(), format!("{what}: open_with_stream still pending after {h:?}"))),
        }
    } else if !sasl {
        let mut auto = Auto::none();
        auto.close = true;
        let mut peer = Peer::new(pipe.clone(), 1, auto);
        peer.send_proto_header(AMQP_HEADER);
        let (o, _, _) = typed::gen_open(0, false);
        peer.send(0, Performative::Open(o));
        let acceptor = ConnectionAcceptor::new("lib-listener");
        match drive(&mut peer, acceptor.accept(a), h).await {
            Some(Ok(mut c)) => match drive(&mut peer, c.close(), h).await {
                Some(Ok(())) => {}
                other => f.push(("header-chunking: close failed".into(), format!("{what}: close() -> {:?}", other.map(|r| r.map_err(|e| e.to_string()))))),
            },
            Some(Err(e)) => f.push(("header-chunking: accept failed".into(), format!("{what}: accept -> {e}"))),
            None => f.push(("header-chunking: accept hangs".into(), format!("{what}: accept still pending after {h:?}"))),
        }
    } else {
        let mut peer = Peer::new(pipe.clone(), 1, Auto::none());
        peer.send_proto_header(SASL_HEADER);
        let acceptor = ConnectionAcceptor::builder().container_id("lib-listener").sasl_acceptor(SaslPlainMechanism::new("user", "secret")).build();
        let fut = acceptor.accept(a);
        tokio::pin!(fut);
        let early = tokio::select! { biased; r = &mut fut => Some(r.map(|_| ()).map_err(|e| e.to_string())), _ = settle(&mut peer, 5) => None };
        // the listener answers with its own SASL header (and then offers its mechanisms); accept() keeps waiting
        let answered = peer.trace.iter().any(|w| w.dir == Dirn::FromLib && matches!(&w.body, Body::ProtoHeader(hd) if *hd == SASL_HEADER));
        if let Some(r) = early {
            f.push(("header-chunking: accept ended".into(), format!("{what}: accept returned {r:?} right after the client's SASL header")));
        } else if !answered {
            f.push(("header-chunking: header not answered".into(), format!("{what}: the listener did not answer the client's SASL header with its own; it wrote {:?}", vlib::peer::trace_to_strings(&peer.trace))));
        }
    }
    f
}

fn header_cases() -> Vec<(bool, bool, Chunking)> {
    let mut v = vec![];
    for (listener, sasl) in [(false, false), (true, false), (true, true)] {
        v.push((listener, sasl, Chunking::Whole));
        for k in 1..=9usize {
            v.push((listener, sasl, Chunking::Fixed(k)));
        }
        // every position of the first read boundary inside the header, and every pair of boundaries
        for k in 1..=7usize {
            v.push((listener, sasl, Chunking::Script(VecDeque::from(vec![k]))));
            for j in 1..(8 - k) {
                v.push((listener, sasl, Chunking::Script(VecDeque::from(vec![k, j]))));
            }
        }
    }
    v
}

fn header_stage(out: &mut Outcome) -> u64 {
    use vlib::runner::{run_exec, RunCfg, Scenario};
    let cases = header_cases();
    for (listener, sasl, chunk) in &cases {
        let (l, s2, c) = (*listener, *sasl, chunk.clone());
        let scen: Scenario<Vec<(String, String)>> = std::sync::Arc::new(move || Box::pin(header_scenario(l, s2, c.clone())));
        let ex = run_exec(vec![], &RunCfg::none(), &scen);
        match ex.out {
            Some(fs) => {
                for (sig, d) in fs {
                    out.violation(sig, d, json!({"kind": "header", "listener": listener, "sasl": sasl, "chunk": format!("{:?}", chunk)}));
                }
            }
            None => {
                let lib: Vec<&String> = ex.panics.iter().filter(|p| !p.contains("vcheck/src")).collect();
                if lib.is_empty() {
                    out.machinery_errors.push(format!("header scenario ({listener},{sasl},{chunk:?}) died: {:?}", ex.panics));
                } else {
                    out.violation("header-chunking: panic".to_string(), format!("listener={listener} sasl={sasl} {chunk:?}: {lib:?}"), json!({"kind": "header", "listener": listener, "sasl": sasl, "chunk": format!("{:?}", chunk)}));
                }
            }
        }
    }
    cases.len() as u64
}

pub const NEGOTIATED: [(u32, u32); 7] = [(512, 512), (512, 4096), (4096, 512), (1024, 512), (512, 1024), (4096, 1024), (65536, 600)];

fn negotiated(out: &mut Outcome) -> u64 {
    use vlib::runner::{run_exec, RunCfg, Scenario};
    let mut n = 0;
    let mut below_limit = 0u64;
    for (l, r) in NEGOTIATED {
        let scen: Scenario<Vec<(String, String)>> = std::sync::Arc::new(move || Box::pin(negotiated_scenario(l, r)));
        let ex = run_exec(vec![], &RunCfg::none(), &scen);
        n += 1;
        match ex.out {
            Some(fs) => {
                for (s, d) in fs {
                    if s == "machinery" {
                        out.machinery_errors.push(d);
                    } else if s.starts_with("note:") {
                        below_limit += 1;
                    } else {
                        out.violation(s, d, json!({"kind": "negotiated", "local": l, "remote": r}));
                    }
                }
            }
            None => out.machinery_errors.push(format!("negotiated scenario ({l},{r}) died: {:?}", ex.panics)),
        }
    }
    out.set("negotiated_pairs_in_which_no_frame_reached_the_peers_limit", below_limit);
    n
}

pub fn run(ctx: &Ctx) -> Outcome {
    let mut out = Outcome::new("exploration");
    if let Some(p) = &ctx.replay {
        return replay(p, out);
    }
    // (the quick tier runs what used to be the thorough bound: it takes well under a second)
    let deep = !ctx.quick();
    let quick = false;
    let ms: Vec<usize> = if deep { vec![512, 513, 514, 520, 600, 1024, 2048, 4096, 65536] } else { vec![512, 513, 600, 1024, 4096] };
    // ---------------- write side
    let mut cases: Vec<(Item, usize)> = vec![];
    for &m in &ms {
        cases.push((Item::Empty, m));
        for ty in ["open", "begin", "attach", "flow", "disposition", "detach", "end", "close"] {
            for ch in [0u16, 1, 65535] {
                for (mask, alt) in [(0u64, false), (u64::MAX, false), (u64::MAX, true), (0b1010101, true)] {
                    cases.push((Item::Perf { ty, mask, alt, channel: ch }, m));
                }
            }
        }
        let body = m - 8;
        let mut lens: Vec<usize> = if m == 512 || (deep && m <= 1024) {
            (0..=3 * m + 16).collect()
        } else {
            let mut v = vec![0, 1];
            for k in 1..=3 {
                for d in 0..=40 {
                    v.push((k * body).saturating_sub(d));
                    v.push(k * body + d);
                }
            }
            v
        };
        lens.sort();
        lens.dedup();
        let tags: Vec<usize> = if quick { vec![0, 4, 32] } else { (0..=32).collect() };
        for &pl in &lens {
            for &tg in &tags {
                // all optional transfer fields present / only the mandatory ones
                let masks: &[u64] = if pl % 16 == 0 || !quick { &[0, 0b11_1111_1111] } else { &[0b11_1111_1111] };
                for &mask in masks {
                    cases.push((
                        Item::Transfer {
                            mask,
                            tag_len: tg,
                            payload_len: pl,
                            channel: if pl % 3 == 0 { 0 } else { 257 },
                            pre_split_more: pl % 5 == 1,
                        },
                        m,
                    ));
                }
            }
        }
    }
    // oversized non-transfer performatives: properties maps larger than the frame size
    let distinct = Mutex::new(HashSet::<u64>::new());
    let multi = Mutex::new(0u64);
    let res = par_map(&cases, ctx.threads, |_, (item, m)| {
        let r = catch(|| write_through(item, *m, Chunking::Whole));
        match r {
            Err(p) => vec![("panic write".to_string(), format!("{} at max-frame-size {m}: {p}", describe(item)))],
            Ok(Err(e)) => vec![("send-error".to_string(), format!("{} at max-frame-size {m}: {e}", describe(item)))],
            Ok(Ok(bytes)) => {
                distinct.lock().unwrap().insert(h64(&bytes));
                if let Ok((fr, _)) = refamqp::parse_frames(&bytes) {
                    if fr.len() > 1 {
                        *multi.lock().unwrap() += 1;
                    }
                }
                judge_write(item, *m, &bytes)
            }
        }
    });
    for (i, ((item, m), fs)) in cases.iter().zip(res).enumerate() {
        for (s, d) in fs {
            out.violation(s, d, json!({"kind": "write", "case": i, "what": describe(item), "m": m}));
        }
    }
    let n_write = cases.len() as u64;
    // oversized open: 600-byte properties at m = 512
    let big = {
        let r = rt();
        let bytes = r.block_on(async {
            let (pipe, a, _b) = Pipe::new();
            let mut t: Transport<_, Frame> = Transport::bind(a, 512, None);
            let (mut o, _, _) = typed::gen_open(0, false);
            let mut props = serde_amqp::primitives::OrderedMap::new();
            props.insert(serde_amqp::primitives::Symbol::from("k"), serde_amqp::Value::String("x".repeat(700)));
            o.properties = Some(props);
            let r = t.send(Frame::new(0u16, FrameBody::Open(o))).await;
            let _ = t.flush().await;
            (r.is_ok(), pipe.take_bytes(1))
        });
        bytes
    };
    if big.0 {
        // accepted for sending: then what was written must be well-formed frames
        match refamqp::parse_frames(&big.1) {
            Ok((frames, used)) if used == big.1.len() && frames.iter().all(|f| refamqp::split_body(&f.body).map(|b| b.is_some()).unwrap_or(false)) => {}
            _ => out.violation(
                "oversized-non-transfer chopped",
                format!(
                    "an open performative of {} bytes sent at max-frame-size 512 is accepted and written as a byte stream that is not a sequence of valid frames (the encoded frame is cut into 508-byte pieces): {}",
                    big.1.len(),
                    hex(&big.1)
                ),
                json!({"kind": "oversized-open"}),
            ),
        }
    }
    // a refused oversize frame leaves nothing behind: after the refusal the transport is flushed, a small valid frame is
    // sent and the transport is closed (what the connection engine does when it stops); everything on the wire must be
    // complete, valid frames - none of them a piece of the refused performative
    let n_refused = refused_leaves_nothing(&mut out);
    out.set("refused_oversize_frames_followed_by_flush", n_refused);
    // write-side chunking: bytes written are independent of how much the socket accepts per write
    let wcases: Vec<(Item, usize)> = cases.iter().filter(|(i, _)| matches!(i, Item::Transfer { payload_len, .. } if *payload_len % 97 == 0) || matches!(i, Item::Perf { mask: u64::MAX, channel: 1, .. })).cloned().collect();
    let wres = par_map(&wcases, ctx.threads, |_, (item, m)| {
        let base = write_through(item, *m, Chunking::Whole);
        let mut f = vec![];
        for c in [Chunking::Fixed(1), Chunking::Fixed(7), Chunking::Fixed(511), Chunking::Script(VecDeque::from(vec![3, 1, 4, 5, 509]))] {
            let got = catch(|| write_through(item, *m, c.clone()));
            match got {
                Ok(g) if g == base => {}
                other => f.push((
                    "write-chunking".to_string(),
                    format!("{} at max-frame-size {m}: bytes written under {:?} differ from whole writes ({:?})", describe(item), c, other.map(|r| r.map(|b| b.len()))),
                )),
            }
        }
        f
    });
    for ((item, m), fs) in wcases.iter().zip(wres) {
        for (s, d) in fs {
            out.violation(s, d, json!({"kind": "write-chunk", "what": describe(item), "m": m}));
        }
    }
    // ---------------- read side
    let (stream, nframes) = reference_stream();
    let base = read_through(&stream, 4096, Chunking::Whole);
    let mut n_read = 1u64;
    if base.len() != nframes || base.iter().any(|l| l.starts_with("ERR") || l == "HANG") {
        out.violation(
            "read reference-stream",
            format!("the reference stream of {nframes} valid frames is read as {} items: {:?}", base.len(), base.iter().filter(|l| l.starts_with("ERR") || *l == "HANG").collect::<Vec<_>>()),
            json!({"kind": "read", "chunking": "whole"}),
        );
    }
    let mut chunkings: Vec<Chunking> = vec![];
    let cap = if quick { 64 } else { stream.len() };
    for k in 1..=cap {
        chunkings.push(Chunking::Fixed(k));
    }
    // every single split offset
    let step = if quick { 3 } else { 1 };
    for off in (1..stream.len()).step_by(step) {
        chunkings.push(Chunking::Script(VecDeque::from(vec![off])));
    }
    // every pair of split offsets inside the first 12 bytes (frame header) and inside the header of the 3rd frame
    for a in 1..12 {
        for b in a + 1..13 {
            chunkings.push(Chunking::Script(VecDeque::from(vec![a, b - a])));
        }
    }
    let rres = par_map(&chunkings, ctx.threads, |_, c| {
        let got = catch(|| read_through(&stream, 4096, c.clone()));
        match got {
            Ok(g) if g == base => None,
            Ok(g) => {
                let i = g.iter().zip(&base).position(|(a, b)| a != b).unwrap_or(g.len().min(base.len()));
                Some(format!(
                    "under {:?} the transport yields {} items, item {i} = {:?}; with whole reads {} items, item {i} = {:?}",
                    c,
                    g.len(),
                    g.get(i),
                    base.len(),
                    base.get(i)
                ))
            }
            Err(p) => Some(format!("panic under {:?}: {p}", c)),
        }
    });
    n_read += chunkings.len() as u64;
    for (c, r) in chunkings.iter().zip(rres) {
        if let Some(d) = r {
            out.violation("read-chunking", d, json!({"kind": "read", "chunking": format!("{:?}", c)}));
        }
    }
    // the library's own writes read back by the library under 1-byte reads: a few multi-frame transfers
    let n_neg = negotiated(&mut out);
    out.set("negotiated_pairs", n_neg);
    let n_hdr = header_stage(&mut out);
    out.set("header_read_partitions", n_hdr);
    let (n_big, big_refused, big_written) = big_state_stage(ctx, &mut out);
    out.set("large_state_transfer_cases", n_big);
    out.set("large_state_transfers_refused", big_refused);
    out.set("large_state_transfers_written", big_written);
    out.set("evaluations", n_write + n_read + wcases.len() as u64 * 4 + 1 + n_neg + n_hdr + n_big);
    out.set("write_cases", n_write);
    out.set("multi_frame_writes", *multi.lock().unwrap());
    out.set("read_partitions", n_read);
    out.set("distinct_nontrivial", distinct.into_inner().unwrap().len() as u64);
    out.set("rule", "write: every performative kind x 3 channels x 4 field subsets, empty frame, transfers with every payload length 0..3m+16 (m=512) / +-40 around each multiple of the frame body (other m) x tag lengths x field subsets, pre-split (more=true) inputs, through the real Transport at each max-frame-size; stream parsed by the independent frame parser and judged (complete frames, size <= m, header, performative fields vs spec expectation, more flags, payload concatenation); oversized open; write chunking. read: a reference-encoded stream of all performative kinds (narrowest and widest encodings), empty frames and transfers with payload read through the real Transport under every uniform chunk size, every single split offset and every pair of split offsets in the first 12 bytes; result compared with whole reads. negotiated: a real client connection announcing max-frame-size L against a scripted peer announcing R for 7 (L,R) pairs: every frame the library writes is <= R, and a transfer frame of exactly L bytes from the peer is accepted. header: a real client, a real listener and a real listener with a SASL layer read the peer's 8-byte protocol header (and what follows) in reads of k bytes (k=1..9), with one and with two read boundaries at every position inside the header: the handshake succeeds as with whole reads. large state: transfers whose performative carries a rejected state with a description of every length that puts the performative (first frame and continuation frames) just below, at and above the frame body size, each in a sub-process (3 GiB address-space limit, 20 s): refused with an error, or written as valid frames <= m whose payloads concatenate; never a panic, crash or hang. distinct = distinct byte streams written");
    out.set("exhaustive", true);
    out.set("bound", format!("max-frame-sizes {:?}", ms));
    out.set(
        "samples",
        json!([
            describe(&cases[cases.len() / 2].0),
            describe(&cases[cases.len() - 1].0),
            format!("read side: {}-byte reference stream of {nframes} frames, e.g. {:?}", stream.len(), chunkings[chunkings.len() / 2])
        ]),
    );
    out.assume("frames are judged by refamqp's frame parser and field tables; the scripted transport (vpipe) hands out exactly the configured chunk sizes");
    out
}

fn replay(p: &std::path::Path, mut out: Outcome) -> Outcome {
    let s = std::fs::read_to_string(p).unwrap_or_default();
    println!("C06 replay: the failing case is described in the replay file; re-running the full quick enumeration");
    let _ = s;
    let ctx = Ctx {
        id: "C06".into(),
        tier: vlib::report::Tier::Quick,
        seed: 0,
        budget_s: 60.0,
        start: std::time::Instant::now(),
        replay: None,
        threads: 8,
    };
    let o = run(&ctx);
    out.violations = o.violations;
    out.coverage = o.coverage;
    out
}

#[allow(dead_code)]
fn unused(_: &Attach) -> String {
    dbg(&1)
}

// ------------------------------------------------------------------------------------------------
// Transfers whose performative is about as large as a frame body (a long delivery state), each case in a
// sub-process: an encoder that cannot make progress allocates without bound, which must not take the checker down
// ------------------------------------------------------------------------------------------------

fn big_state_transfer(state_len: usize, payload_len: usize, settled_fields: bool) -> (Frame, Vec<u8>) {
    use fe2o3_amqp_types::definitions::{AmqpError, Error as AmqpErr, Handle};
    use fe2o3_amqp_types::messaging::{DeliveryState, Rejected};
    let payload: Vec<u8> = (0..payload_len).map(|i| (i * 13 + 5) as u8).collect();
    let t = Transfer {
        handle: Handle(3),
        delivery_id: Some(9),
        delivery_tag: Some(serde_bytes::ByteBuf::from(vec![1u8, 2, 3, 4])),
        message_format: Some(0),
        settled: if settled_fields { Some(false) } else { None },
        more: false,
        rcv_settle_mode: None,
        state: Some(DeliveryState::Rejected(Rejected { error: Some(AmqpErr::new(AmqpError::NotAllowed, Some("d".repeat(state_len)), None)) })),
        resume: settled_fields,
        aborted: false,
        batchable: false,
    };
    (Frame::new(5u16, FrameBody::Transfer { performative: t, payload: bytes::Bytes::from(payload.clone()) }), payload)
}

/// `vcheck C06-one <m> <state_len> <payload_len> <0|1>`: prints one line `PANIC ..` / `ERR ..` / `OK <hex>`
pub fn one_main(args: &[String]) -> i32 {
    let m: usize = args[0].parse().unwrap();
    let sl: usize = args[1].parse().unwrap();
    let pl: usize = args[2].parse().unwrap();
    let sf = args[3] == "1";
    unsafe {
        let lim = libc::rlimit { rlim_cur: 3 << 30, rlim_max: 3 << 30 };
        libc::setrlimit(libc::RLIMIT_AS, &lim);
    }
    vlib::runner::install_panic_hook();
    let r = catch(|| {
        let (frame, _) = big_state_transfer(sl, pl, sf);
        let r = rt();
        r.block_on(async move {
            let (pipe, a, _b) = Pipe::new();
            let mut t: Transport<_, Frame> = Transport::bind(a, m, None);
            t.send(frame).await.map_err(|e| format!("send failed: {e:?}"))?;
            t.flush().await.map_err(|e| format!("flush failed: {e:?}"))?;
            Ok::<Vec<u8>, String>(pipe.take_bytes(1))
        })
    });
    match r {
        Err(p) => println!("PANIC {}", p.replace('\n', " ")),
        Ok(Err(e)) => println!("ERR {}", e.replace('\n', " ")),
        Ok(Ok(b)) => println!("OK {}", b.iter().map(|x| format!("{:02x}", x)).collect::<String>()),
    }
    0
}

fn run_one_big_state(m: usize, sl: usize, pl: usize, sf: bool) -> Result<String, String> {
    use std::io::Read;
    use std::process::{Command, Stdio};
    let exe = std::env::current_exe().map_err(|e| e.to_string())?;
    let mut child = Command::new(exe)
        .args(["C06-one", &m.to_string(), &sl.to_string(), &pl.to_string(), if sf { "1" } else { "0" }])
        .stdout(Stdio::piped())
        .stderr(Stdio::null())
        .spawn()
        .map_err(|e| format!("spawn: {e}"))?;
    let mut so = child.stdout.take().unwrap();
    let reader = std::thread::spawn(move || {
        let mut s = String::new();
        let _ = so.read_to_string(&mut s);
        s
    });
    let start = Instant::now();
    loop {
        match child.try_wait() {
            Ok(Some(st)) => {
                let s = reader.join().unwrap_or_default();
                if let Some(l) = s.lines().find(|l| l.starts_with("OK ") || l.starts_with("ERR ") || l.starts_with("PANIC ")) {
                    return Ok(l.to_string());
                }
                return Ok(format!("CRASH exit status {st} (memory limit 3 GiB)"));
            }
            Ok(None) => {
                if start.elapsed() > Duration::from_secs(20) {
                    let _ = child.kill();
                    let _ = child.wait();
                    return Ok("HANG no result within 20 s".into());
                }
                std::thread::sleep(Duration::from_millis(5));
            }
            Err(e) => return Err(format!("wait: {e}")),
        }
    }
}

/// (cases, refused, written) ; a refusal (send error) is a correct answer to a performative that cannot fit
fn big_state_stage(ctx: &Ctx, out: &mut Outcome) -> (u64, u64, u64) {
    let mut cases: Vec<(usize, usize, usize, bool)> = vec![];
    for m in [512usize, 600] {
        // the transfer performative is about 55 bytes + the description: sweep its size across the frame body
        for sl in (m - 130)..=(m + 10) {
            for pl in [0usize, 1, 700] {
                for sf in [false, true] {
                    if ctx.quick() && (sl % 2 == 1) && sf {
                        continue;
                    }
                    cases.push((m, sl, pl, sf));
                }
            }
        }
    }
    let res = par_map(&cases, ctx.threads, |_, (m, sl, pl, sf)| run_one_big_state(*m, *sl, *pl, *sf));
    let (mut refused, mut written) = (0u64, 0u64);
    let mut seen: HashSet<String> = HashSet::new();
    for ((m, sl, pl, sf), r) in cases.iter().zip(res) {
        let what = format!("transfer with state=rejected(description of {sl} bytes), payload {pl} B, resume={sf} at max-frame-size {m}");
        let mut fails: Vec<(String, String)> = vec![];
        match r {
            Err(e) => {
                if out.machinery_errors.len() < 4 {
                    out.machinery_errors.push(format!("C06 big-state worker: {e}"));
                }
            }
            Ok(l) if l.starts_with("ERR ") => refused += 1,
            Ok(l) if l.starts_with("PANIC ") => fails.push(("panic write (transfer with a large delivery state)".into(), format!("{what}: {}", &l[6..]))),
            Ok(l) if l.starts_with("CRASH") || l.starts_with("HANG") => fails.push(("encoder-no-progress (transfer with a large delivery state)".into(), format!("{what}: {l}"))),
            Ok(l) => {
                written += 1;
                let bytes = vlib::util::unhex(&l[3..]).unwrap_or_default();
                let (_, payload) = big_state_transfer(*sl, *pl, *sf);
                match refamqp::parse_frames(&bytes) {
                    Ok((frames, used)) if used == bytes.len() && !frames.is_empty() => {
                        let mut cat = vec![];
                        let n = frames.len();
                        for (i, fr) in frames.iter().enumerate() {
                            if fr.size as usize > *m {
                                fails.push(("oversized-frame transfer (large delivery state)".into(), format!("{what}: frame {i} of {n} has size {} > {m}", fr.size)));
                            }
                            match refamqp::split_body(&fr.body) {
                                Ok(Some((perf, p))) => {
                                    cat.extend_from_slice(p);
                                    match refamqp::validate_composite(&perf) {
                                        Ok((comp, fields)) if comp.name == "transfer" => {
                                            let more = matches!(fields.get(5), Some(RVal::Bool(true)));
                                            if (i + 1 < n) != more {
                                                fails.push(("transfer more-flag (large delivery state)".into(), format!("{what}: frame {i} of {n} has more={more}")));
                                            }
                                        }
                                        _ => fails.push(("undecodable-body transfer (large delivery state)".into(), format!("{what}: frame {i} does not carry a valid transfer"))),
                                    }
                                }
                                _ => fails.push(("undecodable-body transfer (large delivery state)".into(), format!("{what}: body of frame {i}/{n} is not a performative"))),
                            }
                        }
                        if cat != payload {
                            fails.push(("transfer payload-corrupted (large delivery state)".into(), format!("{what}: payloads concatenate to {} bytes, original {}", cat.len(), payload.len())));
                        }
                    }
                    _ => fails.push(("not-a-frame-sequence transfer (large delivery state)".into(), format!("{what}: the {} bytes written are not a sequence of complete frames", bytes.len()))),
                }
            }
        }
        for (s, d) in fails {
            if seen.insert(s.clone()) {
                out.violation(s, d, json!({"kind": "big-state", "m": m, "state_len": sl, "payload_len": pl, "resume": sf}));
            }
        }
    }
    (cases.len() as u64, refused, written)
}


/// oversize non-transfer performatives of several kinds (a long description / a large properties map) at m = 512, 600
fn refused_leaves_nothing(out: &mut Outcome) -> u64 {
    use fe2o3_amqp_types::definitions::{AmqpError, Error as AmqpErr, Handle};
    let mut n = 0u64;
    for m in [512usize, 600] {
        for kind in ["open", "attach", "detach", "end", "close", "disposition"] {
            for extra in [0usize, 1, 200] {
                let long = "x".repeat(m + extra);
                let err = || Some(AmqpErr::new(AmqpError::InternalError, Some(long.clone()), None));
                let body = match kind {
                    "open" => {
                        let (mut o, _, _) = typed::gen_open(0, false);
                        let mut props = serde_amqp::primitives::OrderedMap::new();
                        props.insert(serde_amqp::primitives::Symbol::from("k"), serde_amqp::Value::String(long.clone()));
                        o.properties = Some(props);
                        FrameBody::Open(o)
                    }
                    "attach" => {
                        let (mut a, _, _) = typed::gen_attach(0, false);
                        let mut props = serde_amqp::primitives::OrderedMap::new();
                        props.insert(serde_amqp::primitives::Symbol::from("k"), serde_amqp::Value::String(long.clone()));
                        a.properties = Some(props);
                        FrameBody::Attach(a)
                    }
                    "detach" => FrameBody::Detach(Detach { handle: Handle(1), closed: true, error: err() }),
                    "end" => FrameBody::End(End { error: err() }),
                    "close" => FrameBody::Close(Close { error: err() }),
                    _ => {
                        let (mut d, _, _) = typed::gen_disposition(0, false);
                        d.state = Some(fe2o3_amqp_types::messaging::DeliveryState::Rejected(fe2o3_amqp_types::messaging::Rejected { error: err() }));
                        FrameBody::Disposition(d)
                    }
                };
                n += 1;
                let r = catch(|| {
                    let r = rt();
                    r.block_on(async {
                        let (pipe, a, _b) = Pipe::new();
                        let mut t: Transport<_, Frame> = Transport::bind(a, m, None);
                        let first = t.send(Frame::new(1u16, body)).await.is_ok();
                        let _ = t.flush().await;
                        let second = t.send(Frame::new(0u16, FrameBody::End(End { error: None }))).await.is_ok();
                        let _ = t.flush().await;
                        let _ = t.close().await;
                        (first, second, pipe.take_bytes(1))
                    })
                });
                let what = format!("{kind} of more than {} bytes at max-frame-size {m}", m + extra);
                match r {
                    Err(p) => out.violation("panic write (oversize non-transfer)".to_string(), format!("{what}: {p}"), json!({"kind": "refused", "perf": kind, "m": m, "extra": extra})),
                    Ok((first, second, bytes)) => {
                        let ok = match refamqp::parse_frames(&bytes) {
                            Ok((frames, used)) => {
                                used == bytes.len()
                                    && frames.iter().all(|f| f.size as usize <= m && refamqp::split_body(&f.body).map(|b| b.map(|(p, _)| refamqp::validate_composite(&p).is_ok()).unwrap_or(true)).unwrap_or(false))
                                    // the refused performative is not on the wire: at most the small end frame
                                    && (first || frames.len() <= 1)
                            }
                            Err(_) => false,
                        };
                        if !ok {
                            out.violation(
                                if first { "oversized-non-transfer chopped".to_string() } else { "refused-frame-left-bytes-behind".to_string() },
                                format!(
                                    "{what}: send() {}; after a flush, a small end frame (send {}) and close() the wire carries {} bytes that are not a sequence of complete valid frames <= {m}: {}",
                                    if first { "was accepted" } else { "was refused with an error" },
                                    if second { "ok" } else { "failed" },
                                    bytes.len(),
                                    hex(&bytes)
                                ),
                                json!({"kind": "refused", "perf": kind, "m": m, "extra": extra}),
                            );
                        }
                    }
                }
            }
        }
    }
    n
}
