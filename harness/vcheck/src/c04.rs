//! C04 - decoding untrusted bytes is total and resource-bounded.
//!
//! Exhaustive enumeration of short byte strings and structure-aware corruptions of valid encodings,
//! each decoded as every public type through both readers and through the frame decoders.  The
//! sweeps run in worker sub-processes (a stack overflow or allocation failure kills only the worker;
//! the input it was working on is read back from a memory-mapped progress file).
use crate::alloc_track;
use crate::c03::hex_full;
use crate::typed;
use bytes::BytesMut;
use fe2o3_amqp::frames::amqp::FrameDecoder;
use fe2o3_amqp::frames::sasl::{Frame as SaslFrame, FrameCodec as SaslCodec};
use fe2o3_amqp_types::messaging::message::__private::{Deserializable, Serializable};
use fe2o3_amqp_types::messaging::{Body, Message};
use fe2o3_amqp_types::performatives::Performative;
use serde_amqp::lazy::LazyValue;
use serde_amqp::Value;
use serde_json::json;
use std::collections::{BTreeMap, HashSet};
use std::io::{BufRead, BufReader, Write};
use std::process::{Command, Stdio};
use std::sync::atomic::{AtomicUsize, Ordering};
use std::sync::Mutex;
use std::time::{Duration, Instant};
use tokio_util::codec::Decoder;
use vlib::report::{Ctx, Outcome};
use vlib::util::{catch, hex, unhex};

const INTERESTING: &[u8] = &[
    0x00, 0x01, 0x02, 0x03, 0x04, 0x7f, 0x80, 0xfe, 0xff, 0x40, 0x41, 0x42, 0x43, 0x44, 0x45, 0x50, 0x51, 0x52, 0x53, 0x54, 0x55, 0x56,
    0x60, 0x61, 0x70, 0x71, 0x72, 0x73, 0x74, 0x80, 0x81, 0x82, 0x83, 0x84, 0x94, 0x98, 0xa0, 0xa1, 0xa3, 0xb0, 0xb1, 0xb3, 0xc0, 0xc1,
    0xd0, 0xd1, 0xe0, 0xf0, 0x10, 0x14, 0x77, 0x75,
];

fn alphabet() -> Vec<u8> {
    let mut a = INTERESTING.to_vec();
    a.sort();
    a.dedup();
    a
}

#[derive(Clone, Debug)]
pub struct Family {
    pub name: &'static str,
    pub count: u64,
}

/// all strings over an alphabet of size k with length 0..=maxlen, index -> string
fn nth_string(alpha: &[u8], maxlen: usize, mut idx: u64) -> Option<Vec<u8>> {
    let k = alpha.len() as u64;
    let mut len = 0usize;
    let mut block = 1u64;
    loop {
        if idx < block {
            break;
        }
        idx -= block;
        len += 1;
        if len > maxlen {
            return None;
        }
        block *= k;
    }
    let mut v = vec![0u8; len];
    for i in (0..len).rev() {
        v[i] = alpha[(idx % k) as usize];
        idx /= k;
    }
    Some(v)
}
fn count_strings(k: u64, maxlen: usize) -> u64 {
    (0..=maxlen).map(|l| k.pow(l as u32)).sum()
}

/// valid encodings used as seeds of the corruption family
fn seeds(thorough: bool) -> Vec<Vec<u8>> {
    let mut out = vec![];
    for v in vlib::corpus::leaves() {
        if let Ok(b) = serde_amqp::to_vec(&v) {
            if b.len() <= 40 {
                out.push(b);
            }
        }
    }
    let l1 = vlib::corpus::level1();
    for v in l1.iter().step_by(if thorough { 3 } else { 17 }) {
        let b = refamqp::encode_narrowest(&vlib::corpus::value_to_rval(v));
        if b.len() <= 48 {
            out.push(b);
        }
        let b = refamqp::encode_widest(&vlib::corpus::value_to_rval(v));
        if b.len() <= 48 {
            out.push(b);
        }
    }
    for v in vlib::corpus::level2().iter().step_by(if thorough { 5 } else { 29 }) {
        let b = refamqp::encode_narrowest(&vlib::corpus::value_to_rval(v));
        if b.len() <= 64 {
            out.push(b);
        }
    }
    // typed: all fields present
    macro_rules! t {
        ($g:path, $bits:expr) => {{
            let (x, _, _) = $g((1u64 << $bits) - 1, false);
            if let Ok(b) = serde_amqp::to_vec(&x) {
                out.push(b);
            }
            let (x, _, _) = $g(0, true);
            if let Ok(b) = serde_amqp::to_vec(&x) {
                out.push(b);
            }
        }};
    }
    t!(typed::gen_open, 9);
    t!(typed::gen_begin, 5);
    t!(typed::gen_attach, 11);
    t!(typed::gen_flow, 8);
    t!(typed::gen_transfer, 10);
    t!(typed::gen_disposition, 4);
    t!(typed::gen_detach, 2);
    t!(typed::gen_end, 1);
    t!(typed::gen_close, 1);
    t!(typed::gen_sasl_mechanisms, 0);
    t!(typed::gen_sasl_init, 2);
    t!(typed::gen_sasl_challenge, 0);
    t!(typed::gen_sasl_response, 0);
    t!(typed::gen_sasl_outcome, 1);
    for m in [0b111111u64 | (0 << 6), 0b001001 | (2 << 6), 0b100000 | (4 << 6), 3 << 6] {
        let (msg, _, _) = typed::gen_message(m, false);
        if let Ok(b) = serde_amqp::to_vec(&Serializable(&msg)) {
            out.push(b);
        }
    }
    // messages whose sections name their descriptor by symbol (sym8 and sym32 width) or by the 8-byte ulong: the
    // decoder peeks at such a descriptor several times before it consumes it
    for form in 0..3usize {
        let d = |code: u8, name: &str| -> Vec<u8> {
            let mut v = vec![0x00];
            match form {
                0 => {
                    v.extend([0xa3, name.len() as u8]);
                    v.extend(name.as_bytes());
                }
                1 => {
                    v.push(0xb3);
                    v.extend((name.len() as u32).to_be_bytes());
                    v.extend(name.as_bytes());
                }
                _ => v.extend([0x80, 0, 0, 0, 0, 0, 0, 0, code]),
            }
            v
        };
        let mut m = d(0x70, "amqp:header:list");
        m.extend([0xc0, 0x02, 0x01, 0x41]);
        m.extend(d(0x73, "amqp:properties:list"));
        m.extend([0xc0, 0x04, 0x01, 0xa1, 0x01, b'i']);
        let mut a = m.clone();
        a.extend(d(0x77, "amqp:amqp-value:*"));
        a.extend([0xa1, 0x02, b'h', b'i']);
        out.push(a);
        let mut b = m.clone();
        b.extend(d(0x75, "amqp:data:binary"));
        b.extend([0xa0, 0x02, 0x01, 0x02]);
        b.extend(d(0x75, "amqp:data:binary"));
        b.extend([0xa0, 0x01, 0x03]);
        b.extend(d(0x78, "amqp:footer:map"));
        b.extend([0xc1, 0x01, 0x00]);
        out.push(b);
        let mut c = d(0x76, "amqp:amqp-sequence:list");
        c.extend([0xc0, 0x03, 0x01, 0x50, 0x07]);
        out.push(c);
    }
    let mut seen = HashSet::new();
    out.retain(|b| seen.insert(b.clone()));
    out
}

/// corruption family: truncation at every offset; every position overwritten with each of a few bytes
fn corruptions(thorough: bool) -> Vec<Vec<u8>> {
    let subs: &[u8] = if thorough {
        &[0x00, 0x01, 0x02, 0x7f, 0x80, 0xfe, 0xff, 0x40, 0x45, 0xc0, 0xd0, 0xe0, 0xf0, 0xa1, 0xb1]
    } else {
        &[0x00, 0x01, 0x7f, 0xff, 0xe0, 0xd0]
    };
    let mut out = vec![];
    for s in seeds(thorough) {
        for cut in 0..s.len() {
            out.push(s[..cut].to_vec());
        }
        for i in 0..s.len() {
            for b in subs {
                if s[i] != *b {
                    let mut c = s.clone();
                    c[i] = *b;
                    out.push(c);
                }
            }
            // +1 / -1 on the byte (size and count fields: true+1 / true-1)
            for d in [1u8, 0xff] {
                let mut c = s.clone();
                c[i] = c[i].wrapping_add(d);
                out.push(c);
            }
        }
        // one byte more / duplicated tail
        let mut c = s.clone();
        c.push(0x40);
        out.push(c);
    }
    out
}

/// Amplifiers: compound headers that claim the largest count the decoder admits (and sizes to match, or none) with
/// little or no body behind them - alone, nested as the first element / first key of one another k levels deep, and
/// as siblings inside one list.  What is judged on them is memory: the peak of live heap while decoding must stay
/// in proportion to the input length.
fn amplifiers(thorough: bool) -> Vec<Vec<u8>> {
    let mut heads: Vec<(Vec<u8>, bool)> = vec![]; // (header bytes, is a map: nested value goes in key position)
    let counts: &[u32] = if thorough { &[65536, 65535, 32768, 4096] } else { &[65536, 4096] };
    for &c in counts {
        for size in [4u32, c, c.saturating_mul(4), c.saturating_mul(9).saturating_add(16)] {
            for code in [0xd0u8, 0xd1] {
                let mut h = vec![code];
                h.extend(size.to_be_bytes());
                h.extend(c.to_be_bytes());
                heads.push((h, code == 0xd1));
            }
            for ctor in [0x40u8, 0x41, 0x43, 0x44, 0x45, 0x50, 0x70, 0xa0, 0xc0] {
                let mut h = vec![0xf0];
                h.extend(size.to_be_bytes());
                h.extend(c.to_be_bytes());
                h.push(ctor);
                heads.push((h, false));
            }
        }
    }
    for (code, is_map) in [(0xc0u8, false), (0xc1, true)] {
        heads.push((vec![code, 0xff, 0xff], is_map));
        heads.push((vec![code, 0xff, 0xfe], is_map));
    }
    for ctor in [0x40u8, 0x45, 0x50] {
        heads.push((vec![0xe0, 0xff, 0xff, ctor], false));
    }
    let mut out = vec![];
    let levels: &[usize] = if thorough { &[1, 2, 3, 4, 8, 12, 16, 20, 24, 32] } else { &[1, 2, 8, 20] };
    for (h, _is_map) in &heads {
        for &k in levels {
            for leaf in [&[][..], &[0x40][..], &[0x40, 0x40][..]] {
                let mut v = vec![];
                for _ in 0..k {
                    v.extend(h);
                }
                v.extend(leaf);
                out.push(v);
            }
        }
        // siblings: a list32 of n copies of (header + null)
        for n in [2usize, 45] {
            let mut body = vec![];
            for _ in 0..n {
                body.extend(h);
                body.push(0x40);
            }
            let mut v = vec![0xd0];
            v.extend(((body.len() + 4) as u32).to_be_bytes());
            v.extend((n as u32).to_be_bytes());
            v.extend(body);
            out.push(v);
        }
    }
    out
}

/// nesting bombs up to the 64 KiB a frame can typically carry
fn bombs(thorough: bool) -> Vec<Vec<u8>> {
    let mut out = vec![];
    let depths: Vec<usize> = if thorough {
        vec![16, 64, 128, 256, 512, 1024, 2048, 4096, 8192, 16384, 21000]
    } else {
        vec![16, 128, 1024, 4096, 8192]
    };
    for d in depths {
        // list8 nesting while it fits into 255 bytes, then list32
        for kind in ["list", "map", "array", "described", "described-list"] {
            let mut inner: Vec<u8> = vec![0x40];
            let mut ok = true;
            for _ in 0..d {
                let mut v = vec![];
                match kind {
                    "list" => {
                        if inner.len() + 1 <= 255 {
                            v.push(0xc0);
                            v.push((inner.len() + 1) as u8);
                            v.push(1);
                        } else {
                            v.push(0xd0);
                            v.extend(((inner.len() + 4) as u32).to_be_bytes());
                            v.extend(1u32.to_be_bytes());
                        }
                        v.extend(&inner);
                    }
                    "map" => {
                        // {null: inner}
                        if inner.len() + 2 <= 255 {
                            v.push(0xc1);
                            v.push((inner.len() + 2) as u8);
                            v.push(2);
                        } else {
                            v.push(0xd1);
                            v.extend(((inner.len() + 5) as u32).to_be_bytes());
                            v.extend(2u32.to_be_bytes());
                        }
                        v.push(0x40);
                        v.extend(&inner);
                    }
                    "array" => {
                        // array32 of one array ... innermost null
                        v.push(0xf0);
                        v.extend(((inner.len() + 4) as u32).to_be_bytes());
                        v.extend(1u32.to_be_bytes());
                        v.extend(&inner);
                    }
                    "described" => {
                        v.push(0x00);
                        v.push(0x43);
                        v.extend(&inner);
                    }
                    _ => {
                        // described(list[ described(list[ ... ]) ])
                        v.push(0x00);
                        v.push(0x53);
                        v.push(0x77);
                        v.push(0xd0);
                        v.extend(((inner.len() + 4) as u32).to_be_bytes());
                        v.extend(1u32.to_be_bytes());
                        v.extend(&inner);
                    }
                }
                if v.len() > 65536 {
                    ok = false;
                    break;
                }
                inner = v;
            }
            if ok {
                out.push(inner);
            }
        }
        // nesting through the DESCRIPTOR position: a described value whose descriptor is a described value ...
        if d <= 16384 {
            let mut inner: Vec<u8> = vec![0xa3, 0x01, b'a'];
            for _ in 0..d {
                let mut v = vec![0x00];
                v.extend(&inner);
                v.push(0x40);
                inner = v;
            }
            out.push(inner);
        }
        // ... and the bare run of descriptor markers (what a reader sees before any value)
        out.push(vec![0x00; (d * 4).min(65536)]);
    }
    // huge declared sizes / counts on tiny inputs
    for code in [0xb0u8, 0xb1, 0xb3, 0xd0, 0xd1, 0xf0] {
        for n in [0x7fff_ffffu32, 0x8000_0000, 0xffff_ffff, 0x0100_0000, 0x0001_0000] {
            let mut v = vec![code];
            v.extend(n.to_be_bytes());
            out.push(v.clone());
            v.extend(n.to_be_bytes());
            out.push(v.clone());
            v.push(0x40);
            out.push(v.clone());
            v.extend([0x40; 8]);
            out.push(v);
        }
    }
    out
}

/// every corpus value in its narrowest and widest spec-valid encoding, uncorrupted: decoding VALID bytes
/// must be total too
fn valid_corpus(thorough: bool) -> Vec<Vec<u8>> {
    let mut out = vec![];
    let mut seen = HashSet::new();
    for v in vlib::corpus::values(if thorough { 3 } else { 2 }) {
        let rv = vlib::corpus::value_to_rval(&v);
        if rv.well_formed().is_err() {
            continue;
        }
        for b in [refamqp::encode_narrowest(&rv), refamqp::encode_widest(&rv)] {
            if b.len() <= 65536 && seen.insert(b.clone()) {
                out.push(b);
            }
        }
    }
    out
}

pub fn families(thorough: bool) -> Vec<Family> {
    let k = alphabet().len() as u64;
    vec![
        Family {
            name: "all-bytes",
            count: count_strings(256, if thorough { 3 } else { 2 }),
        },
        Family {
            name: "interesting",
            count: count_strings(k, if thorough { 4 } else { 3 }),
        },
        Family {
            name: "corruptions",
            count: corruptions(thorough).len() as u64,
        },
        Family {
            name: "bombs",
            count: bombs(thorough).len() as u64,
        },
        Family {
            name: "valid-corpus",
            count: valid_corpus(thorough).len() as u64,
        },
        Family {
            name: "amplifiers",
            count: amplifiers(thorough).len() as u64,
        },
    ]
}

struct Gen {
    family: String,
    thorough: bool,
    list: Vec<Vec<u8>>,
    alpha: Vec<u8>,
}
impl Gen {
    fn new(family: &str, thorough: bool) -> Self {
        let list = match family {
            "corruptions" => corruptions(thorough),
            "bombs" => bombs(thorough),
            "valid-corpus" => valid_corpus(thorough),
            "amplifiers" => amplifiers(thorough),
            _ => vec![],
        };
        Gen {
            family: family.to_string(),
            thorough,
            list,
            alpha: alphabet(),
        }
    }
    fn get(&self, idx: u64) -> Option<Vec<u8>> {
        match self.family.as_str() {
            "all-bytes" => {
                let a: Vec<u8> = (0..=255u8).collect();
                nth_string(&a, if self.thorough { 3 } else { 2 }, idx)
            }
            "interesting" => nth_string(&self.alpha, if self.thorough { 4 } else { 3 }, idx),
            _ => self.list.get(idx as usize).cloned(),
        }
    }
}

// ---------------------------------------------------------------------------------- the oracle
fn code_name(b: Option<&u8>) -> String {
    match b {
        None => "empty".into(),
        Some(b) => match refamqp::code_info(*b) {
            Some((n, _, _)) => n.to_string(),
            None if *b == 0 => "described".into(),
            None => "unknown-code".into(),
        },
    }
}

fn panic_msg_class(p: &str) -> String {
    // "msg @ file:line" -> "msg @ file" (line numbers shift with unrelated edits)
    let (msg, loc) = p.rsplit_once(" @ ").unwrap_or((p, ""));
    let file = loc.rsplit_once(':').map(|x| x.0).unwrap_or(loc);
    let file = file.rsplit('/').next().unwrap_or(file);
    let mut m: String = msg.chars().filter(|c| !c.is_ascii_digit()).collect();
    m.truncate(60);
    format!("{m} @ {file}")
}

/// decode `input` as every public type; returns violations (signature, detail)
pub fn judge(input: &[u8]) -> Vec<(String, String)> {
    let mut out = vec![];
    // 8 MiB flat allowance: the decoder's own cap of 65 536 zero-width array elements (72-byte values)
    // legitimately materialises up to 4.7 MB from a 10-byte encoding
    let limit = 128 * input.len() + (8 << 20);
    let first = code_name(input.first());
    // memory in proportion to the input: the total of live heap, not only the largest single request.  64 KiB per
    // input byte is three orders of magnitude above what a value tree needs (72 bytes per 1-byte element).
    let peak_limit = (8 << 20) + 65536 * input.len();
    // class of an amplification: arrays whose element constructor is zero-width materialise `count` values from no
    // bytes at all (the decoder caps the count at 65 536 per array); everything else is named by the first code
    let amp_class = {
        const ZW: [u8; 6] = [0x40, 0x41, 0x42, 0x43, 0x44, 0x45];
        let zw = (0..input.len()).any(|p| (input[p] == 0xf0 && input.get(p + 9).is_some_and(|c| ZW.contains(c))) || (input[p] == 0xe0 && input.get(p + 3).is_some_and(|c| ZW.contains(c))));
        if zw { "array-of-zero-width-elements".to_string() } else { format!("first={first}") }
    };
    macro_rules! target {
        ($name:expr, $body:expr) => {{
            alloc_track::start();
            let r = catch(|| $body);
            let (maxreq, peak) = alloc_track::stop();
            // (the re-encoding step is the harness's own doing: its memory is not the decoder's)
            if peak > peak_limit && $name != "reencode" {
                out.push((
                    format!("amplified-alloc {} {}", amp_class, $name),
                    format!(
                        "decoding the {}-byte input {} as {} has {} bytes of heap live at its peak (bound: 8 MiB + 64 KiB per input byte = {})",
                        input.len(),
                        hex(input),
                        $name,
                        peak,
                        peak_limit
                    ),
                ));
            }
            if let Err(p) = &r {
                out.push((
                    format!("panic {} {}", $name, panic_msg_class(p)),
                    format!("decoding {} as {} panics: {p}", hex(input), $name),
                ));
            }
            if maxreq > limit && $name != "reencode" {
                out.push((
                    format!("huge-alloc {} first={first}", $name),
                    format!(
                        "decoding the {}-byte input {} as {} requests a single allocation of {} bytes",
                        input.len(),
                        hex(input),
                        $name,
                        maxreq
                    ),
                ));
            }
            r.ok()
        }};
    }
    // Value through both readers + re-encode stability
    let a = target!("Value(slice)", serde_amqp::from_slice::<Value>(input));
    let b = target!("Value(reader)", serde_amqp::from_reader::<Value>(std::io::Cursor::new(input)));
    if let (Some(a), Some(b)) = (&a, &b) {
        match (a, b) {
            (Ok(x), Ok(y)) if x != y => out.push((
                format!("slice-vs-reader first={first}"),
                format!("{} decodes to {:?} via slice but {:?} via reader", hex(input), x, y),
            )),
            (Ok(x), Err(e)) => out.push((
                format!("slice-ok-reader-err first={first}"),
                format!("{} decodes to {:?} via slice but reader fails: {e}", hex(input), x),
            )),
            (Err(e), Ok(y)) => out.push((
                format!("slice-err-reader-ok first={first}"),
                format!("{} fails via slice ({e}) but reader gives {:?}", hex(input), y),
            )),
            _ => {}
        }
    }
    if let Some(Ok(v)) = &a {
        // when decoding succeeds, re-encoding the result and decoding again gives the same value
        let r = target!("reencode", {
            match serde_amqp::to_vec(v) {
                Ok(bytes) => match serde_amqp::from_slice::<Value>(&bytes) {
                    Ok(v2) => {
                        if &v2 == v {
                            Ok(())
                        } else {
                            Err(format!("decode(encode(v)) = {:?}", v2))
                        }
                    }
                    Err(e) => Err(format!("re-encoded bytes {} rejected: {e}", hex(&bytes))),
                },
                Err(e) => Err(format!("re-encode failed: {e}")),
            }
        });
        if let Some(Err(e)) = r {
            let cls = crate::c05::array_of_compound(v)
                .map(|s| s.to_string())
                .or_else(|| if crate::c05::zero_width_array(v) { Some("array-zero-width-elements".into()) } else { None })
                .unwrap_or_else(|| vlib::corpus::shape(v));
            out.push((
                format!("reencode-unstable {cls}"),
                format!("{} decodes to {:?} but {e}", hex(input), v),
            ));
        }
    }
    let _ = target!("Performative(slice)", serde_amqp::from_slice::<Performative>(input).map(|_| ()));
    let _ = target!("Performative(reader)", serde_amqp::from_reader::<Performative>(std::io::Cursor::new(input)).map(|_| ()));
    let _ = target!("SaslFrame(slice)", serde_amqp::from_slice::<SaslFrame>(input).map(|_| ()));
    let _ = target!(
        "Message(slice)",
        serde_amqp::from_slice::<Deserializable<Message<Body<Value>>>>(input).map(|_| ())
    );
    let _ = target!(
        "Message(reader)",
        serde_amqp::from_reader::<Deserializable<Message<Body<Value>>>>(std::io::Cursor::new(input)).map(|_| ())
    );
    let _ = target!("LazyValue(slice)", serde_amqp::from_slice::<LazyValue>(input).map(|_| ()));
    let _ = target!("LazyValue(reader)", serde_amqp::from_reader::<LazyValue>(std::io::Cursor::new(input)).map(|_| ()));
    // frame decoders: header (doff=2, type, channel) + body
    let _ = target!("FrameDecoder", {
        let mut src = BytesMut::with_capacity(input.len() + 4);
        src.extend_from_slice(&[0x02, 0x00, 0x00, 0x00]);
        src.extend_from_slice(input);
        let mut d = FrameDecoder {};
        d.decode(&mut src).map(|_| ())
    });
    let _ = target!("SaslFrameCodec", {
        let mut src = BytesMut::with_capacity(input.len() + 4);
        src.extend_from_slice(&[0x02, 0x01, 0x00, 0x00]);
        src.extend_from_slice(input);
        let mut d = SaslCodec {};
        d.decode(&mut src).map(|_| ())
    });
    // the raw frame (what the length-delimited layer hands over) may be shorter than a header
    let _ = target!("FrameDecoder(raw)", {
        let mut src = BytesMut::from(input);
        let mut d = FrameDecoder {};
        d.decode(&mut src).map(|_| ())
    });
    let _ = target!("SaslFrameCodec(raw)", {
        let mut src = BytesMut::from(input);
        let mut d = SaslCodec {};
        d.decode(&mut src).map(|_| ())
    });
    out
}

// ---------------------------------------------------------------------------------- worker
struct CurFile {
    ptr: *mut u8,
    len: usize,
}
unsafe impl Send for CurFile {}
impl CurFile {
    fn open(path: &str) -> Option<CurFile> {
        use std::os::unix::io::AsRawFd;
        let f = std::fs::OpenOptions::new().read(true).write(true).create(true).truncate(false).open(path).ok()?;
        let len = 8 + 4 + 256;
        f.set_len(len as u64).ok()?;
        let p = unsafe { libc::mmap(std::ptr::null_mut(), len, libc::PROT_READ | libc::PROT_WRITE, libc::MAP_SHARED, f.as_raw_fd(), 0) };
        if p == libc::MAP_FAILED {
            return None;
        }
        Some(CurFile { ptr: p as *mut u8, len })
    }
    fn set(&self, idx: u64) {
        unsafe {
            std::ptr::copy_nonoverlapping(idx.to_le_bytes().as_ptr(), self.ptr, 8);
        }
        let _ = self.len;
    }
}

/// `vcheck C04-worker <family> <from> <to> <curfile> <quick|thorough>`
pub fn worker_main(args: &[String]) -> i32 {
    let family = args[0].clone();
    let from: u64 = args[1].parse().unwrap();
    let to: u64 = args[2].parse().unwrap();
    let cur = CurFile::open(&args[3]);
    let thorough = args[4] == "thorough";
    vlib::runner::install_panic_hook();
    // all decodes run on a 2 MiB stack: what a tokio worker thread (where frames are decoded) has
    let h = std::thread::Builder::new()
        .stack_size(2 << 20)
        .spawn(move || {
            let gen = Gen::new(&family, thorough);
            let stdout = std::io::stdout();
            let mut lock = stdout.lock();
            let mut n = 0u64;
            let mut ok_decodes = 0u64;
            for idx in from..to {
                let Some(input) = gen.get(idx) else { break };
                if let Some(c) = &cur {
                    c.set(idx);
                }
                n += 1;
                if matches!(catch(|| serde_amqp::from_slice::<Value>(&input).is_ok()), Ok(true)) {
                    ok_decodes += 1;
                }
                for (sig, detail) in judge(&input) {
                    let _ = writeln!(lock, "V\t{}\t{}\t{}", sig, detail.replace(['\t', '\n'], " "), hex_full(&input));
                }
            }
            let _ = writeln!(lock, "S\t{n}\t{ok_decodes}");
            let _ = lock.flush();
        })
        .unwrap();
    match h.join() {
        Ok(()) => 0,
        Err(_) => 3,
    }
}

// ---------------------------------------------------------------------------------- parent
struct Shard {
    family: &'static str,
    from: u64,
    to: u64,
}

pub fn run(ctx: &Ctx) -> Outcome {
    let mut out = Outcome::new("exploration");
    if let Some(p) = &ctx.replay {
        return replay(p, out);
    }
    let thorough = !ctx.quick();
    let fams = families(thorough);
    let mut shards = vec![];
    for f in &fams {
        let per = match f.name {
            "bombs" => 4,
            "amplifiers" => 24,
            "corruptions" => 4000,
            "valid-corpus" => 1000,
            _ => 50_000,
        };
        let mut a = 0;
        while a < f.count {
            let b = (a + per).min(f.count);
            shards.push(Shard {
                family: f.name,
                from: a,
                to: b,
            });
            a = b;
        }
    }
    let total_shards = shards.len();
    let queue = Mutex::new(shards);
    let results: Mutex<Vec<(String, String, String)>> = Mutex::new(vec![]);
    let evals = AtomicUsize::new(0);
    let oks = AtomicUsize::new(0);
    let crashes = AtomicUsize::new(0);
    let machinery: Mutex<Vec<String>> = Mutex::new(vec![]);
    let exe = std::env::current_exe().expect("current exe");
    let tmpdir = vlib::report::verif_root().join("target").join("c04");
    let _ = std::fs::create_dir_all(&tmpdir);
    let tier = if thorough { "thorough" } else { "quick" };
    let deadline = Instant::now() + Duration::from_secs_f64(ctx.budget_s);
    let truncated = AtomicUsize::new(0);
    std::thread::scope(|s| {
        for w in 0..ctx.threads {
            let queue = &queue;
            let results = &results;
            let evals = &evals;
            let oks = &oks;
            let crashes = &crashes;
            let machinery = &machinery;
            let exe = &exe;
            let tmpdir = &tmpdir;
            let truncated = &truncated;
            s.spawn(move || loop {
                let Some(mut sh) = queue.lock().unwrap().pop() else { return };
                if Instant::now() > deadline {
                    truncated.fetch_add(1, Ordering::Relaxed);
                    continue;
                }
                // a shard may need several worker runs if the worker dies part-way
                loop {
                    let curfile = tmpdir.join(format!("w{w}.cur"));
                    let _ = std::fs::remove_file(&curfile);
                    let mut child = match Command::new(exe)
                        .args(["C04-worker", sh.family, &sh.from.to_string(), &sh.to.to_string(), curfile.to_str().unwrap(), tier])
                        .stdout(Stdio::piped())
                        .stderr(Stdio::null())
                        .spawn()
                    {
                        Ok(c) => c,
                        Err(e) => {
                            machinery.lock().unwrap().push(format!("cannot spawn worker: {e}"));
                            return;
                        }
                    };
                    let stdout = child.stdout.take().unwrap();
                    // watchdog: kill the worker if the shard takes absurdly long (hang / spin on one input)
                    let pid = child.id();
                    let done = std::sync::Arc::new(std::sync::atomic::AtomicBool::new(false));
                    let done2 = done.clone();
                    let wd = std::thread::spawn(move || {
                        // the limit is CPU time of the worker (utime + stime from /proc): wall-clock time would also
                        // count what else the machine is doing; 30 min of wall-clock time remain as a back-stop
                        let t0 = Instant::now();
                        let cpu_s = || -> f64 {
                            std::fs::read_to_string(format!("/proc/{pid}/stat"))
                                .ok()
                                .and_then(|st| {
                                    let rest = st.rsplit_once(')')?.1.to_string();
                                    let f: Vec<&str> = rest.split_whitespace().collect();
                                    Some((f.get(11)?.parse::<f64>().ok()? + f.get(12)?.parse::<f64>().ok()?) / 100.0)
                                })
                                .unwrap_or(0.0)
                        };
                        while !done2.load(Ordering::Relaxed) {
                            if cpu_s() > 120.0 || t0.elapsed() > Duration::from_secs(1800) {
                                unsafe {
                                    libc::kill(pid as i32, libc::SIGKILL);
                                }
                                return true;
                            }
                            std::thread::sleep(Duration::from_millis(50));
                        }
                        false
                    });
                    let mut finished = false;
                    for line in BufReader::new(stdout).lines().map_while(Result::ok) {
                        let parts: Vec<&str> = line.splitn(4, '\t').collect();
                        match parts.first().copied() {
                            Some("V") if parts.len() == 4 => {
                                results.lock().unwrap().push((parts[1].to_string(), parts[2].to_string(), parts[3].to_string()));
                            }
                            Some("S") if parts.len() >= 3 => {
                                evals.fetch_add(parts[1].parse().unwrap_or(0), Ordering::Relaxed);
                                oks.fetch_add(parts[2].parse().unwrap_or(0), Ordering::Relaxed);
                                finished = true;
                            }
                            _ => {}
                        }
                    }
                    let status = child.wait();
                    done.store(true, Ordering::Relaxed);
                    let killed_by_watchdog = wd.join().unwrap_or(false);
                    if finished {
                        break;
                    }
                    // the worker died: which input?
                    let idx = std::fs::read(&curfile)
                        .ok()
                        .and_then(|b| b.get(..8).map(|x| u64::from_le_bytes(x.try_into().unwrap())))
                        .unwrap_or(sh.from);
                    let gen = Gen::new(sh.family, thorough);
                    let input = gen.get(idx).unwrap_or_default();
                    let how = if killed_by_watchdog {
                        "hang".to_string()
                    } else {
                        use std::os::unix::process::ExitStatusExt;
                        match status {
                            Ok(st) => match st.signal() {
                                Some(libc::SIGSEGV) | Some(libc::SIGBUS) => "crash stack-overflow(SIGSEGV)".to_string(),
                                Some(libc::SIGABRT) => "crash abort(SIGABRT)".to_string(),
                                Some(sig) => format!("crash signal-{sig}"),
                                None => format!("crash exit-{}", st.code().unwrap_or(-1)),
                            },
                            Err(e) => format!("crash wait-error-{e}"),
                        }
                    };
                    crashes.fetch_add(1, Ordering::Relaxed);
                    let first = code_name(input.first());
                    let depth_class = if sh.family == "bombs" { "nested" } else { "flat" };
                    results.lock().unwrap().push((
                        format!("{how} {depth_class} first={first}"),
                        format!(
                            "the decoding process died ({how}) on the {}-byte input {} (2 MiB stack, as on a tokio worker thread)",
                            input.len(),
                            hex(&input)
                        ),
                        hex_full(&input),
                    ));
                    evals.fetch_add((idx - sh.from + 1) as usize, Ordering::Relaxed);
                    if idx + 1 >= sh.to {
                        break;
                    }
                    sh.from = idx + 1;
                }
            });
        }
    });
    for e in machinery.into_inner().unwrap() {
        out.machinery_errors.push(e);
    }
    let res = results.into_inner().unwrap();
    // keep the shortest input per signature first (simplest counterexample)
    let mut by_sig: BTreeMap<String, Vec<(String, String)>> = BTreeMap::new();
    for (sig, detail, input) in res {
        by_sig.entry(sig).or_default().push((detail, input));
    }
    for (sig, mut v) in by_sig {
        v.sort_by_key(|x| x.1.len());
        let n = v.len();
        for (i, (detail, input)) in v.into_iter().enumerate() {
            if i < 3 || n < 50 {
                out.violation(sig.clone(), detail, json!({"kind": "bytes", "input_hex": input}));
            } else {
                out.violation(sig.clone(), String::new(), json!({"kind": "bytes", "input_hex": input}));
            }
        }
    }
    let ev = evals.load(Ordering::Relaxed) as u64;
    out.set("evaluations", ev);
    out.set("decodes", ev * 14);
    out.set("distinct_nontrivial", oks.load(Ordering::Relaxed) as u64);
    out.set("worker_crashes", crashes.load(Ordering::Relaxed) as u64);
    out.set("shards", total_shards as u64);
    out.set("families", json!(fams.iter().map(|f| format!("{}:{}", f.name, f.count)).collect::<Vec<_>>()));
    out.set("rule", "inputs: every byte string up to length L over all 256 values; every string up to length L' over the format-code alphabet; every truncation and every single-byte overwrite (15 values, +1, -1) of seed encodings (corpus values narrowest/widest, typed composites with all fields, messages); nesting bombs of list/map/array/described up to 64 KiB and tiny inputs declaring huge sizes; every corpus value in its narrowest and widest valid encoding. Each input is decoded as Value, Performative, SASL frame, Message, LazyValue through slice and io readers and through both frame decoders (14 decodes). Oracle: no panic (overflow checks on), no process death on a 2 MiB stack, no shard hang, no single allocation > 128*len+8MiB, slice == reader, re-encode stable. distinct_nontrivial = inputs that decode successfully as a Value");
    let exhaustive = truncated.load(Ordering::Relaxed) == 0;
    out.set("exhaustive", exhaustive);
    out.set("bound", if thorough { "all-bytes L=3, interesting L'=4" } else { "all-bytes L=2, interesting L'=3" });
    out.set("samples", json!(["c0 00 00", "c1 02 01 40", "b0 ff ff ff ff", "d0 00 00 00 00", "list8 nested 4096 deep (12 KiB)"]));
    out.assume("stack bound: decoding runs on a 2 MiB stack (tokio worker default); inputs are at most 64 KiB");
    out.assume("allocation bound: a single request larger than 128*len + 8 MiB counts as out of proportion (8 MiB covers the decoder's own cap of 65 536 zero-width array elements)");
    out
}

fn replay(p: &std::path::Path, mut out: Outcome) -> Outcome {
    let Ok(s) = std::fs::read_to_string(p) else {
        out.machinery_errors.push(format!("cannot read {}", p.display()));
        return out;
    };
    let j: serde_json::Value = serde_json::from_str(&s).unwrap_or_default();
    let r = &j["replay"];
    let input = unhex(r["input_hex"].as_str().unwrap_or("")).unwrap_or_default();
    println!("replaying {}-byte input {}", input.len(), hex(&input));
    // run in a child so that a crash is observable
    let exe = std::env::current_exe().unwrap();
    let st = Command::new(exe).args(["C04-one", &hex_full(&input)]).status();
    match st {
        Ok(st) if st.success() => {}
        Ok(st) => {
            use std::os::unix::process::ExitStatusExt;
            if st.code() == Some(1) {
                out.violation("replayed", "violation reproduced (see above)", r.clone());
            } else {
                out.violation("replayed-crash", format!("worker died: signal {:?} code {:?}", st.signal(), st.code()), r.clone());
            }
        }
        Err(e) => out.machinery_errors.push(format!("spawn: {e}")),
    }
    out.set("evaluations", 1);
    out.set("distinct_nontrivial", 0);
    out.set("rule", "replay");
    out.set("samples", json!([r]));
    out
}

/// `vcheck C04-one <hex>`: judge one input on a 2 MiB stack, exit 1 on violation
pub fn one_main(args: &[String]) -> i32 {
    let input = unhex(&args[0]).unwrap_or_default();
    vlib::runner::install_panic_hook();
    let h = std::thread::Builder::new()
        .stack_size(2 << 20)
        .spawn(move || {
            let v = judge(&input);
            for (s, d) in &v {
                println!("  FAIL {s}: {d}");
            }
            v.is_empty()
        })
        .unwrap();
    match h.join() {
        Ok(true) => 0,
        Ok(false) => 1,
        Err(_) => 3,
    }
}
