//! C17 - negotiated limits are honoured: channel-max and idle time-outs.
//!
//! Part 1 (channel-max): for every pair (local channel-max, remote channel-max) the real connection
//! engine is driven through ALL histories over {begin a session, end the oldest, end the newest} up to a
//! depth (client role against the scripted peer), plus "fill" runs that begin sessions until the library
//! refuses (so that the limit is really reached for 255 and 65535 too), plus the listener role where a
//! scripted client begins sessions - also on channels above the limit and more than allowed.
//!   Oracle (safety, strict): no begin frame written by the library carries a channel number above
//!   min(local, remote); never more than min+1 sessions are mapped at once.
//!   Oracle (liveness, permissive): a `Session::begin` that fails although at most `min` sessions are open
//!   is reported; channel-max N allows channels 0..=N, i.e. N+1 sessions.
//!   Bounds: pairs {0,1,2,255,65535}^2; client histories depth 8 (quick) / 11 (thorough), listener
//!   histories depth 7 / 9; fill runs for all 25 pairs in both tiers (65536 sessions for 65535/65535).
//!
//! Part 2 (idle time-out, virtual time): the peer advertises idle-time-out T, the library is configured
//! with idle time-out L; traffic patterns of the application (silence / steady / bursts separated by
//! gaps T-1 ms, T, T+1 ms) and of the peer (silence / an empty frame every L-1 ms / a real frame every
//! L-1 ms) are laid out on the paused tokio clock.
//!   Oracle T (measured on the byte log of the transport): while the connection is open no interval
//!   longer than T passes between the starts of consecutive frames written by the library (empty frames
//!   count).  Permissive reading: a gap of exactly T passes, only > T fails; the measurement starts when
//!   the peer's open is written and ends at the library's close frame / teardown / the horizon.
//!   Oracle L: while the peer's frames arrive less than L apart the connection stays up (`on_close` does
//!   not resolve, no close frame, sends keep working) for 12*L; once the peer falls silent the
//!   connection is torn down not earlier than L and not later than 2*L + 50 ms after the last frame
//!   arrived (AMQP lets an implementation wait up to twice the advertised value; the library advertises
//!   L/2), `on_close()` reports an error that names the idle time-out, and the transport is closed or a
//!   close frame is written.  With L unset or 0 no idle teardown may happen at all.
use fe2o3_amqp::acceptor::{ConnectionAcceptor, ListenerSessionHandle, SessionAcceptor};
use fe2o3_amqp::session::{BeginError, SessionHandle};
use fe2o3_amqp::{Connection, Sender, Session};
use fe2o3_amqp_types::definitions::{Handle, SenderSettleMode};
use fe2o3_amqp_types::performatives::*;
use serde_json::{json, Value as J};
use std::collections::{BTreeSet, VecDeque};
use std::sync::atomic::{AtomicU64, Ordering};
use std::sync::{Arc, Mutex};
use std::time::{Duration, Instant};
use vlib::history::{search, HistOut};
use vlib::peer::{drive, settle, trace_to_strings, Auto, Body, Dirn, Peer, WFrame, AMQP_HEADER};
use vlib::report::{Ctx, Outcome};
use vlib::runner::{run_exec, RunCfg, Scenario};
use vlib::util::{h64, par_map};
use vlib::vpipe::{LogEntry, Pipe};

const CHMAX: [u16; 5] = [0, 1, 2, 255, 65535];

#[derive(Debug, Clone, Copy, PartialEq, Eq, Hash)]
pub enum Role {
    Client,
    Listener,
}

// ================================================================================================
// Part 1: channel-max
// ================================================================================================

/// client-role events
#[derive(Debug, Clone, Copy, PartialEq, Eq, Hash)]
pub enum CEv {
    Begin,
    EndOldest,
    EndNewest,
}
pub const CALPHA: [CEv; 3] = [CEv::Begin, CEv::EndOldest, CEv::EndNewest];

/// listener-role events (performed by the scripted client)
#[derive(Debug, Clone, Copy, PartialEq, Eq, Hash)]
pub enum LEv {
    /// begin on the lowest channel number the scripted client has free (goes above the limit once more
    /// than min+1 sessions are open: "more than allowed")
    PBeginLow,
    /// begin on channel min+1: a channel number above the negotiated maximum
    PBeginHigh,
    PEndOldest,
    PEndNewest,
}
pub const LALPHA: [LEv; 4] = [LEv::PBeginLow, LEv::PBeginHigh, LEv::PEndOldest, LEv::PEndNewest];

#[derive(Debug, Clone, Default)]
pub struct ChObs {
    pub executed: usize,
    pub fails: Vec<(String, String)>,
    pub state_keys: Vec<u64>,
    pub trace: Vec<String>,
    pub machinery: Option<String>,
    /// Session::begin refused locally (client) / connection closed on an excess begin (listener)
    pub refusals: u64,
    /// begin frames written by the library
    pub lib_begins: u64,
    pub max_open: usize,
    /// highest channel number the library put a begin on
    pub max_channel: Option<u16>,
    /// listener: begins of the scripted client that exceeded the limit (channel number or count)
    pub peer_excess: u64,
}

/// Watches everything the library writes: the safety clause of the property.
struct WireMon {
    role: Role,
    m: u16,
    cursor: usize,
    open: BTreeSet<u16>,
    max_open: usize,
    begins: u64,
    max_channel: Option<u16>,
    close: Option<bool>, // library's close frame: Some(has error)
    fails: Vec<(String, String)>,
}

impl WireMon {
    fn new(role: Role, m: u16) -> Self {
        WireMon { role, m, cursor: 0, open: BTreeSet::new(), max_open: 0, begins: 0, max_channel: None, close: None, fails: vec![] }
    }
    fn scan(&mut self, trace: &[WFrame]) {
        for w in &trace[self.cursor..] {
            if w.dir != Dirn::FromLib {
                continue;
            }
            match &w.body {
                Body::Perf(Performative::Begin(b)) => {
                    self.begins += 1;
                    self.max_channel = Some(self.max_channel.map_or(w.channel, |c| c.max(w.channel)));
                    // THE safety clause: never a begin on a channel number above min(local, remote)
                    if w.channel > self.m {
                        self.fails.push((
                            format!("begin-above-channel-max [{:?}]", self.role),
                            format!(
                                "the library wrote begin(remote_channel={:?}) on channel {} although min(local, remote) channel-max is {}",
                                b.remote_channel, w.channel, self.m
                            ),
                        ));
                    }
                    // a channel that is still mapped (the library has not ended it) is not free.  Permissive: the
                    // channel counts as free again as soon as the library has written its end.
                    if !self.open.insert(w.channel) {
                        self.fails.push((
                            format!("begin-on-channel-in-use [{:?}]", self.role),
                            format!("the library wrote a begin on channel {} which it had begun and not ended", w.channel),
                        ));
                    }
                    self.max_open = self.max_open.max(self.open.len());
                    // channel-max N = channels 0..=N = at most N+1 sessions
                    if self.open.len() > self.m as usize + 1 {
                        self.fails.push((
                            format!("more-sessions-than-channel-max-allows [{:?}]", self.role),
                            format!("{} sessions are mapped at once, min(local, remote) channel-max {} allows {}", self.open.len(), self.m, self.m as usize + 1),
                        ));
                    }
                }
                Body::Perf(Performative::End(_)) => {
                    self.open.remove(&w.channel);
                }
                Body::Perf(Performative::Close(c)) => {
                    if self.close.is_none() {
                        self.close = Some(c.error.is_some());
                    }
                }
                _ => {}
            }
        }
        self.cursor = trace.len();
    }
}

fn tail_trace(tr: &[WFrame], n: usize) -> Vec<String> {
    let s = tr.len().saturating_sub(n);
    let mut v = vec![];
    if s > 0 {
        v.push(format!("... ({s} earlier frames omitted)"));
    }
    v.extend(tr[s..].iter().map(|f| f.short()));
    v
}

/// Client role: the real `Connection`/`Session` API against the scripted peer.
pub async fn chmax_client(local: u16, remote: u16, events: Vec<CEv>, light: bool) -> ChObs {
    let mut obs = ChObs::default();
    let m = local.min(remote);
    let (pipe, a, _b) = Pipe::new();
    let mut auto = Auto::default();
    auto.max_frame_size = 4096;
    auto.channel_max = remote;
    let mut peer = Peer::new(pipe.clone(), 1, auto);
    let h = Duration::from_secs(5);
    let opened = drive(
        &mut peer,
        Connection::builder().container_id("lib").max_frame_size(4096).channel_max(local).open_with_stream(a),
        h,
    )
    .await;
    let mut conn = match opened {
        Some(Ok(c)) => c,
        other => {
            obs.machinery = Some(format!(
                "client open (local {local}, remote {remote}) did not succeed: {:?}; trace {:?}",
                other.map(|r| r.map(|_| ()).map_err(|e| e.to_string())),
                trace_to_strings(&peer.trace)
            ));
            return obs;
        }
    };
    settle(&mut peer, 1).await;
    let mut mon = WireMon::new(Role::Client, m);
    mon.scan(&peer.trace);
    // sessions in order of age, with the channel the library chose
    let mut sessions: VecDeque<(u16, SessionHandle<()>)> = VecDeque::new();
    let mut set_hash = 0u64;
    obs.state_keys.push(h64(&(0usize, 0u64, "open")));
    let rounds = if light { 1 } else { 2 };
    for (i, ev) in events.iter().enumerate() {
        let enabled = match ev {
            CEv::Begin => true,
            CEv::EndOldest => !sessions.is_empty(),
            // with one session oldest == newest
            CEv::EndNewest => sessions.len() >= 2,
        };
        if !enabled {
            break;
        }
        let mark = peer.trace.len();
        let result: &'static str;
        match ev {
            CEv::Begin => {
                let open_before = sessions.len();
                let r = drive(&mut peer, Session::begin(&mut conn), h).await;
                let begin_frame = peer.trace[mark..].iter().find_map(|w| match (&w.body, w.dir) {
                    (Body::Perf(Performative::Begin(_)), Dirn::FromLib) => Some(w.channel),
                    _ => None,
                });
                match r {
                    Some(Ok(s)) => {
                        let Some(ch) = begin_frame else {
                            obs.machinery = Some(format!("event {i}: Session::begin returned Ok but no begin frame is on the wire; {:?}", tail_trace(&peer.trace, 12)));
                            break;
                        };
                        set_hash ^= h64(&ch);
                        sessions.push_back((ch, s));
                        result = "begun";
                    }
                    Some(Err(e)) => {
                        obs.refusals += 1;
                        let local_refusal = matches!(e, BeginError::LocalChannelMaxReached);
                        // liveness clause, permissive: only reported when at most `min` sessions are open, i.e. a
                        // channel in 0..=min is certainly free
                        if open_before <= m as usize {
                            let sig = if local_refusal { "begin-refused-below-limit" } else { "begin-failed-below-limit" };
                            obs.fails.push((
                                format!("{sig} [Client]"),
                                format!(
                                    "event {i}: Session::begin failed with {:?} while only {open_before} sessions are open; min(local {local}, remote {remote}) = {m} allows {} sessions",
                                    e,
                                    m as usize + 1
                                ),
                            ));
                        }
                        result = if local_refusal { "refused" } else { "failed" };
                    }
                    None => {
                        // "refusing locally instead": a begin at the limit that neither goes out nor fails
                        if begin_frame.is_none() {
                            obs.fails.push((
                                "begin-hangs-instead-of-refusing [Client]".into(),
                                format!("event {i}: Session::begin with {open_before} sessions open (limit {}) neither wrote a begin nor returned within 5 s of virtual time", m as usize + 1),
                            ));
                        } else {
                            obs.machinery = Some(format!("event {i}: Session::begin still pending after 5 s although the peer answered; {:?}", tail_trace(&peer.trace, 12)));
                        }
                        obs.executed = i + 1;
                        mon.scan(&peer.trace);
                        break;
                    }
                }
            }
            CEv::EndOldest | CEv::EndNewest => {
                let (ch, mut s) = if *ev == CEv::EndOldest { sessions.pop_front().unwrap() } else { sessions.pop_back().unwrap() };
                set_hash ^= h64(&ch);
                match drive(&mut peer, s.end(), h).await {
                    Some(Ok(())) => result = "ended",
                    other => {
                        obs.machinery = Some(format!(
                            "event {i}: Session::end on channel {ch} did not complete cleanly: {:?}; {:?}",
                            other.map(|r| r.map_err(|e| e.to_string())),
                            tail_trace(&peer.trace, 12)
                        ));
                        break;
                    }
                }
            }
        }
        settle(&mut peer, rounds).await;
        mon.scan(&peer.trace);
        obs.executed = i + 1;
        obs.state_keys.push(h64(&(
            sessions.len(),
            set_hash,
            sessions.front().map(|s| s.0),
            sessions.back().map(|s| s.0),
            result,
        )));
        if !mon.fails.is_empty() {
            break;
        }
    }
    obs.fails.extend(mon.fails.drain(..));
    obs.lib_begins = mon.begins;
    obs.max_open = mon.max_open;
    obs.max_channel = mon.max_channel;
    obs.trace = if light { tail_trace(&peer.trace, 16) } else { trace_to_strings(&peer.trace) };
    obs.trace.push(format!(
        "local={local} remote={remote} min={m}: open channels now {:?}{}, refusals {}, begins on the wire {}, highest channel {:?}",
        sessions.iter().take(12).map(|s| s.0).collect::<Vec<_>>(),
        if sessions.len() > 12 { format!(" .. ({} sessions)", sessions.len()) } else { String::new() },
        obs.refusals,
        obs.lib_begins,
        obs.max_channel
    ));
    drop(sessions);
    drop(conn);
    obs
}

/// events of a "fill" run: begin until one past the limit, free two channels, take them again, one more
pub fn fill_events(m: u16) -> Vec<CEv> {
    let mut v = vec![CEv::Begin; m as usize + 2];
    if m >= 2 {
        v.extend([CEv::EndOldest, CEv::EndNewest, CEv::Begin, CEv::Begin, CEv::Begin]);
    } else {
        v.extend([CEv::EndOldest, CEv::Begin, CEv::Begin]);
    }
    v
}

fn peer_open(channel_max: u16, idle: Option<u32>) -> Open {
    Open {
        container_id: "scripted-peer".into(),
        hostname: None,
        max_frame_size: 4096.into(),
        channel_max: channel_max.into(),
        idle_time_out: idle,
        outgoing_locales: None,
        incoming_locales: None,
        offered_capabilities: None,
        desired_capabilities: None,
        properties: None,
    }
}

fn peer_begin() -> Begin {
    Begin {
        remote_channel: None,
        next_outgoing_id: 0,
        incoming_window: 1000,
        outgoing_window: 1000,
        handle_max: Handle(100),
        offered_capabilities: None,
        desired_capabilities: None,
        properties: None,
    }
}

/// Listener role: the scripted client begins sessions against the real acceptor.
pub async fn chmax_listener(local: u16, remote: u16, events: Vec<LEv>) -> ChObs {
    let mut obs = ChObs::default();
    let m = local.min(remote);
    let (pipe, a, _b) = Pipe::new();
    let mut auto = Auto::none();
    auto.max_frame_size = 4096;
    let mut peer = Peer::new(pipe.clone(), 1, auto);
    let h = Duration::from_secs(5);
    peer.send_proto_header(AMQP_HEADER);
    peer.send(0, Performative::Open(peer_open(remote, None)));
    let acceptor = ConnectionAcceptor::builder().container_id("lib-listener").max_frame_size(4096).channel_max(local).build();
    let mut conn = match drive(&mut peer, acceptor.accept(a), h).await {
        Some(Ok(c)) => c,
        other => {
            obs.machinery = Some(format!(
                "listener accept (local {local}, remote {remote}) did not succeed: {:?}; trace {:?}",
                other.map(|r| r.map(|_| ()).map_err(|e| e.to_string())),
                trace_to_strings(&peer.trace)
            ));
            return obs;
        }
    };
    settle(&mut peer, 1).await;
    let sacc = SessionAcceptor::new();
    let mut mon = WireMon::new(Role::Listener, m);
    mon.scan(&peer.trace);
    // (peer channel, library channel if answered, handle)
    let mut sessions: VecDeque<(u16, Option<u16>, Option<ListenerSessionHandle>)> = VecDeque::new();
    let mut closed = false;
    obs.state_keys.push(h64(&(0usize, "open")));
    for (i, ev) in events.iter().enumerate() {
        let used: BTreeSet<u16> = sessions.iter().map(|s| s.0).collect();
        let low = (0..=u16::MAX).find(|c| !used.contains(c));
        let high = m.checked_add(1).filter(|c| !used.contains(c));
        let enabled = !closed
            && match ev {
                LEv::PBeginLow => low.is_some(),
                // when the lowest free channel IS min+1 the two begin events coincide
                LEv::PBeginHigh => high.is_some() && high != low,
                LEv::PEndOldest => !sessions.is_empty(),
                LEv::PEndNewest => sessions.len() >= 2,
            };
        if !enabled {
            break;
        }
        let mark = peer.trace.len();
        let result: String;
        match ev {
            LEv::PBeginLow | LEv::PBeginHigh => {
                let pch = if *ev == LEv::PBeginLow { low.unwrap() } else { high.unwrap() };
                let excess = pch > m || sessions.len() > m as usize;
                if excess {
                    obs.peer_excess += 1;
                }
                peer.send(pch, Performative::Begin(peer_begin()));
                settle(&mut peer, 1).await;
                let mut handle = None;
                match tokio::time::timeout(Duration::from_millis(2), conn.next_incoming_session()).await {
                    Ok(Some(inc)) => match drive(&mut peer, sacc.accept_incoming_session(inc, &mut conn), h).await {
                        Some(Ok(hd)) => handle = Some(hd),
                        Some(Err(e)) => obs.trace.push(format!("event {i}: accept_incoming_session -> {e:?}")),
                        None => obs.trace.push(format!("event {i}: accept_incoming_session pending")),
                    },
                    Ok(None) => {}
                    Err(_) => {}
                }
                settle(&mut peer, 1).await;
                let lib_ch = peer.trace[mark..].iter().find_map(|w| match (&w.body, w.dir) {
                    (Body::Perf(Performative::Begin(b)), Dirn::FromLib) if b.remote_channel == Some(pch) => Some(w.channel),
                    _ => None,
                });
                result = format!("begin->{:?}", lib_ch.is_some());
                sessions.push_back((pch, lib_ch, handle));
            }
            LEv::PEndOldest | LEv::PEndNewest => {
                let (pch, _lib_ch, hd) = if *ev == LEv::PEndOldest { sessions.pop_front().unwrap() } else { sessions.pop_back().unwrap() };
                peer.send(pch, Performative::End(End { error: None }));
                settle(&mut peer, 2).await;
                drop(hd);
                result = "end".into();
            }
        }
        settle(&mut peer, 1).await;
        mon.scan(&peer.trace);
        if let Some(with_err) = mon.close {
            if !closed {
                closed = true;
                if with_err {
                    obs.refusals += 1;
                }
                // a conforming peer answers the close
                peer.send(0, Performative::Close(Close { error: None }));
                settle(&mut peer, 2).await;
                mon.scan(&peer.trace);
            }
        }
        if conn.is_closed() {
            closed = true;
        }
        obs.executed = i + 1;
        obs.state_keys.push(h64(&(sessions.iter().map(|s| (s.0, s.1)).collect::<Vec<_>>(), closed, mon.close, result)));
        if !mon.fails.is_empty() {
            break;
        }
    }
    obs.fails.extend(mon.fails.drain(..));
    obs.lib_begins = mon.begins;
    obs.max_open = mon.max_open;
    obs.max_channel = mon.max_channel;
    let mut t = trace_to_strings(&peer.trace);
    t.append(&mut obs.trace);
    t.push(format!(
        "local={local} remote={remote} min={m}: sessions (peer ch, lib ch) {:?}, closed={closed}, close-with-error={:?}, begins by the library {}, highest channel {:?}",
        sessions.iter().map(|s| (s.0, s.1)).collect::<Vec<_>>(),
        mon.close,
        obs.lib_begins,
        obs.max_channel
    ));
    obs.trace = t;
    drop(sessions);
    drop(conn);
    obs
}

#[derive(Default)]
struct ChCounters {
    refusals: AtomicU64,
    lib_begins: AtomicU64,
    limit_reached: AtomicU64,
    peer_excess: AtomicU64,
}

fn finish_exec<O>(ex: &vlib::runner::Exec<O>, out: &mut HistOut, what: &str) {
    if ex.watchdog {
        out.machinery = Some(format!("{what}: the execution did not finish in real time (watchdog)"));
    }
    if ex.spun {
        out.machinery = Some(format!("{what}: some task polled more than 20000 times at one virtual instant (busy loop); trace {:?}", out.trace));
    }
    if !ex.panics.is_empty() {
        out.machinery = Some(format!("{what}: panic(s) during the execution: {:?}; trace {:?}", ex.panics, out.trace));
    }
}

fn apply_chobs(o: ChObs, out: &mut HistOut, cnt: Option<&ChCounters>, m: u16) {
    if let Some(c) = cnt {
        c.refusals.fetch_add(o.refusals, Ordering::Relaxed);
        c.lib_begins.fetch_add(o.lib_begins, Ordering::Relaxed);
        c.peer_excess.fetch_add(o.peer_excess, Ordering::Relaxed);
        if o.max_open == m as usize + 1 {
            c.limit_reached.fetch_add(1, Ordering::Relaxed);
        }
    }
    out.executed = o.executed;
    out.fails = o.fails;
    out.state_keys = o.state_keys;
    out.trace = o.trace;
    out.machinery = o.machinery;
}

fn run_client_history(local: u16, remote: u16, evs: Vec<CEv>, light: bool, cnt: Option<&ChCounters>) -> HistOut {
    let n = evs.len();
    let scen: Scenario<ChObs> = Arc::new(move || Box::pin(chmax_client(local, remote, evs.clone(), light)));
    let mut cfg = RunCfg::none();
    if light {
        cfg.real_timeout = Duration::from_secs(600);
    }
    let ex = run_exec(vec![], &cfg, &scen);
    let mut out = HistOut::default();
    let what = format!("channel-max client local={local} remote={remote}");
    match ex.out {
        Some(ref o) => apply_chobs(o.clone(), &mut out, cnt, local.min(remote)),
        None => {
            out.executed = n;
            if !ex.watchdog {
                out.machinery = Some(format!("{what}: scenario panicked: {:?}", ex.panics));
                return out;
            }
        }
    }
    finish_exec(&ex, &mut out, &what);
    out
}

fn run_listener_history(local: u16, remote: u16, evs: Vec<LEv>, cnt: Option<&ChCounters>) -> HistOut {
    let n = evs.len();
    let scen: Scenario<ChObs> = Arc::new(move || Box::pin(chmax_listener(local, remote, evs.clone())));
    let ex = run_exec(vec![], &RunCfg::none(), &scen);
    let mut out = HistOut::default();
    let what = format!("channel-max listener local={local} remote={remote}");
    match ex.out {
        Some(ref o) => apply_chobs(o.clone(), &mut out, cnt, local.min(remote)),
        None => {
            out.executed = n;
            if !ex.watchdog {
                out.machinery = Some(format!("{what}: scenario panicked: {:?}", ex.panics));
                return out;
            }
        }
    }
    finish_exec(&ex, &mut out, &what);
    out
}

// ================================================================================================
// Part 2: idle time-outs on the virtual clock
// ================================================================================================

/// what the application on the library's side does
#[derive(Debug, Clone, Copy, PartialEq, Eq, Hash)]
pub enum LibPat {
    Silent,
    /// one pre-settled transfer every T/4
    Steady,
    /// bursts of three pre-settled transfers separated by a gap of T + delta ms
    Bursts(i32),
}

/// what the scripted peer does
#[derive(Debug, Clone, Copy, PartialEq, Eq, Hash)]
pub enum PeerPat {
    Silent,
    /// an empty frame every L-1 ms (L unset: every T/2)
    KeepEmpty,
    /// a session flow frame every L-1 ms
    KeepReal,
}

#[derive(Debug, Clone, Copy, PartialEq, Eq, Hash)]
pub struct IdleCase {
    pub role: Role,
    /// idle-time-out in the peer's open
    pub t: Option<u32>,
    /// idle time-out configured on the library's builder
    pub l: Option<u32>,
    pub lib: LibPat,
    pub peer: PeerPat,
}

impl IdleCase {
    fn to_json(&self) -> J {
        let (lib, delta) = match self.lib {
            LibPat::Silent => ("Silent", 0),
            LibPat::Steady => ("Steady", 0),
            LibPat::Bursts(d) => ("Bursts", d),
        };
        json!({"part": "idle", "role": format!("{:?}", self.role), "t": self.t, "l": self.l, "lib": lib, "delta": delta, "peer": format!("{:?}", self.peer)})
    }
    fn from_json(r: &J) -> Option<IdleCase> {
        Some(IdleCase {
            role: if r["role"] == "Listener" { Role::Listener } else { Role::Client },
            t: r["t"].as_u64().map(|x| x as u32),
            l: r["l"].as_u64().map(|x| x as u32),
            lib: match r["lib"].as_str()? {
                "Silent" => LibPat::Silent,
                "Steady" => LibPat::Steady,
                _ => LibPat::Bursts(r["delta"].as_i64()? as i32),
            },
            peer: match r["peer"].as_str()? {
                "Silent" => PeerPat::Silent,
                "KeepEmpty" => PeerPat::KeepEmpty,
                _ => PeerPat::KeepReal,
            },
        })
    }
}

#[derive(Debug, Clone, Default)]
pub struct IdleObs {
    pub fails: Vec<(String, String)>,
    pub machinery: Option<String>,
    pub keys: Vec<u64>,
    pub trace: Vec<String>,
    /// empty frames written by the library
    pub heartbeats: usize,
    /// frames written by the library after the peer's open
    pub lib_frames: usize,
    pub max_gap_ms: u64,
    /// gaps between consecutive NON-empty library frames that exceed T: places where only a heartbeat
    /// could keep the promise (non-vacuity of the heartbeat oracle)
    pub app_gaps_over_t: usize,
    /// frames the peer sent in the keep-alive phase
    pub peer_keepalives: usize,
    /// the connection was up at the end of the keep-alive phase although L was armed
    pub kept_up: bool,
    /// (ms of silence when on_close resolved, result)
    pub teardown: Option<(u64, String)>,
    pub sends_ok: usize,
}

/// Starts of the frames the library wrote (direction 0 of the pipe), with the virtual time of the write
/// that carried the first byte.  kind: 0xff protocol header, 0 empty frame, otherwise the descriptor
/// code of the performative (0x10 open .. 0x18 close), 0xfe anything else.  Independent of the
/// library's codec.
pub fn lib_frame_starts(log: &[LogEntry]) -> Vec<(Duration, u8)> {
    let mut out = vec![];
    let mut buf: VecDeque<(u8, Duration)> = VecDeque::new();
    for e in log.iter().filter(|e| e.dir == 0) {
        for b in &e.bytes {
            buf.push_back((*b, e.t));
        }
        loop {
            if buf.len() < 8 {
                break;
            }
            let head: Vec<u8> = buf.iter().take(8).map(|x| x.0).collect();
            let t = buf[0].1;
            if &head[..4] == b"AMQP" {
                out.push((t, 0xff));
                buf.drain(..8);
                continue;
            }
            let size = u32::from_be_bytes([head[0], head[1], head[2], head[3]]) as usize;
            if size < 8 {
                // not a frame: give up (reported by the caller as a machinery problem through the counts)
                buf.clear();
                break;
            }
            if buf.len() < size {
                break;
            }
            let fr: Vec<u8> = buf.drain(..size).map(|x| x.0).collect();
            let doff = fr[4] as usize * 4;
            let kind = if fr.len() <= doff {
                0
            } else if fr.len() >= doff + 3 && fr[doff] == 0x00 && fr[doff + 1] == 0x53 {
                fr[doff + 2]
            } else {
                0xfe
            };
            out.push((t, kind));
        }
    }
    out
}

fn ms(d: Duration) -> u64 {
    d.as_millis() as u64
}

fn is_idle_error(s: &str) -> bool {
    // permissive: anything in the error's Debug or Display text that names an idle time-out / time-out
    let l = s.to_lowercase();
    l.contains("idle") || l.contains("timeout") || l.contains("time-out") || l.contains("timed out") || l.contains("time out")
}

#[derive(Debug, Clone, Copy)]
enum Act {
    LibSend(usize),
    PeerEmpty,
    PeerReal,
}

struct Plan {
    acts: Vec<(u64, Act)>,
    /// end of the keep-alive phase (0 if there is none)
    h1: u64,
    /// end of the run
    htot: u64,
}

fn plan(c: &IdleCase) -> Plan {
    let tp = c.t.filter(|t| *t > 0).unwrap_or(100) as u64;
    let lp = c.l.filter(|l| *l > 0).unwrap_or(0) as u64;
    let h1 = if lp > 0 && c.peer == PeerPat::Silent {
        0
    } else if lp == 0 && c.peer == PeerPat::Silent {
        // nothing armed on the library's side: a long silence must not tear the connection down
        (12 * tp).max(720_000)
    } else {
        12 * tp.max(lp)
    };
    let mut acts: Vec<(u64, Act)> = vec![];
    // peer
    let mut last_peer = 0;
    if c.peer != PeerPat::Silent {
        let period = if lp > 0 { lp - 1 } else { tp / 2 }.max(1);
        let until = if lp > 0 { h1 } else { 12 * tp };
        let mut t = 0;
        while t <= until {
            acts.push((t, if c.peer == PeerPat::KeepEmpty { Act::PeerEmpty } else { Act::PeerReal }));
            last_peer = t;
            t += period;
        }
    }
    // AMQP allows an implementation to wait up to 2x before it gives up; 50 ms of slack on top
    let htot = if lp > 0 { last_peer + 2 * lp + 50 } else { h1 };
    // library application: during the first 12*T and during the silence phase
    let in_window = |t: u64| t <= 12 * tp || (lp > 0 && t >= h1);
    match c.lib {
        LibPat::Silent => {}
        LibPat::Steady => {
            let step = (tp / 4).max(1);
            let mut t = step;
            while t <= htot {
                if in_window(t) {
                    acts.push((t, Act::LibSend(1)));
                }
                t += step;
            }
        }
        LibPat::Bursts(d) => {
            let gap = ((tp as i64) + d as i64).max(1) as u64;
            let mut t = gap;
            while t <= htot {
                if in_window(t) {
                    acts.push((t, Act::LibSend(3)));
                }
                t += gap;
            }
        }
    }
    acts.sort_by_key(|a| a.0);
    Plan { acts, h1, htot }
}

type Fired = Arc<Mutex<Option<(Duration, String, bool)>>>;

pub async fn idle_scenario(c: IdleCase) -> IdleObs {
    let mut obs = IdleObs::default();
    let (pipe, a, _b) = Pipe::new();
    let t0 = tokio::time::Instant::now();
    let h = Duration::from_secs(5);
    let fired: Fired = Arc::new(Mutex::new(None));
    let mut peer;
    // objects that must stay alive for the whole run
    let mut _client_session: Option<SessionHandle<()>> = None;
    let mut _listener_session: Option<ListenerSessionHandle> = None;
    let mut sender: Option<Sender> = None;
    // (peer's channel, library's channel) of the session used for real keep-alive frames
    let mut real_session: Option<(u16, u16)> = None;
    macro_rules! bail {
        ($($arg:tt)*) => {{
            obs.machinery = Some(format!("{:?}: {}; trace {:?}", c, format!($($arg)*), trace_to_strings(&peer.trace)));
            return obs;
        }};
    }
    match c.role {
        Role::Client => {
            let mut auto = Auto::default();
            auto.max_frame_size = 4096;
            auto.idle_time_out = c.t;
            auto.grant_credit = Some(1_000_000);
            auto.incoming_window = 10_000_000;
            auto.outgoing_window = 10_000_000;
            peer = Peer::new(pipe.clone(), 1, auto);
            let mut b = Connection::builder().container_id("lib").max_frame_size(4096);
            if let Some(l) = c.l {
                b = b.idle_time_out(l);
            }
            let mut conn = match drive(&mut peer, b.open_with_stream(a), h).await {
                Some(Ok(x)) => x,
                other => bail!("open did not succeed: {:?}", other.map(|r| r.map(|_| ()).map_err(|e| e.to_string()))),
            };
            if c.lib != LibPat::Silent || c.peer == PeerPat::KeepReal {
                let mut sess = match drive(&mut peer, Session::begin(&mut conn), h).await {
                    Some(Ok(x)) => x,
                    other => bail!("begin did not succeed: {:?}", other.map(|r| r.map(|_| ()).map_err(|e| e.to_string()))),
                };
                real_session = Some((peer.our_channel(0), 0));
                if c.lib != LibPat::Silent {
                    let att = Sender::builder().name("s").target("q").sender_settle_mode(SenderSettleMode::Settled).attach(&mut sess);
                    match drive(&mut peer, att, h).await {
                        Some(Ok(x)) => sender = Some(x),
                        other => bail!("attach did not succeed: {:?}", other.map(|r| r.map(|_| ()).map_err(|e| format!("{e:?}")))),
                    }
                }
                _client_session = Some(sess);
            }
            let f = fired.clone();
            tokio::spawn(async move {
                let r = conn.on_close().await;
                *f.lock().unwrap() = Some((t0.elapsed(), format!("{:?}", r), r.is_err()));
                std::future::pending::<()>().await;
                drop(conn);
            });
        }
        Role::Listener => {
            let mut auto = Auto::none();
            auto.max_frame_size = 4096;
            peer = Peer::new(pipe.clone(), 1, auto);
            peer.send_proto_header(AMQP_HEADER);
            peer.send(0, Performative::Open(peer_open(100, c.t)));
            let mut b = ConnectionAcceptor::builder().container_id("lib-listener").max_frame_size(4096);
            if let Some(l) = c.l {
                b = b.idle_time_out(l);
            }
            let acceptor = b.build();
            let mut conn = match drive(&mut peer, acceptor.accept(a), h).await {
                Some(Ok(x)) => x,
                other => bail!("accept did not succeed: {:?}", other.map(|r| r.map(|_| ()).map_err(|e| e.to_string()))),
            };
            if c.peer == PeerPat::KeepReal {
                peer.send(0, Performative::Begin(peer_begin()));
                settle(&mut peer, 1).await;
                let inc = match tokio::time::timeout(Duration::from_millis(2), conn.next_incoming_session()).await {
                    Ok(Some(i)) => i,
                    _ => bail!("the listener did not report the incoming session"),
                };
                match drive(&mut peer, SessionAcceptor::new().accept_incoming_session(inc, &mut conn), h).await {
                    Some(Ok(x)) => _listener_session = Some(x),
                    other => bail!("accept_incoming_session did not succeed: {:?}", other.map(|r| r.map(|_| ()).map_err(|e| format!("{e:?}")))),
                }
                settle(&mut peer, 1).await;
                let lib_ch = peer.trace.iter().find_map(|w| match (&w.body, w.dir) {
                    (Body::Perf(Performative::Begin(_)), Dirn::FromLib) => Some(w.channel),
                    _ => None,
                });
                match lib_ch {
                    Some(lc) => real_session = Some((0, lc)),
                    None => bail!("the listener did not answer the begin"),
                }
            }
            let f = fired.clone();
            tokio::spawn(async move {
                let r = conn.on_close().await;
                *f.lock().unwrap() = Some((t0.elapsed(), format!("{:?}", r), r.is_err()));
                std::future::pending::<()>().await;
                drop(conn);
            });
        }
    }
    settle(&mut peer, 1).await;
    if let Some(f) = fired.lock().unwrap().clone() {
        bail!("the connection stopped during the set-up: {:?}", f);
    }
    obs.keys.push(h64(&("open", c.role, c.t.map(|t| t > 0), c.l.map(|l| l > 0))));
    // ---------------------------------------------------------------- the timeline
    let p = plan(&c);
    let p0 = tokio::time::Instant::now();
    let mut lib_stopped = false;
    let mut first_send_error: Option<(u64, String)> = None;
    let mut h1_checked = p.h1 == 0;
    let mut up_at_h1 = true;
    let mut n_sent = 0u32;
    for (tm, act) in p.acts.iter() {
        if !h1_checked && *tm > p.h1 {
            tokio::time::sleep_until(p0 + Duration::from_millis(p.h1)).await;
            up_at_h1 = fired.lock().unwrap().is_none();
            h1_checked = true;
        }
        tokio::time::sleep_until(p0 + Duration::from_millis(*tm)).await;
        match act {
            Act::PeerEmpty => {
                peer.pump();
                peer.send_empty();
                obs.peer_keepalives += 1;
            }
            Act::PeerReal => {
                peer.pump();
                let (pch, lch) = real_session.unwrap();
                let mut f = peer.flow_for(lch);
                if c.role == Role::Listener {
                    f.incoming_window = 1000;
                    f.outgoing_window = 1000;
                }
                peer.send(pch, Performative::Flow(f));
                obs.peer_keepalives += 1;
            }
            Act::LibSend(k) => {
                if lib_stopped || fired.lock().unwrap().is_some() {
                    lib_stopped = true;
                    continue;
                }
                let snd = sender.as_mut().unwrap();
                for _ in 0..*k {
                    n_sent += 1;
                    // pre-settled: completes at the same virtual instant, without the peer
                    match tokio::time::timeout(Duration::from_millis(200), snd.send(format!("m{n_sent}"))).await {
                        Ok(Ok(_)) => obs.sends_ok += 1,
                        Ok(Err(e)) => {
                            first_send_error.get_or_insert((ms(p0.elapsed()), format!("{e:?}")));
                            lib_stopped = true;
                            break;
                        }
                        Err(_) => {
                            first_send_error.get_or_insert((ms(p0.elapsed()), "send still pending after 200 ms".into()));
                            lib_stopped = true;
                            break;
                        }
                    }
                }
            }
        }
    }
    if !h1_checked {
        tokio::time::sleep_until(p0 + Duration::from_millis(p.h1)).await;
        up_at_h1 = fired.lock().unwrap().is_none();
    }
    tokio::time::sleep_until(p0 + Duration::from_millis(p.htot)).await;
    tokio::time::sleep(Duration::from_millis(1)).await;
    // read what is left on the wire without answering anything any more
    peer.auto = Auto::none();
    peer.pump();
    let t_end_run = t0.elapsed();
    // ---------------------------------------------------------------- judging
    let log = pipe.log();
    let starts = lib_frame_starts(&log);
    let fired_v = fired.lock().unwrap().clone();
    let lp = c.l.filter(|l| *l > 0).map(|l| l as u64);
    let tp = c.t.filter(|t| *t > 0).map(|t| t as u64);
    let peer_open_t = peer.trace.iter().find_map(|w| match (&w.body, w.dir) {
        (Body::Perf(Performative::Open(_)), Dirn::FromPeer) => Some(w.t),
        _ => None,
    });
    let lib_close_t = starts.iter().find(|s| s.1 == 0x18).map(|s| s.0);
    let peer_frame_times: Vec<Duration> = peer.trace.iter().filter(|w| w.dir == Dirn::FromPeer).map(|w| w.t).collect();
    let transport_closed = pipe.peer_closed(1);
    let Some(peer_open_t) = peer_open_t else {
        bail!("the peer's open is not in the trace");
    };
    // the connection is "open" until the library writes its close, reports the stop, or the run ends
    let mut t_end = t_end_run;
    if let Some(t) = lib_close_t {
        t_end = t_end.min(t);
    }
    if let Some((t, _, _)) = &fired_v {
        t_end = t_end.min(*t);
    }
    // --- oracle T: no interval longer than T without a frame start.  Permissive: == T passes.
    obs.heartbeats = starts.iter().filter(|s| s.1 == 0 && s.0 >= peer_open_t).count();
    obs.lib_frames = starts.iter().filter(|s| s.0 >= peer_open_t && s.1 != 0xff).count();
    if let Some(t) = tp {
        let mut pts: Vec<(Duration, String)> = vec![(peer_open_t, "the peer's open".into())];
        for s in starts.iter().filter(|s| s.0 >= peer_open_t && s.0 <= t_end && s.1 != 0xff) {
            pts.push((s.0, if s.1 == 0 { "an empty frame".into() } else { format!("a frame with performative code 0x{:02x}", s.1) }));
        }
        pts.push((t_end, "the end of the observation (close / teardown / horizon)".into()));
        let mut worst: Option<(u64, usize)> = None;
        for (i, w) in pts.windows(2).enumerate() {
            let g = ms(w[1].0 - w[0].0);
            obs.max_gap_ms = obs.max_gap_ms.max(g);
            if g > t && worst.map_or(true, |x| g > x.0) {
                worst = Some((g, i));
            }
        }
        if let Some((g, i)) = worst {
            obs.fails.push((
                format!("frame-gap-exceeds-peer-idle-time-out [{:?}]", c.role),
                format!(
                    "the peer advertised idle-time-out {t} ms but {g} ms passed between {} at {} ms and {} at {} ms while the connection was open (application pattern {:?}, peer pattern {:?}, local idle time-out {:?})",
                    pts[i].1,
                    ms(pts[i].0),
                    pts[i + 1].1,
                    ms(pts[i + 1].0),
                    c.lib,
                    c.peer,
                    c.l
                ),
            ));
        }
        // non-vacuity: where would the application's own frames have left a hole?
        let app: Vec<Duration> = starts.iter().filter(|s| s.0 >= peer_open_t && s.0 <= t_end && s.1 != 0 && s.1 != 0xff).map(|s| s.0).collect();
        let mut prev = peer_open_t;
        for x in app.iter().chain(std::iter::once(&t_end)) {
            if ms(*x - prev) > t {
                obs.app_gaps_over_t += 1;
            }
            prev = *x;
        }
    }
    // --- oracle L
    let last_peer_before = |t: Duration| peer_frame_times.iter().filter(|x| **x <= t).max().copied();
    match (&fired_v, lp) {
        (None, None) => {
            obs.kept_up = false;
            if lib_close_t.is_some() || transport_closed {
                obs.machinery = Some(format!("{:?}: no local idle time-out, on_close pending, but the wire shows close={:?} transport_closed={transport_closed}", c, lib_close_t));
            }
        }
        (Some((t, res, is_err)), None) => {
            // nothing was configured: an idle teardown is a violation, anything else is not this property's business
            if *is_err && is_idle_error(res) {
                obs.fails.push((
                    format!("idle-teardown-without-local-idle-time-out [{:?}]", c.role),
                    format!("local idle time-out is {:?} (= none) but on_close() resolved with {res} at {} ms", c.l, ms(*t)),
                ));
            } else {
                obs.machinery = Some(format!("{:?}: the connection stopped at {} ms with {res} although nothing should stop it; trace tail {:?}", c, ms(*t), tail_trace(&peer.trace, 10)));
            }
        }
        (None, Some(l)) => {
            obs.kept_up = up_at_h1 && p.h1 > 0;
            let last = last_peer_before(t_end_run).unwrap_or(peer_open_t);
            obs.fails.push((
                format!("no-teardown-after-idle-time-out [{:?}]", c.role),
                format!(
                    "local idle time-out {l} ms; the peer's last frame arrived at {} ms and {} ms of silence followed, yet on_close() is still pending (close frame: {:?}, transport closed: {transport_closed})",
                    ms(last),
                    ms(t_end_run - last),
                    lib_close_t.map(ms)
                ),
            ));
        }
        (Some((t, res, is_err)), Some(l)) => {
            let last = last_peer_before(*t).unwrap_or(peer_open_t);
            let silence = ms(*t - last);
            obs.teardown = Some((silence, res.clone()));
            obs.kept_up = up_at_h1 && p.h1 > 0;
            if *is_err && !is_idle_error(res) && silence < l {
                obs.machinery = Some(format!("{:?}: the connection stopped at {} ms with {res} for a reason other than the idle time-out; trace tail {:?}", c, ms(*t), tail_trace(&peer.trace, 10)));
            } else {
                // "does not do so while frames keep arriving in time": permissive, silence == L may already fire
                if silence < l {
                    obs.fails.push((
                        format!("torn-down-while-frames-arrive-in-time [{:?}]", c.role),
                        format!(
                            "local idle time-out {l} ms; on_close() resolved with {res} at {} ms, only {silence} ms after a frame of the peer arrived at {} ms (peer pattern {:?}, application pattern {:?})",
                            ms(*t),
                            ms(last),
                            c.peer,
                            c.lib
                        ),
                    ));
                }
                // permissive upper bound: 2*L + 50 ms
                if silence > 2 * l + 50 {
                    obs.fails.push((
                        format!("idle-teardown-late [{:?}]", c.role),
                        format!("local idle time-out {l} ms; torn down only after {silence} ms of silence"),
                    ));
                }
                // "reports the time-out to the application"
                if !*is_err || !is_idle_error(res) {
                    obs.fails.push((
                        format!("idle-time-out-not-reported [{:?}]", c.role),
                        format!("local idle time-out {l} ms elapsed ({silence} ms of silence) and the connection stopped, but on_close() returned {res}, which does not name the idle time-out"),
                    ));
                }
                // "tears the connection down": a close frame or a closed transport
                if lib_close_t.is_none() && !transport_closed {
                    obs.fails.push((
                        format!("idle-time-out-reported-but-transport-left-open [{:?}]", c.role),
                        format!("local idle time-out {l} ms: on_close() returned {res} but the library neither wrote a close frame nor closed the transport"),
                    ));
                }
            }
        }
    }
    if let (Some((at, e)), Some(_)) = (&first_send_error, lp) {
        obs.trace.push(format!("first failing send at {at} ms after the start of the timeline: {e}"));
    }
    if let (Some((at, e)), None) = (&first_send_error, lp) {
        if obs.machinery.is_none() && obs.fails.is_empty() {
            obs.machinery = Some(format!("{:?}: a send failed at {at} ms after the start of the timeline although the connection should be up: {e}", c));
        }
    }
    obs.keys.push(h64(&("phase1", c.role, p.h1 > 0, up_at_h1, obs.heartbeats > 0, obs.peer_keepalives > 0, obs.sends_ok > 0)));
    obs.keys.push(h64(&(
        "end",
        c.role,
        fired_v.as_ref().map(|f| (f.2, is_idle_error(&f.1))),
        lib_close_t.is_some(),
        transport_closed,
        obs.app_gaps_over_t > 0,
        obs.fails.iter().map(|f| f.0.clone()).collect::<Vec<_>>(),
    )));
    // compact trace: set-up frames, then a summary of the timeline
    let mut tr: Vec<String> = peer.trace.iter().take(14).map(|w| format!("{:>7} ms {}", ms(w.t), w.short())).collect();
    tr.push(format!(
        "plan: keep-alive phase until {} ms, run until {} ms after set-up ({} ms); {} scheduled actions",
        p.h1,
        p.htot,
        ms(p0 - t0),
        p.acts.len()
    ));
    let fs: Vec<String> = starts.iter().filter(|s| s.0 >= peer_open_t && s.1 != 0xff).map(|s| format!("{}:{}", ms(s.0), if s.1 == 0 { "E".into() } else { format!("{:02x}", s.1) })).collect();
    let shown = if fs.len() > 40 { format!("{} ... {}", fs[..25].join(" "), fs[fs.len() - 10..].join(" ")) } else { fs.join(" ") };
    tr.push(format!("library frame starts (ms:kind, E = empty): {shown}"));
    tr.push(format!(
        "heartbeats={} lib_frames={} max_gap={} ms peer_keepalives={} sends_ok={} up_at_end_of_keepalive={} on_close={:?} close_frame_at={:?} transport_closed={}",
        obs.heartbeats,
        obs.lib_frames,
        obs.max_gap_ms,
        obs.peer_keepalives,
        obs.sends_ok,
        up_at_h1,
        fired_v.as_ref().map(|f| (ms(f.0), f.1.clone())),
        lib_close_t.map(ms),
        transport_closed
    ));
    tr.append(&mut obs.trace);
    obs.trace = tr;
    obs
}

pub struct IdleRun {
    pub obs: Option<IdleObs>,
    pub machinery: Option<String>,
}

fn run_idle(c: IdleCase) -> IdleRun {
    let scen: Scenario<IdleObs> = Arc::new(move || Box::pin(idle_scenario(c)));
    let mut cfg = RunCfg::none();
    cfg.real_timeout = Duration::from_secs(120);
    let ex = run_exec(vec![], &cfg, &scen);
    let mut machinery = None;
    if ex.watchdog {
        machinery = Some(format!("{:?}: the execution did not finish in real time (watchdog)", c));
    } else if ex.out.is_none() {
        machinery = Some(format!("{:?}: scenario panicked: {:?}", c, ex.panics));
    } else if ex.spun {
        machinery = Some(format!("{:?}: busy loop (more than 20000 polls at one virtual instant); trace {:?}", c, ex.out.as_ref().map(|o| o.trace.clone())));
    } else if !ex.panics.is_empty() {
        // a panic of a library task is not this property's verdict (see C14/C15): handed to the owner
        machinery = Some(format!("{:?}: panic(s) during the execution: {:?}; trace {:?}", c, ex.panics, ex.out.as_ref().map(|o| o.trace.clone())));
    }
    if let Some(o) = &ex.out {
        if machinery.is_none() {
            machinery = o.machinery.clone();
        }
    }
    IdleRun { obs: ex.out, machinery }
}

// ------------------------------------------------------------------------------------------------
// idle time-out while the engine is held up in a write.  The peer keeps sending empty frames well inside
// the library's idle time-out L, but for 2.4 x L it takes no bytes, so that the library's engine sits in
// the write of a begin frame and does not look at its input.  When the peer reads again the frames that
// arrived in time are all there: the connection must not be declared idle.
pub async fn idle_backpressure_scenario(l: u32) -> (Vec<(String, String)>, Vec<String>, Option<String>) {
    let mut fails = vec![];
    let (pipe, a, _b) = Pipe::new();
    let mut auto = Auto::default();
    auto.max_frame_size = 4096;
    let mut peer = Peer::new(pipe.clone(), 1, auto);
    let h = Duration::from_secs(30);
    let mut conn = match drive(&mut peer, Connection::builder().container_id("lib").max_frame_size(4096).idle_time_out(l).open_with_stream(a), h).await {
        Some(Ok(c)) => c,
        other => return (fails, trace_to_strings(&peer.trace), Some(format!("idle/back-pressure: open failed: {:?}", other.map(|r| r.map(|_| ()).map_err(|e| e.to_string()))))),
    };
    settle(&mut peer, 2).await;
    pipe.stall_writes(0, true);
    let task = tokio::spawn(async move {
        let r = Session::begin(&mut conn).await.map(|_s| ()).map_err(|e| format!("{e:?}"));
        (conn, r)
    });
    // the peer's heartbeats: every 0.4 L for 2.4 L
    let step = Duration::from_millis((l as u64 * 2 / 5).max(1));
    for _ in 0..6 {
        tokio::time::sleep(step).await;
        peer.send_empty();
    }
    pipe.stall_writes(0, false);
    // the peer reads again and keeps the connection alive while the begin is answered
    for _ in 0..3 {
        settle(&mut peer, 2).await;
        peer.send_empty();
    }
    let what = format!("local idle time-out {l} ms; the peer sent an empty frame every {} ms throughout but took no bytes for {} ms while a begin was being written", step.as_millis(), step.as_millis() * 6);
    if !task.is_finished() {
        fails.push(("idle/back-pressure: begin hangs".to_string(), format!("{what}: Session::begin still pending after the peer resumed reading")));
        task.abort();
        return (fails, trace_to_strings(&peer.trace), None);
    }
    let (mut conn, r) = task.await.expect("begin task");
    if let Err(e) = &r {
        fails.push((
            if is_idle_error(e) { "idle-timeout-although-frames-arrived (engine held up in a write)".to_string() } else { "idle/back-pressure: begin failed".to_string() },
            format!("{what}: Session::begin -> {e}"),
        ));
    }
    match drive(&mut peer, conn.close(), h).await {
        Some(Ok(())) => {}
        other => {
            let e = format!("{:?}", other.map(|r| r.map_err(|e| e.to_string())));
            if r.is_ok() {
                fails.push((
                    if is_idle_error(&e) { "idle-timeout-although-frames-arrived (engine held up in a write)".to_string() } else { "idle/back-pressure: close failed".to_string() },
                    format!("{what}: close() -> {e}"),
                ));
            }
        }
    }
    (fails, trace_to_strings(&peer.trace), None)
}

fn run_idle_backpressure(out: &mut Outcome) -> u64 {
    let mut n = 0;
    for l in [100u32, 1000, 60_000] {
        let scen: Scenario<(Vec<(String, String)>, Vec<String>, Option<String>)> = Arc::new(move || Box::pin(idle_backpressure_scenario(l)));
        let ex = run_exec(vec![], &RunCfg::none(), &scen);
        n += 1;
        match ex.out {
            Some((fails, trace, mach)) => {
                if let Some(m) = mach {
                    out.machinery_errors.push(m);
                }
                for (s, d) in fails {
                    out.violation(s, d, json!({"part": "idle-backpressure", "l": l, "trace": trace}));
                }
            }
            None => out.machinery_errors.push(format!("idle/back-pressure scenario l={l} died: {:?}", ex.panics)),
        }
    }
    n
}

// ------------------------------------------------------------------------------------------------
// heartbeats while the application is slow to receive.  The peer advertises idle time-out T and is a
// conforming sender: it transfers exactly the deliveries the receiver's credit allows, in one burst, reads
// everything the library writes, and keeps the connection alive from its side.  The application does not
// call recv() for 3.5 x T.  With small session / link buffers the deliveries cannot all be handed on; that
// must not keep the endpoint from sending a frame at least every T while the connection is open.
pub async fn slow_app_scenario(t_ms: u32, credit: u32, sess_buf: usize, link_buf: usize) -> (Vec<(String, String)>, Vec<String>, Option<String>, bool) {
    use fe2o3_amqp::link::receiver::CreditMode;
    use fe2o3_amqp_types::definitions::Handle;
    use fe2o3_amqp_types::messaging::message::__private::Serializable;
    use fe2o3_amqp_types::messaging::Message;
    let mut fails = vec![];
    let (pipe, a, _b) = Pipe::new();
    let mut auto = Auto::default();
    auto.max_frame_size = 4096;
    auto.idle_time_out = Some(t_ms);
    let mut peer = Peer::new(pipe.clone(), 1, auto);
    let h = Duration::from_secs(30);
    let mut conn = match drive(&mut peer, Connection::builder().container_id("lib").max_frame_size(4096).open_with_stream(a), h).await {
        Some(Ok(c)) => c,
        _ => return (fails, trace_to_strings(&peer.trace), Some("slow-app: open failed".into()), false),
    };
    let mut session = match drive(&mut peer, Session::builder().buffer_size(sess_buf).begin(&mut conn), h).await {
        Some(Ok(s)) => s,
        _ => return (fails, trace_to_strings(&peer.trace), Some("slow-app: begin failed".into()), false),
    };
    let mut rb = fe2o3_amqp::Receiver::builder().name("r").source("q").credit_mode(CreditMode::Manual);
    rb.buffer_size = link_buf;
    let mut rx = match drive(&mut peer, rb.attach(&mut session), h).await {
        Some(Ok(r)) => r,
        _ => return (fails, trace_to_strings(&peer.trace), Some("slow-app: attach failed".into()), false),
    };
    if drive(&mut peer, rx.set_credit(credit), h).await.is_none() {
        return (fails, trace_to_strings(&peer.trace), Some("slow-app: set_credit hangs".into()), false);
    }
    settle(&mut peer, 2).await;
    let Some(link) = peer.links.last().cloned() else {
        return (fails, trace_to_strings(&peer.trace), Some("slow-app: no link".into()), false);
    };
    let ch = peer.our_channel(link.lib_channel);
    // the burst: exactly `credit` pre-settled one-frame deliveries
    let t_burst = tokio::time::Instant::now();
    for k in 0..credit {
        let tr = Transfer {
            handle: Handle(link.our_handle),
            delivery_id: Some(k),
            delivery_tag: Some(serde_bytes::ByteBuf::from(k.to_be_bytes().to_vec())),
            message_format: Some(0),
            settled: Some(true),
            more: false,
            rcv_settle_mode: None,
            state: None,
            resume: false,
            aborted: false,
            batchable: false,
        };
        let payload = serde_amqp::to_vec(&Serializable(Message::builder().value(k).build())).unwrap();
        peer.send_perf(ch, Performative::Transfer(tr), &payload);
    }
    // the application is busy elsewhere for 3.5 T; the peer reads and sends its own keep-alives every 0.4 T
    let step = Duration::from_millis((t_ms as u64 * 2 / 5).max(1));
    let busy = Duration::from_millis(t_ms as u64 * 7 / 2);
    while t_burst.elapsed() < busy {
        tokio::time::sleep(step).await;
        peer.pump();
        peer.send_empty();
    }
    let t_end = tokio::time::Instant::now();
    // frames the library wrote while the application was away: no gap of T without one
    let t0 = peer.trace.first().map(|w| w.t).unwrap_or_default();
    let _ = t0;
    let starts: Vec<Duration> = lib_frame_starts(&pipe.log()).into_iter().map(|x| x.0).collect();
    let window_from = peer.trace.iter().rev().find(|w| w.dir == Dirn::FromPeer && matches!(w.perf(), Some(Performative::Transfer(_)))).map(|w| w.t).unwrap_or_default();
    let window_to = window_from + (t_end - t_burst);
    let mut last = starts.iter().copied().filter(|t| *t <= window_from).last().unwrap_or(window_from);
    let mut max_gap = Duration::ZERO;
    for t in starts.iter().copied().filter(|t| *t > window_from && *t <= window_to).chain(std::iter::once(window_to)) {
        if t - last > max_gap {
            max_gap = t - last;
        }
        last = t;
    }
    let held_up = credit as usize > sess_buf + link_buf;
    // (the permissive reading of "no interval of that length": a gap of exactly T passes, see the idle cases)
    if max_gap > Duration::from_millis(t_ms as u64) {
        fails.push((
            "heartbeat-gap (application slow to receive)".to_string(),
            format!(
                "the peer advertises idle time-out {t_ms} ms; {credit} deliveries within the receiver's credit arrive at once (session buffer {sess_buf}, link buffer {link_buf}) and the application does not call recv() for {} ms: the library wrote no frame for {} ms",
                busy.as_millis(),
                max_gap.as_millis()
            ),
        ));
    }
    // afterwards the application receives everything and the connection is still usable
    let mut got = 0u32;
    for _ in 0..credit {
        match drive(&mut peer, rx.recv::<u32>(), Duration::from_secs(2)).await {
            Some(Ok(_)) => got += 1,
            _ => break,
        }
    }
    if got != credit {
        fails.push((
            "slow-app: deliveries lost".to_string(),
            format!("idle time-out {t_ms} ms, credit {credit}, buffers {sess_buf}/{link_buf}: after the pause recv() returned {got} of {credit} deliveries"),
        ));
    }
    (fails, trace_to_strings(&peer.trace), None, held_up)
}

fn run_slow_app(out: &mut Outcome) -> (u64, u64) {
    let mut n = 0;
    let mut held = 0;
    for t_ms in [100u32, 1000] {
        for credit in [2u32, 10] {
            for (sb, lb) in [(1usize, 1usize), (2, 1), (1, 2), (64, 64)] {
                let scen: Scenario<(Vec<(String, String)>, Vec<String>, Option<String>, bool)> = Arc::new(move || Box::pin(slow_app_scenario(t_ms, credit, sb, lb)));
                let ex = run_exec(vec![], &RunCfg::none(), &scen);
                n += 1;
                match ex.out {
                    Some((fails, trace, mach, held_up)) => {
                        if held_up {
                            held += 1;
                        }
                        if let Some(m) = mach {
                            out.machinery_errors.push(m);
                        }
                        for (s, d) in fails {
                            out.violation(s, d, json!({"part": "slow-app", "t": t_ms, "credit": credit, "sess_buf": sb, "link_buf": lb, "trace": trace}));
                        }
                    }
                    None => out.machinery_errors.push(format!("slow-app scenario t={t_ms} credit={credit} bufs={sb}/{lb} died: {:?}", ex.panics)),
                }
            }
        }
    }
    (n, held)
}

fn idle_cases(quick: bool) -> Vec<IdleCase> {
    let vals: Vec<Option<u32>> = if quick {
        vec![None, Some(0), Some(100), Some(60_000)]
    } else {
        vec![None, Some(0), Some(10), Some(100), Some(1000), Some(60_000)]
    };
    let libs = [LibPat::Silent, LibPat::Steady, LibPat::Bursts(-1), LibPat::Bursts(0), LibPat::Bursts(1)];
    let peers = [PeerPat::Silent, PeerPat::KeepEmpty, PeerPat::KeepReal];
    let mut v = vec![];
    for role in [Role::Client, Role::Listener] {
        for t in &vals {
            for l in &vals {
                for lib in libs {
                    // the listener's application stays silent (a sending link on the listener needs a link
                    // acceptor and adds nothing to the connection-level timers)
                    if role == Role::Listener && lib != LibPat::Silent {
                        continue;
                    }
                    for peer in peers {
                        v.push(IdleCase { role, t: *t, l: *l, lib, peer });
                    }
                }
            }
        }
    }
    v
}

// ================================================================================================
// driver
// ================================================================================================

pub fn run(ctx: &Ctx) -> Outcome {
    let mut out = Outcome::new("model_checking");
    if let Some(p) = &ctx.replay {
        return replay(p, out);
    }
    // (the quick tier runs what used to be the thorough bound - about 10 s; thorough goes deeper)
    let deep = !ctx.quick();
    let quick = false;
    let cdepth = if deep { 13 } else { 11 };
    let ldepth = if deep { 11 } else { 9 };
    let deadline = Instant::now() + Duration::from_secs_f64(ctx.budget_s);
    let mut states = 0u64;
    let mut transitions = 0u64;
    let mut executions = 0u64;
    let mut events = 0u64;
    let mut truncated = false;
    let mut samples: Vec<J> = vec![];
    let cnt_c = ChCounters::default();
    let cnt_l = ChCounters::default();

    // ---- Part 2 first (cheap, fixed size)
    let n_bp = run_idle_backpressure(&mut out);
    out.set("idle_backpressure_cases", n_bp);
    let (n_slow, n_slow_held) = run_slow_app(&mut out);
    out.set("slow_application_heartbeat_cases", n_slow);
    out.set("slow_application_cases_with_more_deliveries_than_buffer_room", n_slow_held);
    let cases = idle_cases(quick);
    let t_idle = Instant::now();
    let runs = par_map(&cases, ctx.threads, |_, c| if Instant::now() > deadline { None } else { Some(run_idle(*c)) });
    let mut idle_states = std::collections::HashSet::new();
    let mut idle_trans = std::collections::HashSet::new();
    let mut idle_exec = 0u64;
    let (mut hb_cases, mut hb_needed, mut kept_up, mut torn_down, mut no_timeout_cases, mut keepalives, mut heartbeats) = (0u64, 0u64, 0u64, 0u64, 0u64, 0u64, 0u64);
    for (c, r) in cases.iter().zip(runs) {
        let Some(r) = r else {
            truncated = true;
            continue;
        };
        idle_exec += 1;
        if let Some(m) = r.machinery {
            if out.machinery_errors.len() < 8 {
                out.machinery_errors.push(m);
            }
        }
        let Some(o) = r.obs else { continue };
        for k in &o.keys {
            idle_states.insert(*k);
        }
        for (i, w) in o.keys.windows(2).enumerate() {
            idle_trans.insert((w[0], i, w[1]));
        }
        if c.t.map_or(false, |t| t > 0) {
            hb_cases += 1;
            if o.app_gaps_over_t > 0 {
                hb_needed += 1;
            }
        }
        heartbeats += o.heartbeats as u64;
        keepalives += o.peer_keepalives as u64;
        if o.kept_up {
            kept_up += 1;
        }
        if o.teardown.is_some() {
            torn_down += 1;
        }
        if c.l.map_or(true, |l| l == 0) {
            no_timeout_cases += 1;
        }
        events += 2;
        for (s, d) in &o.fails {
            let mut rj = c.to_json();
            rj["trace"] = json!(o.trace);
            out.violation(s.clone(), format!("{:?}: {d}", c), rj);
        }
        let interesting = c.role == Role::Client && c.t == Some(100) && c.l == Some(100) && c.lib == LibPat::Bursts(1) && c.peer == PeerPat::KeepEmpty;
        if interesting {
            samples.push(json!({"part": "idle", "case": format!("{:?}", c), "trace": o.trace}));
        }
    }
    let idle_wall = t_idle.elapsed().as_secs_f64();
    executions += idle_exec;
    states += idle_states.len() as u64;
    transitions += idle_trans.len() as u64;

    // ---- Part 1a: client histories, every pair
    let t_part = Instant::now();
    let mut client_pairs_done = 0u64;
    let pairs: Vec<(u16, u16)> = CHMAX.iter().flat_map(|l| CHMAX.iter().map(move |r| (*l, *r))).collect();
    let inner = (ctx.threads / 8).max(1);
    // violations with the executed prefix of the history (the monitor stops at the first failure)
    type Viol = (u16, u16, Vec<usize>, String, String, Vec<String>);
    let viol_c: Mutex<Vec<Viol>> = Mutex::new(vec![]);
    let client_stats = par_map(&pairs, ctx.threads, |_, (local, remote)| {
        search(CALPHA.len(), cdepth, inner, deadline, |h| {
            let o = run_client_history(*local, *remote, h.iter().map(|i| CALPHA[*i]).collect(), false, Some(&cnt_c));
            if !o.fails.is_empty() {
                let mut v = viol_c.lock().unwrap();
                for (s, d) in &o.fails {
                    v.push((*local, *remote, h[..o.executed.min(h.len())].to_vec(), s.clone(), d.clone(), o.trace.clone()));
                }
            }
            o
        })
    });
    for ((local, remote), st) in pairs.iter().copied().zip(client_stats) {
        {
            executions += st.executions;
            events += st.events_executed;
            states += st.distinct_states;
            transitions += st.distinct_transitions;
            truncated |= st.truncated;
            if !st.truncated {
                client_pairs_done += 1;
            }
            for m in st.machinery {
                if out.machinery_errors.len() < 8 {
                    out.machinery_errors.push(m);
                }
            }
            if local == 1 && remote == 2 {
                if let Some(t) = st.sample_traces.into_iter().next() {
                    samples.push(json!({"part": "chmax", "role": "Client", "local": local, "remote": remote, "trace": t}));
                }
            }
        }
    }
    {
        let mut v = viol_c.into_inner().unwrap();
        v.sort_by(|a, b| (a.2.len(), &a.2, a.0, a.1, &a.3).cmp(&(b.2.len(), &b.2, b.0, b.1, &b.3)));
        v.dedup_by(|a, b| a.0 == b.0 && a.1 == b.1 && a.2 == b.2 && a.3 == b.3);
        for (local, remote, h, sig, detail, trace) in v {
            let evs: Vec<String> = h.iter().map(|i| format!("{:?}", CALPHA[*i])).collect();
            out.violation(
                sig,
                format!("client local={local} remote={remote}, history {:?}: {detail}", evs),
                json!({"part": "chmax", "role": "Client", "local": local, "remote": remote, "events": h, "event_names": evs, "trace": trace}),
            );
        }
    }
    let client_wall = t_part.elapsed().as_secs_f64();
    let t_part = Instant::now();
    // ---- Part 1b: fill runs (the limit is really reached, also for 255 and 65535)
    let mut fills: Vec<(u16, u16)> = vec![];
    for local in CHMAX {
        for remote in CHMAX {
            fills.push((local, remote));
        }
    }
    // the 65536-session run first so that it overlaps with the others
    fills.sort_by_key(|p| std::cmp::Reverse(p.0.min(p.1)));
    let fill_limit_hit = AtomicU64::new(0);
    let fill_runs = par_map(&fills, ctx.threads.min(6), |_, (local, remote)| {
        if Instant::now() > deadline {
            return None;
        }
        let m = (*local).min(*remote);
        let evs = fill_events(m);
        let n = evs.len();
        let o = run_client_history(*local, *remote, evs, true, Some(&cnt_c));
        if o.executed == n {
            fill_limit_hit.fetch_add(1, Ordering::Relaxed);
        }
        Some(o)
    });
    let mut fill_done = 0u64;
    let mut fill_states = std::collections::HashSet::new();
    for ((local, remote), o) in fills.iter().zip(fill_runs) {
        let Some(o) = o else {
            truncated = true;
            continue;
        };
        fill_done += 1;
        executions += 1;
        events += o.executed as u64;
        for k in &o.state_keys {
            fill_states.insert(*k);
        }
        transitions += o.executed as u64;
        if let Some(m) = o.machinery {
            if out.machinery_errors.len() < 8 {
                out.machinery_errors.push(m);
            }
        }
        for (sig, detail) in o.fails {
            out.violation(
                sig,
                format!("client local={local} remote={remote}, fill run (begin x{}, end oldest, end newest, begin x3): {detail}", (*local).min(*remote) as usize + 2),
                json!({"part": "fill", "role": "Client", "local": local, "remote": remote, "trace": o.trace}),
            );
        }
        if *local == 255 && *remote == 65535 {
            samples.push(json!({"part": "fill", "local": local, "remote": remote, "trace": o.trace}));
        }
    }
    states += fill_states.len() as u64;
    let fill_wall = t_part.elapsed().as_secs_f64();
    let t_part = Instant::now();
    // ---- Part 1c: listener histories, every pair
    let mut listener_pairs_done = 0u64;
    let viol_l: Mutex<Vec<Viol>> = Mutex::new(vec![]);
    let listener_stats = par_map(&pairs, ctx.threads, |_, (local, remote)| {
        search(LALPHA.len(), ldepth, inner, deadline, |h| {
            let o = run_listener_history(*local, *remote, h.iter().map(|i| LALPHA[*i]).collect(), Some(&cnt_l));
            if !o.fails.is_empty() {
                let mut v = viol_l.lock().unwrap();
                for (s, d) in &o.fails {
                    v.push((*local, *remote, h[..o.executed.min(h.len())].to_vec(), s.clone(), d.clone(), o.trace.clone()));
                }
            }
            o
        })
    });
    for ((local, remote), st) in pairs.iter().copied().zip(listener_stats) {
        {
            executions += st.executions;
            events += st.events_executed;
            states += st.distinct_states;
            transitions += st.distinct_transitions;
            truncated |= st.truncated;
            if !st.truncated {
                listener_pairs_done += 1;
            }
            for m in st.machinery {
                if out.machinery_errors.len() < 8 {
                    out.machinery_errors.push(m);
                }
            }
            if local == 2 && remote == 1 {
                if let Some(t) = st.sample_traces.into_iter().next() {
                    samples.push(json!({"part": "chmax", "role": "Listener", "local": local, "remote": remote, "trace": t}));
                }
            }
        }
    }
    {
        let mut v = viol_l.into_inner().unwrap();
        v.sort_by(|a, b| (a.2.len(), &a.2, a.0, a.1, &a.3).cmp(&(b.2.len(), &b.2, b.0, b.1, &b.3)));
        v.dedup_by(|a, b| a.0 == b.0 && a.1 == b.1 && a.2 == b.2 && a.3 == b.3);
        for (local, remote, h, sig, detail, trace) in v {
            let evs: Vec<String> = h.iter().map(|i| format!("{:?}", LALPHA[*i])).collect();
            out.violation(
                sig,
                format!("listener local={local} remote={remote}, history {:?}: {detail}", evs),
                json!({"part": "chmax", "role": "Listener", "local": local, "remote": remote, "events": h, "event_names": evs, "trace": trace}),
            );
        }
    }
    let listener_wall = t_part.elapsed().as_secs_f64();
    // ---- non-vacuity
    let refusals_c = cnt_c.refusals.load(Ordering::Relaxed);
    let refusals_l = cnt_l.refusals.load(Ordering::Relaxed);
    if !truncated && out.violations.is_empty() {
        if refusals_c == 0 || cnt_c.limit_reached.load(Ordering::Relaxed) == 0 {
            out.machinery_errors.push("non-vacuity: no client execution reached the channel-max limit / was refused".into());
        }
        if cnt_l.peer_excess.load(Ordering::Relaxed) == 0 {
            out.machinery_errors.push("non-vacuity: the scripted client never exceeded the limit in the listener runs".into());
        }
        if hb_needed == 0 || kept_up == 0 || torn_down == 0 {
            out.machinery_errors.push(format!("non-vacuity: idle part did not exercise the timers (heartbeat needed in {hb_needed} cases, kept up in {kept_up}, torn down in {torn_down})"));
        }
    }
    out.set("states", states.max(1));
    out.set("transitions", transitions.max(1));
    out.set("traces_validated_against_impl", executions);
    out.set("executions", executions);
    out.set("events_executed", events);
    out.set("samples", json!(samples));
    out.set("exhaustive", !truncated);
    out.set(
        "bound",
        format!(
            "channel-max: (local, remote) in {{0,1,2,255,65535}}^2; client: all histories of depth {cdepth} over {{begin, end oldest, end newest}} per pair ({client_pairs_done}/25 pairs complete) + {fill_done} fill runs (begin until refused, free two, re-begin{}); listener: all histories of depth {ldepth} over {{begin on lowest free channel, begin on channel min+1, end oldest, end newest}} per pair ({listener_pairs_done}/25 complete). idle: roles x T x L in {:?}^2 x application pattern {{silent, steady T/4, bursts with gaps T-1, T, T+1 ms}} (listener: silent) x peer pattern {{silent, empty frame every L-1 ms, flow frame every L-1 ms}}, horizon 12*max(T,L) (720 s of silence when nothing is armed) + 2L+50 ms of silence = {} cases",
            "; includes the run with 65536 sessions for (65535, 65535)",
            if quick { vec!["unset", "0", "100ms", "60s"] } else { vec!["unset", "0", "10ms", "100ms", "1s", "60s"] },
            cases.len()
        ),
    );
    out.set(
        "rule",
        "states = distinct observable states at quiescence: channel-max part = (ordered list of open channels, outcome of the last operation[, connection closed/with error]); idle part = (role, which timers are armed, connection up at the end of the keep-alive phase, heartbeats seen, teardown/report class); transitions = distinct (state, event, state) triples; every state is reached by executing the real connection engine on the paused tokio clock",
    );
    out.set("client_begin_refusals", refusals_c);
    out.set("client_executions_reaching_the_limit", cnt_c.limit_reached.load(Ordering::Relaxed));
    out.set("client_begin_frames", cnt_c.lib_begins.load(Ordering::Relaxed));
    out.set("fill_runs_complete", fill_limit_hit.load(Ordering::Relaxed));
    out.set("listener_excess_begins_by_peer", cnt_l.peer_excess.load(Ordering::Relaxed));
    out.set("listener_connections_closed_with_error", refusals_l);
    out.set("listener_begin_frames", cnt_l.lib_begins.load(Ordering::Relaxed));
    out.set("idle_cases", idle_exec);
    out.set("idle_cases_with_peer_time_out", hb_cases);
    out.set("idle_cases_where_only_heartbeats_fill_a_gap", hb_needed);
    out.set("idle_heartbeats_observed", heartbeats);
    out.set("idle_peer_keepalive_frames", keepalives);
    out.set("idle_cases_kept_up_through_keepalive_phase", kept_up);
    out.set("idle_cases_torn_down_after_silence", torn_down);
    out.set("idle_cases_without_local_time_out", no_timeout_cases);
    out.set("idle_wall_s", (idle_wall * 100.0).round() / 100.0);
    out.set("client_histories_wall_s", (client_wall * 100.0).round() / 100.0);
    out.set("fill_wall_s", (fill_wall * 100.0).round() / 100.0);
    out.set("listener_histories_wall_s", (listener_wall * 100.0).round() / 100.0);
    out.assume("the scripted peer acts at quiescent points of the virtual clock only; frame times are the virtual instants of the transport writes (vpipe byte log)");
    out.assume("heartbeat oracle, permissive reading: a gap of exactly T between consecutive frame starts passes; measurement starts at the peer's open");
    out.assume("local idle time-out, permissive reading: teardown may happen anywhere in [L, 2L+50 ms] of silence; any error whose text names an idle time-out / timeout counts as the report; L = 0 is the same as unset");
    out.assume("liveness of begin is only reported when at most min(local, remote) sessions are open (channel-max N = N+1 sessions)");
    out
}

fn replay(p: &std::path::Path, mut out: Outcome) -> Outcome {
    let s = std::fs::read_to_string(p).unwrap_or_default();
    let j: J = serde_json::from_str(&s).unwrap_or_default();
    let r = &j["replay"];
    let local = r["local"].as_u64().unwrap_or(0) as u16;
    let remote = r["remote"].as_u64().unwrap_or(0) as u16;
    let idx: Vec<usize> = r["events"].as_array().map(|a| a.iter().filter_map(|x| x.as_u64()).map(|i| i as usize).collect()).unwrap_or_default();
    let (fails, trace, machinery): (Vec<(String, String)>, Vec<String>, Option<String>) = match (r["part"].as_str().unwrap_or(""), r["role"].as_str().unwrap_or("")) {
        ("idle", _) => {
            let Some(c) = IdleCase::from_json(r) else {
                out.machinery_errors.push("cannot parse the idle case of the replay file".into());
                return out;
            };
            println!("replaying {:?}", c);
            let run = run_idle(c);
            match run.obs {
                Some(o) => (o.fails.into_iter().map(|(s, d)| (s, format!("{:?}: {d}", c))).collect(), o.trace, run.machinery),
                None => (vec![], vec![], run.machinery),
            }
        }
        ("slow-app", _) => {
            let (t, credit, sb, lb) = (r["t"].as_u64().unwrap_or(100) as u32, r["credit"].as_u64().unwrap_or(2) as u32, r["sess_buf"].as_u64().unwrap_or(1) as usize, r["link_buf"].as_u64().unwrap_or(1) as usize);
            println!("replaying slow-app t={t} credit={credit} buffers {sb}/{lb}");
            let scen: Scenario<(Vec<(String, String)>, Vec<String>, Option<String>, bool)> = Arc::new(move || Box::pin(slow_app_scenario(t, credit, sb, lb)));
            let ex = run_exec(vec![], &RunCfg::none(), &scen);
            match ex.out {
                Some((f, tr, m, _)) => (f, tr, m),
                None => (vec![], vec![], Some(format!("slow-app scenario died: {:?}", ex.panics))),
            }
        }
        ("fill", _) => {
            println!("replaying fill run local={local} remote={remote}");
            let o = run_client_history(local, remote, fill_events(local.min(remote)), true, None);
            (o.fails, o.trace, o.machinery)
        }
        (_, "Listener") => {
            let evs: Vec<LEv> = idx.iter().map(|i| LALPHA[*i % LALPHA.len()]).collect();
            println!("replaying listener local={local} remote={remote} {:?}", evs);
            let o = run_listener_history(local, remote, evs, None);
            (o.fails, o.trace, o.machinery)
        }
        _ => {
            let evs: Vec<CEv> = idx.iter().map(|i| CALPHA[*i % CALPHA.len()]).collect();
            println!("replaying client local={local} remote={remote} {:?}", evs);
            let o = run_client_history(local, remote, evs, false, None);
            (o.fails, o.trace, o.machinery)
        }
    };
    for l in &trace {
        println!("  {l}");
    }
    if let Some(m) = machinery {
        out.machinery_errors.push(m);
    }
    for (s, d) in fails {
        println!("  FAIL {s}: {d}");
        out.violation(s, d, r.clone());
    }
    out.set("states", 1);
    out.set("transitions", 1);
    out.set("traces_validated_against_impl", 1);
    out.set("samples", json!([r]));
    out
}
