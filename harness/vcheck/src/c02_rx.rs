//! C02 part B - receiver side: a real `Receiver` (client side, auto_accept off) in rcv-settle-mode first and
//! second against a scripted sender.  Three deliveries are received; then every history of application calls
//! (accept / reject / release / modify of one delivery, the *_all batch calls on consecutive, non-consecutive
//! and unordered sets) and - in mode second - of the scripted sender's settling dispositions is executed.
//!
//! Oracle (statement): the outcome the application applies to a delivery goes onto the wire as a disposition
//! with role=receiver, that state, covering that delivery and no other; settled=true in mode first,
//! settled=false in mode second; in mode second the receiver keeps the delivery unsettled until the sender's
//! settling disposition arrives; after settlement it does not retain it (read from the `unsettled` map of the
//! receiver's attach after a non-closing detach + resume).
use super::{Collect, Rcv, Totals, SHORT};
use crate::scen;
use fe2o3_amqp::link::delivery::Delivery;
use fe2o3_amqp::{Receiver, Session};
use fe2o3_amqp_types::definitions::{self, AmqpError, Handle, Role};
use fe2o3_amqp_types::messaging::message::__private::Serializable;
use fe2o3_amqp_types::messaging::{Accepted, DeliveryState, Message, Modified, Rejected, Released};
use fe2o3_amqp_types::performatives::*;
use fe2o3_amqp_types::primitives::Value;
use serde::{Deserialize, Serialize};
use serde_json::json;
use std::collections::BTreeSet;
use std::sync::atomic::{AtomicU64, Ordering};
use std::sync::{Arc, Mutex};
use std::time::{Duration, Instant};
use vlib::history::{search, HistOut};
use vlib::peer::{drive, settle, Auto, Body, Dirn, WFrame};
use vlib::report::{Ctx, Outcome};
use vlib::runner::{run_exec, RunCfg, Scenario};
use vlib::util::h64;

#[derive(Debug, Clone, Copy, PartialEq, Eq, Hash, Serialize, Deserialize)]
pub enum Op {
    Acc,
    Rej,
    Rel,
    Mod,
}

#[derive(Debug, Clone, PartialEq, Eq, Hash, Serialize, Deserialize)]
pub enum EvB {
    /// receiver.accept / reject / release / modify (delivery i)
    One(Op, usize),
    /// receiver.accept_all / reject_all / release_all / modify_all (deliveries in this order)
    All(Op, Vec<usize>),
    /// the scripted sender settles deliveries first..=last (indices): disposition(role=sender, settled=true)
    Settle(usize, usize),
    /// receiver.disposer().accept / release (delivery i): the handle that disposes without the receiver
    Disposer(Op, usize),
    /// rcv-settle-mode FIRST: the scripted sender settles deliveries first..=last of its own accord, BEFORE the
    /// application has applied an outcome (a sender may settle whenever it likes): disposition(role=sender, settled=true)
    SettleEarly(usize, usize),
    /// rcv-settle-mode SECOND, a race of two tasks: the sender's settling disposition for first..=last is on the wire
    /// (not yet read) when the application calls *_all(deliveries); the call is parked at the marked point inside
    /// `ReceiverLink::dispose_all` (between its filter and its update of the unsettled map, cfg fe2o3_amqp_verif) until
    /// every other task is blocked - "another worker thread ran the session task in this window"
    RaceAll(Op, Vec<usize>, usize, usize),
}

impl EvB {
    fn name(&self) -> String {
        match self {
            EvB::One(op, i) => format!("{op:?}({i})"),
            EvB::All(op, v) => format!("{op:?}_all({v:?})"),
            EvB::Disposer(op, i) => format!("disposer.{op:?}({i})"),
            EvB::Settle(a, b) if a == b => format!("sender-settles({a})"),
            EvB::Settle(a, b) => format!("sender-settles({a}..{b})"),
            EvB::SettleEarly(a, b) if a == b => format!("sender-settles-unasked({a})"),
            EvB::SettleEarly(a, b) => format!("sender-settles-unasked({a}..{b})"),
            EvB::RaceAll(op, v, a, b) => format!("{op:?}_all({v:?})-racing-sender-settles({a}..{b})"),
        }
    }
}

const N: usize = 5;
/// first delivery-id the scripted sender uses (not 0, so that an index is never a valid id by accident)
const BASE_ID: u32 = 5;

/// smaller alphabet for the deepest level of the thorough tier
pub fn core_alphabet_b(rcv: Rcv) -> Vec<EvB> {
    let mut v = vec![
        EvB::One(Op::Acc, 0),
        EvB::One(Op::Rej, 1),
        EvB::One(Op::Rel, 2),
        EvB::One(Op::Mod, 1),
        EvB::One(Op::Acc, 2),
        EvB::All(Op::Acc, vec![0, 1]),
        EvB::All(Op::Acc, vec![0, 2]),
        EvB::All(Op::Rej, vec![1, 2]),
        EvB::All(Op::Mod, vec![2, 1, 0]),
        EvB::All(Op::Acc, vec![0, 2, 4]),
        EvB::Disposer(Op::Acc, 0),
    ];
    if rcv == Rcv::Second {
        v.extend([EvB::Settle(0, 0), EvB::Settle(1, 2), EvB::Settle(0, 2), EvB::Settle(0, 4)]);
        v.extend([EvB::RaceAll(Op::Acc, vec![0, 1], 0, 0), EvB::RaceAll(Op::Acc, vec![0, 1, 2], 1, 1)]);
    } else {
        v.extend([EvB::SettleEarly(0, 0), EvB::SettleEarly(1, 2)]);
    }
    v
}

pub fn alphabet_b(rcv: Rcv) -> Vec<EvB> {
    let mut v = vec![];
    for op in [Op::Acc, Op::Rej, Op::Rel, Op::Mod] {
        for i in 0..N {
            v.push(EvB::One(op, i));
        }
    }
    v.push(EvB::All(Op::Acc, vec![0, 1]));
    v.push(EvB::All(Op::Acc, vec![0, 2]));
    v.push(EvB::All(Op::Acc, vec![0, 1, 2]));
    v.push(EvB::All(Op::Rej, vec![1, 2]));
    v.push(EvB::All(Op::Rel, vec![2, 0]));
    v.push(EvB::All(Op::Mod, vec![2, 1, 0]));
    // ids with two and more gaps, ascending and descending, and with a run in the middle
    v.push(EvB::All(Op::Acc, vec![0, 2, 4]));
    v.push(EvB::All(Op::Rej, vec![4, 2, 0]));
    v.push(EvB::All(Op::Rel, vec![0, 1, 3, 4]));
    v.push(EvB::All(Op::Mod, vec![1, 3]));
    v.push(EvB::All(Op::Acc, vec![0, 2, 3]));
    v.push(EvB::Disposer(Op::Acc, 0));
    v.push(EvB::Disposer(Op::Acc, 2));
    v.push(EvB::Disposer(Op::Rel, 1));
    if rcv == Rcv::Second {
        v.push(EvB::Settle(0, 0));
        v.push(EvB::Settle(1, 2));
        v.push(EvB::Settle(0, 2));
        v.push(EvB::Settle(3, 4));
        v.push(EvB::Settle(0, 4));
        v.push(EvB::RaceAll(Op::Acc, vec![0, 1], 0, 0));
        v.push(EvB::RaceAll(Op::Acc, vec![0, 1, 2], 1, 1));
        v.push(EvB::RaceAll(Op::Rel, vec![2, 0], 0, 2));
    } else {
        v.push(EvB::SettleEarly(0, 0));
        v.push(EvB::SettleEarly(1, 2));
        v.push(EvB::SettleEarly(2, 4));
    }
    v
}

/// the scripted sender's settling disposition for deliveries a..=b: it echoes the outcome when that is the same for
/// the whole range
fn settling_disposition(base: u32, dls: &[RDl], a: usize, b: usize) -> Disposition {
    let states: BTreeSet<&String> = (a..=b).filter_map(|k| dls[k].disposed.as_ref()).collect();
    let echo_state = if states.len() == 1 {
        let s = states.iter().next().unwrap().as_str();
        [Op::Acc, Op::Rej, Op::Rel, Op::Mod].into_iter().map(op_state).find(|x| format!("{:?}", x) == s)
    } else {
        None
    };
    Disposition {
        role: Role::Sender,
        first: base.wrapping_add(a as u32),
        last: if a == b { None } else { Some(base.wrapping_add(b as u32)) },
        settled: true,
        state: echo_state,
        batchable: false,
    }
}

fn op_state(op: Op) -> DeliveryState {
    match op {
        Op::Acc => DeliveryState::Accepted(Accepted {}),
        Op::Rej => DeliveryState::Rejected(Rejected { error: Some(reject_error()) }),
        Op::Rel => DeliveryState::Released(Released {}),
        Op::Mod => DeliveryState::Modified(modified()),
    }
}
fn reject_error() -> definitions::Error {
    definitions::Error::new(AmqpError::NotAllowed, Some("rejected-by-application".to_string()), None)
}
fn modified() -> Modified {
    Modified {
        delivery_failed: Some(true),
        undeliverable_here: Some(true),
        message_annotations: None,
    }
}

#[derive(Debug, Clone, Default)]
struct RDl {
    tag: Vec<u8>,
    /// the application applied an outcome (debug string of the state)
    disposed: Option<String>,
    /// the outcome has been seen on the wire
    on_wire: bool,
    /// settled: mode first = by the receiver's own settled disposition; mode second = by the sender
    settled: bool,
    /// the application named this delivery in another dispose call after it had been settled
    disposed_again_after_settlement: bool,
    /// the sender settled it before the receiver said anything (legal in every mode)
    settled_unasked: bool,
    /// the sender's settling disposition raced a *_all call that named this delivery
    raced: bool,
}

#[derive(Debug, Clone, Default)]
pub struct ObsB {
    /// executions of the event "*_all racing the sender's settling disposition"
    pub race_events: usize,
    pub executed: usize,
    pub fails: Vec<(String, String, usize)>,
    pub state_keys: Vec<u64>,
    pub trace: Vec<String>,
    pub machinery: Option<String>,
    pub dispositions_seen: usize,
    pub range_dispositions_seen: usize,
    pub final_checked: bool,
    pub attach_unsettled_entries: usize,
}

fn payload(seq: usize) -> Vec<u8> {
    let m = Message::builder().value(format!("m{seq}")).build();
    serde_amqp::to_vec(&Serializable(m)).expect("encode message")
}

/// `base`: delivery-id of the first delivery the scripted sender transfers (ids are serial numbers; with a base
/// next to 2^32 the ids of the N deliveries wrap)
pub async fn scenario_b(base: u32, rcv: Rcv, events: Vec<EvB>) -> ObsB {
    let mut obs = ObsB::default();
    let mut auto = Auto::default();
    auto.next_outgoing_id = base;
    auto.rcv_settle_mode = Some(rcv.mode());
    let mut c = match scen::open_client(auto, 512).await {
        Ok(c) => c,
        Err(e) => {
            obs.machinery = Some(e);
            return obs;
        }
    };
    let mut session = match scen::begin(&mut c, Session::builder()).await {
        Ok(s) => s,
        Err(e) => {
            obs.machinery = Some(e);
            return obs;
        }
    };
    let r = drive(&mut c.peer, Receiver::builder().name("r1").source("q").auto_accept(false).receiver_settle_mode(rcv.mode()).attach(&mut session), scen::H).await;
    let mut rx = match r {
        Some(Ok(r)) => r,
        other => {
            obs.machinery = Some(format!("attach failed: {:?}", other.map(|r| r.map(|_| ()).map_err(|e| e.to_string()))));
            return obs;
        }
    };
    settle(&mut c.peer, 2).await;
    let Some(link) = c.peer.links.first().cloned() else {
        obs.machinery = Some("the peer saw no attach".into());
        return obs;
    };
    let ch = c.peer.our_channel(link.lib_channel);
    // ---- three unsettled deliveries arrive and are received by the application
    let mut dls: Vec<RDl> = vec![];
    let mut deliveries: Vec<Delivery<Value>> = vec![];
    for k in 0..N {
        // delivery-ids are the scripted sender's own sequence (they need not equal the transfer-ids: delivery 1 takes two frames)
        let id = base.wrapping_add(k as u32);
        let tag = format!("tag-{k}").into_bytes();
        let t = Transfer {
            handle: Handle(link.our_handle),
            delivery_id: Some(id),
            delivery_tag: Some(serde_bytes::ByteBuf::from(tag.clone())),
            message_format: Some(0),
            settled: Some(false),
            more: false,
            rcv_settle_mode: None,
            state: None,
            resume: false,
            aborted: false,
            batchable: false,
        };
        if k == 1 {
            // the second delivery comes in two frames; the continuation frame omits delivery-id, tag and format
            let body = payload(k);
            let cut = body.len() / 2;
            let mut first = t.clone();
            first.more = true;
            c.peer.send_perf(ch, Performative::Transfer(first), &body[..cut]);
            let mut rest = t.clone();
            rest.delivery_id = None;
            rest.delivery_tag = None;
            rest.message_format = None;
            c.peer.send_perf(ch, Performative::Transfer(rest), &body[cut..]);
        } else {
            c.peer.send_perf(ch, Performative::Transfer(t), &payload(k));
        }
        dls.push(RDl { tag, ..Default::default() });
    }
    for k in 0..N {
        match drive(&mut c.peer, rx.recv::<Value>(), SHORT).await {
            Some(Ok(dv)) => {
                if *dv.delivery_id() != base.wrapping_add(k as u32) {
                    obs.machinery = Some(format!("recv #{k} returned delivery-id {}", dv.delivery_id()));
                    return obs;
                }
                deliveries.push(dv);
            }
            other => {
                obs.machinery = Some(format!("recv #{k}: {:?}", other.map(|r| r.map(|_| ()).map_err(|e| format!("{e:?}")))));
                return obs;
            }
        }
    }
    settle(&mut c.peer, 1).await;
    let mut cursor = c.peer.trace.len();
    // no disposition may have been written yet (auto_accept is off)
    if c.peer.trace.iter().any(|w| w.dir == Dirn::FromLib && matches!(&w.body, Body::Perf(Performative::Disposition(_)))) {
        obs.fails.push(("receiver-disposition-without-application-outcome".into(), "auto_accept(false): a disposition was written before the application applied any outcome".into(), 0));
    }
    let mut notes = vec![];
    obs.state_keys.push(h64(&key(&dls)));
    for (i, ev) in events.iter().enumerate() {
        let step = i + 1;
        // ids (indices) the wire has to / may show in this step, and the state they have to carry
        let mut required: BTreeSet<usize> = BTreeSet::new();
        let mut allowed: BTreeSet<usize> = BTreeSet::new();
        let mut want_state: Option<String> = None;
        // deliveries named now that had already been named once after their settlement
        let mut again_before: BTreeSet<usize> = BTreeSet::new();
        match ev {
            EvB::One(op, _) | EvB::All(op, _) | EvB::Disposer(op, _) | EvB::RaceAll(op, _, _, _) => {
                let idxs: Vec<usize> = match ev {
                    EvB::One(_, i) | EvB::Disposer(_, i) => vec![*i],
                    EvB::All(_, v) | EvB::RaceAll(_, v, _, _) => v.clone(),
                    _ => unreachable!(),
                };
                if let EvB::RaceAll(_, _, a, b) = ev {
                    // the sender may settle what it has learnt the outcome of
                    if rcv != Rcv::Second || !(*a..=*b).all(|k| dls[k].on_wire && !dls[k].settled) {
                        break;
                    }
                    c.peer.send(ch, Performative::Disposition(settling_disposition(base, &dls, *a, *b)));
                    obs.race_events += 1;
                    fe2o3_amqp::verif::set_preempt_hook(Box::new(|label| if label == "receiver-dispose-all-filtered" { 2 } else { 0 }));
                }
                let st = op_state(*op);
                let sdbg = format!("{:?}", st);
                want_state = Some(sdbg.clone());
                for k in &idxs {
                    if dls[*k].settled {
                        if dls[*k].disposed_again_after_settlement {
                            again_before.insert(*k);
                        }
                        dls[*k].disposed_again_after_settlement = true;
                    }
                    if !dls[*k].settled {
                        // Permissive reading: repeating an outcome for a delivery that is not settled yet may or
                        // may not produce another disposition; the first outcome has to go out.
                        allowed.insert(*k);
                        if dls[*k].disposed.is_none() {
                            required.insert(*k);
                        }
                    }
                }
                let res = match ev {
                    EvB::One(Op::Acc, k) => drive(&mut c.peer, rx.accept(&deliveries[*k]), SHORT).await,
                    EvB::One(Op::Rej, k) => drive(&mut c.peer, rx.reject(&deliveries[*k], reject_error()), SHORT).await,
                    EvB::One(Op::Rel, k) => drive(&mut c.peer, rx.release(&deliveries[*k]), SHORT).await,
                    EvB::One(Op::Mod, k) => drive(&mut c.peer, rx.modify(&deliveries[*k], modified()), SHORT).await,
                    EvB::All(Op::Acc, v) | EvB::RaceAll(Op::Acc, v, _, _) => drive(&mut c.peer, rx.accept_all(v.iter().map(|k| &deliveries[*k])), SHORT).await,
                    EvB::All(Op::Rej, v) | EvB::RaceAll(Op::Rej, v, _, _) => drive(&mut c.peer, rx.reject_all(v.iter().map(|k| &deliveries[*k]), reject_error()), SHORT).await,
                    EvB::All(Op::Rel, v) | EvB::RaceAll(Op::Rel, v, _, _) => drive(&mut c.peer, rx.release_all(v.iter().map(|k| &deliveries[*k])), SHORT).await,
                    EvB::All(Op::Mod, v) | EvB::RaceAll(Op::Mod, v, _, _) => drive(&mut c.peer, rx.modify_all(v.iter().map(|k| &deliveries[*k]), modified()), SHORT).await,
                    EvB::Disposer(Op::Rel, k) => {
                        let d = rx.disposer();
                        drive(&mut c.peer, d.release(&deliveries[*k]), SHORT).await
                    }
                    EvB::Disposer(_, k) => {
                        let d = rx.disposer();
                        drive(&mut c.peer, d.accept(&deliveries[*k]), SHORT).await
                    }
                    _ => unreachable!(),
                };
                match res {
                    Some(Ok(())) => {}
                    Some(Err(e)) => {
                        obs.fails.push(("dispose-call-failed".into(), format!("{} returned {e:?} on an attached link", ev.name()), step));
                    }
                    None => {
                        obs.fails.push(("dispose-call-hangs".into(), format!("{} did not return", ev.name()), step));
                    }
                }
                for k in &idxs {
                    if !dls[*k].settled {
                        // the latest outcome applied while unsettled is what the receiver holds
                        if dls[*k].disposed.is_none() {
                            dls[*k].disposed = Some(sdbg.clone());
                        }
                        if rcv == Rcv::First {
                            dls[*k].settled = true;
                        }
                    }
                }
                if let EvB::RaceAll(_, _, a, b) = ev {
                    fe2o3_amqp::verif::set_preempt_hook(Box::new(|_label| vlib::tape::choose(vlib::tape::Kind::Preempt, 3) as u8));
                    for k in *a..=*b {
                        dls[k].settled = true;
                        dls[k].raced = idxs.contains(&k);
                    }
                }
            }
            EvB::SettleEarly(a, b) => {
                if rcv != Rcv::First || (*a..=*b).any(|k| dls[k].settled || dls[k].disposed.is_some()) {
                    break;
                }
                let disp = Disposition { role: Role::Sender, first: base.wrapping_add(*a as u32), last: if a == b { None } else { Some(base.wrapping_add(*b as u32)) }, settled: true, state: None, batchable: false };
                c.peer.send(ch, Performative::Disposition(disp));
                for k in *a..=*b {
                    dls[k].settled = true;
                    dls[k].settled_unasked = true;
                }
            }
            EvB::Settle(a, b) => {
                // a sender settles after it has learnt the outcome: enabled once every covered delivery's
                // outcome is on the wire
                if rcv != Rcv::Second || !(*a..=*b).all(|k| dls[k].on_wire) {
                    break;
                }
                c.peer.send(ch, Performative::Disposition(settling_disposition(base, &dls, *a, *b)));
                for k in *a..=*b {
                    dls[k].settled = true;
                }
            }
        }
        settle(&mut c.peer, 2).await;
        obs.executed = step;
        notes.push(format!("-- event {step}: {}", ev.name()));
        // ---- judge the dispositions written in this step
        let mut covered_now: BTreeSet<usize> = BTreeSet::new();
        let new: Vec<WFrame> = c.peer.trace[cursor..].iter().filter(|w| w.dir == Dirn::FromLib).cloned().collect();
        cursor = c.peer.trace.len();
        for w in &new {
            let Body::Perf(Performative::Disposition(dp)) = &w.body else { continue };
            obs.dispositions_seen += 1;
            if dp.last.map(|l| l != dp.first).unwrap_or(false) {
                obs.range_dispositions_seen += 1;
            }
            if dp.role != Role::Receiver {
                obs.fails.push(("receiver-disposition-wrong-role".into(), format!("after {}: the receiving endpoint wrote {}", ev.name(), w.short()), step));
                continue;
            }
            let (f, l) = (dp.first, dp.last.unwrap_or(dp.first));
            // (relative to the first delivery: serial-number arithmetic)
            let (rf, rl) = (f.wrapping_sub(base), l.wrapping_sub(base));
            let ks: Vec<usize> = (0..N).filter(|k| (rf..=rl).contains(&(*k as u32))).collect();
            if ks.is_empty() || rf > rl || rl >= N as u32 {
                obs.fails.push(("receiver-disposition-covers-other-delivery".into(), format!("after {}: {} covers delivery-ids outside the application's call", ev.name(), w.short()), step));
            }
            match &want_state {
                Some(ws) => {
                    let got = dp.state.as_ref().map(|s| format!("{:?}", s)).unwrap_or_else(|| "None".into());
                    if &got != ws {
                        obs.fails.push(("receiver-disposition-wrong-state".into(), format!("after {}: {} carries a state other than the outcome the application applied ({ws})", ev.name(), w.short()), step));
                    }
                    let want_settled = rcv == Rcv::First;
                    if dp.settled != want_settled {
                        obs.fails.push((
                            format!("receiver-disposition-wrong-settled-flag[{rcv:?}]"),
                            format!("after {}: rcv-settle-mode {rcv:?} but the receiver wrote {}", ev.name(), w.short()),
                            step,
                        ));
                    }
                }
                None => {
                    // after the sender's settlement the receiver may confirm (settled) - nothing else
                    if !dp.settled {
                        obs.fails.push(("receiver-disposition-after-settlement".into(), format!("after {}: {}", ev.name(), w.short()), step));
                    }
                }
            }
            for k in ks {
                covered_now.insert(k);
                if want_state.is_some() {
                    dls[k].on_wire = true;
                }
            }
        }
        if want_state.is_some() {
            let missing: Vec<usize> = required.difference(&covered_now).copied().collect();
            if !missing.is_empty() {
                obs.fails.push((
                    "receiver-disposition-missing".into(),
                    format!("after {}: no disposition on the wire for deliveries {:?} (ids {:?}); dispositions of this step cover {:?}", ev.name(), missing, missing.iter().map(|k| base.wrapping_add(*k as u32)).collect::<Vec<_>>(), covered_now),
                    step,
                ));
            }
            let extra: Vec<usize> = covered_now.difference(&allowed).copied().collect();
            let named: Vec<usize> = match ev {
                EvB::One(_, k) | EvB::Disposer(_, k) => vec![*k],
                EvB::All(_, v) | EvB::RaceAll(_, v, _, _) => v.clone(),
                _ => vec![],
            };
            let settled_again: Vec<usize> = extra.iter().copied().filter(|k| named.contains(k)).collect();
            let others: Vec<usize> = extra.iter().copied().filter(|k| !named.contains(k)).collect();
            if !settled_again.is_empty() {
                obs.fails.push((
                    if settled_again.iter().any(|k| dls[*k].raced) { "receiver-disposition-for-settled-delivery[*_all raced the sender's settlement]".to_string() } else if settled_again.iter().any(|k| dls[*k].settled_unasked) { "receiver-disposition-for-settled-delivery[sender settled unasked]".to_string() } else if settled_again.iter().all(|k| again_before.contains(k)) { "receiver-disposition-for-settled-delivery[after-repeated-dispose]".to_string() } else { "receiver-disposition-for-settled-delivery".to_string() },
                    format!("after {}: the dispositions of this step cover deliveries {:?}, which are already settled", ev.name(), settled_again),
                    step,
                ));
            }
            if !others.is_empty() {
                obs.fails.push((
                    "receiver-disposition-covers-other-delivery".into(),
                    format!("after {}: the dispositions of this step also cover deliveries {:?}, which the call did not name", ev.name(), others),
                    step,
                ));
            }
        } else {
            let extra: Vec<usize> = covered_now.iter().copied().filter(|k| !dls[*k].settled).collect();
            if !extra.is_empty() {
                obs.fails.push(("receiver-disposition-covers-other-delivery".into(), format!("after {}: dispositions cover deliveries {:?} the sender did not settle", ev.name(), extra), step));
            }
        }
        obs.state_keys.push(h64(&key(&dls)));
    }
    // ---- what does the receiver still hold?  non-closing detach + resume, read attach.unsettled
    if obs.machinery.is_none() && obs.executed == events.len() {
        let n = events.len();
        let mark = c.peer.trace.len();
        match drive(&mut c.peer, rx.detach(), SHORT).await {
            Some(Ok(det)) => {
                let _resumed = drive(&mut c.peer, det.resume(), SHORT).await;
                settle(&mut c.peer, 1).await;
                let att = c.peer.trace[mark..].iter().find_map(|w| match (&w.body, w.dir) {
                    (Body::Perf(Performative::Attach(a)), Dirn::FromLib) if a.name == "r1" => Some(a.clone()),
                    _ => None,
                });
                match att {
                    None => obs.machinery = Some("no attach for r1 on the wire after detach + resume".into()),
                    Some(att) => {
                        let keys: BTreeSet<Vec<u8>> = att.unsettled.as_ref().map(|m| m.keys().map(|k| k.to_vec()).collect()).unwrap_or_default();
                        obs.attach_unsettled_entries += keys.len();
                        notes.push(format!("-- resume r1: attach.unsettled tags = {:?}", keys.iter().map(|k| String::from_utf8_lossy(k).to_string()).collect::<Vec<_>>()));
                        for (k, dl) in dls.iter().enumerate() {
                            let held = keys.contains(&dl.tag);
                            if dl.settled && held {
                                obs.fails.push((
                                    if dl.raced { "receiver-retains-settled-delivery[*_all raced the sender's settlement]".to_string() } else if dl.settled_unasked { "receiver-retains-settled-delivery[sender settled unasked]".to_string() } else if dl.disposed_again_after_settlement { "receiver-retains-settled-delivery[after-repeated-dispose]".to_string() } else { "receiver-retains-settled-delivery".to_string() },
                                    format!(
                                        "delivery {k} (id {}) is settled ({}) but the receiver's attach after a non-closing detach + resume still lists it in `unsettled`",
                                        base.wrapping_add(k as u32),
                                        if dl.settled_unasked { "by the sender's unasked settling disposition" } else if rcv == Rcv::First { "by the receiver's own settled disposition" } else { "by the sender's settling disposition" }
                                    ),
                                    n,
                                ));
                            }
                            if !dl.settled && !held {
                                obs.fails.push((
                                    format!("receiver-drops-unsettled-delivery[{}]", if dl.disposed.is_some() { "outcome-sent-awaiting-sender" } else { "no-outcome-yet" }),
                                    format!(
                                        "delivery {k} (id {}) is not settled ({}) but the receiver's attach after a non-closing detach + resume does not list it in `unsettled`",
                                        base.wrapping_add(k as u32),
                                        if dl.disposed.is_some() { "rcv-settle-mode second: outcome sent, the sender's settling disposition has not arrived" } else { "the application has not applied an outcome" }
                                    ),
                                    n,
                                ));
                            }
                        }
                        obs.final_checked = true;
                    }
                }
            }
            Some(Err((_, e))) => obs.machinery = Some(format!("non-closing detach failed: {e:?}")),
            None => obs.machinery = Some("non-closing detach hangs".into()),
        }
    }
    obs.fails.sort();
    obs.fails.dedup();
    let mut tr = vec![format!("rcv-settle-mode {rcv:?}; history {:?}", events.iter().map(|e| e.name()).collect::<Vec<_>>())];
    tr.extend(vlib::peer::trace_to_strings(&c.peer.trace).into_iter().filter(|l| !l.contains("HEADER") && !l.contains(" open(") && !l.contains(" begin(")));
    tr.extend(notes);
    obs.trace = tr;
    obs
}

fn key(dls: &[RDl]) -> Vec<(Option<String>, bool, bool)> {
    dls.iter().map(|d| (d.disposed.clone(), d.on_wire, d.settled)).collect()
}

fn run_history_b(base: u32, rcv: Rcv, evs: Vec<EvB>) -> (HistOut, ObsB) {
    let scen: Scenario<ObsB> = {
        let evs = evs.clone();
        Arc::new(move || {
            let evs = evs.clone();
            Box::pin(scenario_b(base, rcv, evs))
        })
    };
    let ex = run_exec(vec![], &RunCfg::none(), &scen);
    let names: Vec<String> = evs.iter().map(|e| e.name()).collect();
    let mut out = HistOut::default();
    let mut o = match ex.out {
        Some(o) => o,
        None => {
            out.executed = evs.len();
            out.machinery = Some(format!("C02/B scenario died ({rcv:?},{names:?}): panics {:?} watchdog {}", ex.panics, ex.watchdog));
            return (out, ObsB::default());
        }
    };
    out.executed = o.executed;
    out.state_keys = o.state_keys.clone();
    out.trace = o.trace.clone();
    out.machinery = o.machinery.take().map(|m| format!("C02/B ({rcv:?},{names:?}): {m}"));
    if ex.spun {
        out.machinery = Some(format!("C02/B busy loop detected ({rcv:?},{names:?})"));
    }
    // a panic inside the library while the peer and the application stay within the quantifier: the engine that
    // died cannot send the dispositions or keep the unsettled state the statement asks for
    if let Some((sig, msg)) = vlib::util::library_panic(&ex.panics) {
        o.fails.push((sig, format!("a library task panicked: {msg}"), o.executed));
        out.machinery = None;
    } else if !ex.panics.is_empty() && out.machinery.is_none() {
        out.machinery = Some(format!("C02/B panic in a task ({rcv:?},{names:?}): {:?}", ex.panics));
    }
    (out, o)
}

pub fn part_b(ctx: &Ctx, deadline: Instant, out: &mut Outcome, tot: &mut Totals) {
    let max_depth = if ctx.quick() { 3 } else { 5 };
    let collect = Mutex::new(Collect::default());
    let cnt_disp = AtomicU64::new(0);
    let cnt_race = AtomicU64::new(0);
    let cnt_range = AtomicU64::new(0);
    let cnt_final = AtomicU64::new(0);
    let cnt_entries = AtomicU64::new(0);
    // (first delivery-id, depth): BASE_ID, and - up to one level below the maximum - a base with which the ids cross 2^32
    const WRAP_BASE: u32 = u32::MAX - 2;
    let mut levels: Vec<(u32, usize)> = vec![];
    for depth in 1..=max_depth {
        levels.push((BASE_ID, depth));
        if depth < max_depth && depth <= 3 {
            levels.push((WRAP_BASE, depth));
        }
    }
    for (base, depth) in levels {
        for rcv in [Rcv::First, Rcv::Second] {
            let alpha = if depth >= 5 { core_alphabet_b(rcv) } else { alphabet_b(rcv) };
            let label = format!("B:{rcv:?} depth {depth} over {} events{}", alpha.len(), if base != BASE_ID { " (ids cross 2^32)" } else { "" });
            if Instant::now() > deadline {
                tot.truncated = true;
                tot.cut.push(label);
                continue;
            }
            let st = search(alpha.len(), depth, ctx.threads, deadline, |h| {
                let evs: Vec<EvB> = h.iter().map(|i| alpha[*i].clone()).collect();
                let (mut ho, o) = run_history_b(base, rcv, evs.clone());
                cnt_disp.fetch_add(o.dispositions_seen as u64, Ordering::Relaxed);
                cnt_race.fetch_add(o.race_events as u64, Ordering::Relaxed);
                cnt_range.fetch_add(o.range_dispositions_seen as u64, Ordering::Relaxed);
                cnt_final.fetch_add(o.final_checked as u64, Ordering::Relaxed);
                cnt_entries.fetch_add(o.attach_unsettled_entries as u64, Ordering::Relaxed);
                if !o.fails.is_empty() {
                    let mut c = collect.lock().unwrap();
                    for (sig, detail, step) in &o.fails {
                        let pre: Vec<EvB> = evs[..(*step).min(evs.len())].to_vec();
                        let names: Vec<String> = pre.iter().map(|e| e.name()).collect();
                        c.add(sig, names.clone(), json!({"part": "B", "base": base, "rcv": rcv, "events": pre, "event_names": names}), format!("rcv-settle-mode {rcv:?}{}: {detail}", if base != BASE_ID { format!(", first delivery-id {base}") } else { String::new() }), o.trace.clone());
                    }
                }
                ho.fails.clear();
                ho
            });
            tot.executions += st.executions;
            tot.states += st.distinct_states;
            tot.transitions += st.distinct_transitions;
            if st.truncated {
                tot.truncated = true;
                tot.cut.push(label);
            } else {
                tot.completed.push(label);
            }
            for m in st.machinery.into_iter().take(2) {
                if out.machinery_errors.len() < 8 {
                    out.machinery_errors.push(m);
                }
            }
            if tot.samples.len() < 3 && depth == 3 && rcv == Rcv::Second {
                tot.samples.extend(st.sample_traces.into_iter().take(1));
            }
        }
    }
    collect.into_inner().unwrap().report(out, "receiver side,");
    out.set("b_receiver_dispositions_seen", cnt_disp.load(Ordering::Relaxed));
    out.set("b_all_calls_raced_by_sender_settlement_at_preempt_point", cnt_race.load(Ordering::Relaxed));
    out.set("b_range_dispositions_seen", cnt_range.load(Ordering::Relaxed));
    out.set("b_detach_resume_inspections", cnt_final.load(Ordering::Relaxed));
    out.set("b_unsettled_entries_seen_in_resume_attach", cnt_entries.load(Ordering::Relaxed));
}

pub fn replay_b(r: &serde_json::Value, out: &mut Outcome) {
    let rcv: Rcv = serde_json::from_value(r["rcv"].clone()).unwrap_or(Rcv::First);
    let evs: Vec<EvB> = serde_json::from_value(r["events"].clone()).unwrap_or_default();
    println!("replaying part B: rcv {rcv:?} {:?}", evs.iter().map(|e| e.name()).collect::<Vec<_>>());
    let base = r["base"].as_u64().map(|b| b as u32).unwrap_or(BASE_ID);
    let (ho, o) = run_history_b(base, rcv, evs);
    for l in &ho.trace {
        println!("  {l}");
    }
    if let Some(m) = ho.machinery {
        out.machinery_errors.push(m);
    }
    for (s, dtl, _) in o.fails {
        println!("  FAIL {s}: {dtl}");
        out.violation(s, dtl, r.clone());
    }
}

// ------------------------------------------------------------------------------------------------
// Part E: what the receiver retains of deliveries that are settled from the start or never complete
// ------------------------------------------------------------------------------------------------

/// One incoming delivery: `frames` transfer frames, sent pre-settled or not, completed or aborted by its last frame.
#[derive(Debug, Clone, Copy, PartialEq, Eq, Serialize, Deserialize)]
pub struct Shape {
    pub frames: usize,
    pub presettled: bool,
    pub aborted: bool,
}

/// A sequence of deliveries of the given shapes arrives; the application receives every completed one and accepts
/// the unsettled ones (rcv-settle-mode first: that settles them).  Then: non-closing detach + resume.  "After
/// settlement neither side retains the delivery in its unsettled state": a pre-settled delivery is settled when it
/// arrives, an aborted one never existed, an accepted one is settled by the receiver's disposition - the attach of
/// the resumed link must list none of them.
pub async fn scenario_e(shapes: Vec<Shape>) -> (Vec<(String, String)>, Vec<String>, Option<String>) {
    let mut fails = vec![];
    let mut auto = Auto::default();
    auto.next_outgoing_id = BASE_ID;
    let mut c = match scen::open_client(auto, 512).await {
        Ok(c) => c,
        Err(e) => return (fails, vec![], Some(e)),
    };
    let mut session = match scen::begin(&mut c, Session::builder()).await {
        Ok(s) => s,
        Err(e) => return (fails, vec![], Some(e)),
    };
    let r = drive(&mut c.peer, Receiver::builder().name("r1").source("q").auto_accept(false).credit_mode(fe2o3_amqp::link::receiver::CreditMode::Auto(50)).attach(&mut session), scen::H).await;
    let mut rx = match r {
        Some(Ok(r)) => r,
        _ => return (fails, vec![], Some("part E: attach failed".into())),
    };
    settle(&mut c.peer, 2).await;
    let Some(link) = c.peer.links.first().cloned() else {
        return (fails, vec![], Some("part E: the peer saw no attach".into()));
    };
    let ch = c.peer.our_channel(link.lib_channel);
    for (k, sh) in shapes.iter().enumerate() {
        let id = BASE_ID + k as u32;
        let tag = format!("tag-{k}").into_bytes();
        let body = payload(k);
        // split the payload into `frames` pieces (the last may be empty when the delivery is aborted)
        let n = sh.frames.max(1);
        let piece = (body.len() / n).max(1);
        for f in 0..n {
            let last = f + 1 == n;
            let chunk: &[u8] = if last { &body[(piece * f).min(body.len())..] } else { &body[(piece * f).min(body.len())..(piece * (f + 1)).min(body.len())] };
            let t = Transfer {
                handle: Handle(link.our_handle),
                delivery_id: if f == 0 { Some(id) } else { None },
                delivery_tag: if f == 0 { Some(serde_bytes::ByteBuf::from(tag.clone())) } else { None },
                message_format: if f == 0 { Some(0) } else { None },
                settled: Some(sh.presettled),
                more: !last,
                rcv_settle_mode: None,
                state: None,
                resume: false,
                aborted: last && sh.aborted,
                batchable: false,
            };
            c.peer.send_perf(ch, Performative::Transfer(t), if last && sh.aborted { &[] } else { chunk });
        }
        settle(&mut c.peer, 1).await;
        if !sh.aborted {
            match drive(&mut c.peer, rx.recv::<Value>(), SHORT).await {
                Some(Ok(dv)) => {
                    if !sh.presettled {
                        if let Some(Err(e)) = drive(&mut c.peer, rx.accept(&dv), SHORT).await {
                            return (fails, vlib::peer::trace_to_strings(&c.peer.trace), Some(format!("part E: accept #{k}: {e:?}")));
                        }
                    }
                }
                other => return (fails, vlib::peer::trace_to_strings(&c.peer.trace), Some(format!("part E: recv #{k}: {:?}", other.map(|r| r.map(|_| ()).map_err(|e| format!("{e:?}"))))))
            }
        } else {
            // the receiver must notice the abort: give it a chance to read the frames
            let _ = drive(&mut c.peer, rx.recv::<Value>(), Duration::from_millis(5)).await;
        }
    }
    settle(&mut c.peer, 1).await;
    let mark = c.peer.trace.len();
    match drive(&mut c.peer, rx.detach(), SHORT).await {
        Some(Ok(det)) => {
            let _resumed = drive(&mut c.peer, det.resume(), SHORT).await;
            settle(&mut c.peer, 1).await;
            let att = c.peer.trace[mark..].iter().find_map(|w| match (&w.body, w.dir) {
                (Body::Perf(Performative::Attach(a)), Dirn::FromLib) if a.name == "r1" => Some(a.clone()),
                _ => None,
            });
            match att {
                None => return (fails, vlib::peer::trace_to_strings(&c.peer.trace), Some("part E: no attach for r1 after detach + resume".into())),
                Some(att) => {
                    let keys: BTreeSet<Vec<u8>> = att.unsettled.as_ref().map(|m| m.keys().map(|k| k.to_vec()).collect()).unwrap_or_default();
                    for (k, sh) in shapes.iter().enumerate() {
                        if keys.contains(&format!("tag-{k}").into_bytes()) {
                            let what = if sh.aborted { "aborted" } else if sh.presettled { "pre-settled" } else { "accepted-and-settled" };
                            fails.push((
                                format!("receiver-retains-settled-delivery[{what}{}]", if sh.frames > 1 { ", multi-frame" } else { "" }),
                                format!("delivery {k} ({} frame(s), {what}) is still listed in `unsettled` of the receiver's attach after a non-closing detach + resume (deliveries: {:?})", sh.frames, shapes),
                            ));
                        }
                    }
                }
            }
        }
        Some(Err((_, e))) => return (fails, vlib::peer::trace_to_strings(&c.peer.trace), Some(format!("part E: non-closing detach failed: {e:?}"))),
        None => return (fails, vlib::peer::trace_to_strings(&c.peer.trace), Some("part E: non-closing detach hangs".into())),
    }
    (fails, vlib::peer::trace_to_strings(&c.peer.trace), None)
}

fn run_e(shapes: Vec<Shape>) -> (Vec<(String, String)>, Vec<String>, Option<String>) {
    let sh = shapes.clone();
    let scen: Scenario<(Vec<(String, String)>, Vec<String>, Option<String>)> = Arc::new(move || Box::pin(scenario_e(sh.clone())));
    let ex = run_exec(vec![], &RunCfg::none(), &scen);
    match ex.out {
        Some((mut fails, trace, mach)) => {
            if let Some((sig, msg)) = vlib::util::library_panic(&ex.panics) {
                fails.push((sig, format!("a library task panicked: {msg}")));
            }
            (fails, trace, mach)
        }
        None => (vec![], vec![], Some(format!("part E {:?} died: {:?}", shapes, ex.panics))),
    }
}

/// every sequence of one and of two deliveries over the 12 shapes (frames 1..3 x pre-settled x aborted)
pub fn part_e(ctx: &Ctx, out: &mut Outcome) -> u64 {
    let mut all: Vec<Shape> = vec![];
    for frames in 1..=3usize {
        for presettled in [false, true] {
            for aborted in [false, true] {
                all.push(Shape { frames, presettled, aborted });
            }
        }
    }
    let mut cases: Vec<Vec<Shape>> = all.iter().map(|s| vec![*s]).collect();
    for a in &all {
        for b in &all {
            cases.push(vec![*a, *b]);
        }
    }
    let results = vlib::util::par_map(&cases, ctx.threads, |_, shapes| run_e(shapes.clone()));
    let mut seen: BTreeSet<String> = BTreeSet::new();
    for (shapes, (fails, trace, mach)) in cases.iter().zip(results) {
        if let Some(m) = mach {
            if out.machinery_errors.len() < 8 {
                out.machinery_errors.push(m);
            }
        }
        for (s, d) in fails {
            if seen.insert(s.clone()) {
                out.violation(s, d, json!({"part": "E", "shapes": shapes, "trace": trace}));
            }
        }
    }
    cases.len() as u64
}

pub fn replay_e(r: &serde_json::Value, out: &mut Outcome) {
    let shapes: Vec<Shape> = serde_json::from_value(r["shapes"].clone()).unwrap_or_default();
    println!("replaying part E: {:?}", shapes);
    let (fails, trace, mach) = run_e(shapes);
    for l in &trace {
        println!("  {l}");
    }
    if let Some(m) = mach {
        out.machinery_errors.push(m);
    }
    for (s, d) in fails {
        println!("  FAIL {s}: {d}");
        out.violation(s, d, r.clone());
    }
}
