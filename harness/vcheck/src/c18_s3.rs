//! C18 series 3 (controller side): the real client API against the scripted peer acting as a coordinator-capable
//! server that answers declare with `declared{txn-id}` and discharge with accepted - or, when told so, with
//! rejected - so that the txn-id / fail flag on the wire and the outcome reported by the API can be judged.
use super::common::*;
use super::Obs;
use fe2o3_amqp::transaction::{Controller, ControllerSendError, Transaction, TransactionBase, TransactionDischarge, TransactionPosting};
use fe2o3_amqp::{Connection, Sender, Session};
use fe2o3_amqp_types::definitions::{self, ErrorCondition, Role};
use fe2o3_amqp_types::messaging::{Accepted, DeliveryState, Outcome, Rejected};
use fe2o3_amqp_types::performatives::{Disposition, Performative, Transfer};
use fe2o3_amqp_types::transaction::{Declared, TransactionError, TransactionalState};
use serde_bytes::ByteBuf;
use std::time::Duration;
use vlib::peer::{settle, Auto, Body, Dirn, Peer, WFrame};
use vlib::util::{h64, hex};
use vlib::vpipe::Pipe;

const T: Duration = Duration::from_secs(5);

#[derive(Default)]
struct Coord {
    /// trace index up to which library frames were answered
    cursor: usize,
    next_txn: u32,
    reject_next_discharge: bool,
    /// (txn-id, fail flag, accepted?) of every discharge seen
    discharges: Vec<(Vec<u8>, Option<bool>, bool)>,
    /// transfer frames of the delivery under way, per link handle
    partial: std::collections::BTreeMap<u32, (u32, Option<DeliveryState>)>,
    ctl_handles: Vec<u32>,
}

fn dispo(first: u32, state: DeliveryState) -> Performative {
    Performative::Disposition(Disposition { role: Role::Receiver, first, last: None, settled: true, state: Some(state), batchable: false })
}

impl Coord {
    /// answer everything the client wrote since the last call, like a transactional resource would
    fn react(&mut self, peer: &mut Peer) {
        while self.cursor < peer.trace.len() {
            let w: WFrame = peer.trace[self.cursor].clone();
            self.cursor += 1;
            if w.dir != Dirn::FromLib {
                continue;
            }
            match &w.body {
                Body::Perf(Performative::Attach(a)) => {
                    if is_coord(&a.target) {
                        self.ctl_handles.push(a.handle.0);
                    }
                }
                Body::Perf(Performative::Transfer(t)) => {
                    let och = peer.our_channel(w.channel);
                    let h = t.handle.0;
                    let (did, state) = match self.partial.get(&h) {
                        Some(x) => x.clone(),
                        None => (t.delivery_id.unwrap_or(0), t.state.clone()),
                    };
                    if t.more {
                        self.partial.insert(h, (did, state));
                        continue;
                    }
                    self.partial.remove(&h);
                    if self.ctl_handles.contains(&h) {
                        match decode_ctl(&w.payload) {
                            Some(CtlBody::Declare(_)) => {
                                self.next_txn += 1;
                                let id = format!("coord-txn-{}", self.next_txn).into_bytes();
                                peer.send(och, dispo(did, DeliveryState::Declared(Declared { txn_id: ByteBuf::from(id) })));
                            }
                            Some(CtlBody::Discharge(d)) => {
                                let accept = !std::mem::take(&mut self.reject_next_discharge);
                                self.discharges.push((d.txn_id.to_vec(), d.fail, accept));
                                if accept {
                                    peer.send(och, dispo(did, DeliveryState::Accepted(Accepted {})));
                                } else {
                                    let e = definitions::Error::new(TransactionError::Rollback, Some("coordinator says no".to_string()), None);
                                    peer.send(och, dispo(did, DeliveryState::Rejected(Rejected { error: Some(e) })));
                                }
                            }
                            None => {}
                        }
                    } else {
                        match state {
                            Some(DeliveryState::TransactionalState(ts)) => peer.send(
                                och,
                                dispo(did, DeliveryState::TransactionalState(TransactionalState { txn_id: ts.txn_id, outcome: Some(Outcome::Accepted(Accepted {})) })),
                            ),
                            _ => peer.send(och, dispo(did, DeliveryState::Accepted(Accepted {}))),
                        }
                    }
                }
                _ => {}
            }
        }
    }
}

/// like vlib::peer::drive, with the coordinator reacting at every quiescent point
async fn drive_c<F: std::future::Future>(peer: &mut Peer, coord: &mut Coord, fut: F) -> Option<F::Output> {
    tokio::pin!(fut);
    let start = tokio::time::Instant::now();
    loop {
        tokio::select! {
            biased;
            r = &mut fut => return Some(r),
            _ = tokio::time::sleep(Duration::from_millis(1)) => {
                peer.pump();
                coord.react(peer);
                if start.elapsed() > T {
                    return None;
                }
            }
        }
    }
}

pub async fn scenario(events: Vec<Ev>) -> Obs {
    let series = Series::S3;
    let mut obs = Obs::default();
    let (pipe, a, _b) = Pipe::new();
    let mut auto = Auto::default();
    auto.max_frame_size = MFS;
    auto.grant_credit = Some(100);
    let mut peer = Peer::new(pipe, 1, auto);
    let mut coord = Coord::default();
    macro_rules! setup {
        ($what:expr, $fut:expr) => {
            match drive_c(&mut peer, &mut coord, $fut).await {
                Some(Ok(v)) => v,
                Some(Err(e)) => {
                    obs.machinery = Some(format!("S3: set-up step '{}' failed: {:?}", $what, e));
                    return obs;
                }
                None => {
                    obs.machinery = Some(format!("S3: set-up step '{}' hangs: {:?}", $what, vlib::peer::trace_to_strings(&peer.trace)));
                    return obs;
                }
            }
        };
    }
    let mut conn = setup!("open", Connection::builder().container_id("client").max_frame_size(MFS).open_with_stream(a));
    let mut session = setup!("begin", Session::begin(&mut conn));
    let mut s1 = setup!("attach link-1", Sender::attach(&mut session, "link-1", "q1"));
    let mut s2 = setup!("attach link-2", Sender::attach(&mut session, "link-2", "q2"));
    let ctrl: &'static Controller = Box::leak(Box::new(setup!("attach controller", Controller::attach(&mut session, "ctl-1"))));
    settle(&mut peer, 2).await;
    coord.react(&mut peer);
    let handle_of = |peer: &Peer, n: &str| {
        peer.trace.iter().rev().find_map(|w| match (&w.body, w.dir) {
            (Body::Perf(Performative::Attach(a)), Dirn::FromLib) if a.name == n => Some(a.handle.0),
            _ => None,
        })
    };
    let mut model = Model::default();
    let mut txs: [Option<Transaction<'static>>; 2] = [None, None];
    let mut dropped_id: Option<Vec<u8>> = None;
    obs.state_keys.push(h64(&(model.key(), false)));

    for (i, ev) in events.iter().enumerate() {
        let enabled = match ev {
            Ev::Declare => model.free_slot().is_some(),
            Ev::Post { txn: 0, .. } => true,
            Ev::Post { txn, .. } | Ev::Commit(txn) | Ev::Rollback(txn) => model.live(*txn),
            Ev::X1 => !coord.reject_next_discharge,
            Ev::X2 => model.live(1),
            Ev::SessionEnd | Ev::X3 | Ev::CloseLink(_) | Ev::AttachReuse(_) => false,
        };
        if !enabled {
            break;
        }
        let name = ev_name(series, *ev);
        let mark = peer.trace.len();
        let dmark = coord.discharges.len();
        let mut fail: Option<(String, String)> = None;
        match *ev {
            Ev::Declare => {
                let slot = model.free_slot().unwrap();
                match drive_c(&mut peer, &mut coord, Transaction::declare(ctrl, None)).await {
                    Some(Ok(t)) => {
                        let id = t.txn_id().to_vec();
                        let want = format!("coord-txn-{}", coord.next_txn).into_bytes();
                        obs.declares += 1;
                        model.declare(slot, id.clone());
                        txs[slot] = Some(t);
                        if id != want {
                            fail = Some(("declare-reports-wrong-txn-id".into(), format!("the coordinator declared {} but the API reports txn-id {}", hex(&want), hex(&id))));
                        }
                    }
                    Some(Err(e)) => fail = Some(("declare-failed-although-declared".into(), format!("the coordinator answered declared but Transaction::declare returned {e:?}"))),
                    None => fail = Some(("declare-hangs".into(), "Transaction::declare did not return although the coordinator answered declared".into())),
                }
            }
            Ev::Post { link, txn } => {
                let body = body_for(link, i);
                let sender = if link == 1 { &mut s1 } else { &mut s2 };
                let res: Option<Result<Outcome, String>> = if txn == 0 {
                    drive_c(&mut peer, &mut coord, sender.send(body)).await.map(|r| r.map_err(|e| format!("{e:?}")))
                } else {
                    let t = txs[txn as usize - 1].as_ref().unwrap();
                    drive_c(&mut peer, &mut coord, t.post(sender, body)).await.map(|r| r.map_err(|e| format!("{e:?}")))
                };
                let idw = if txn == 0 { None } else { model.ids[txn as usize - 1].clone() };
                match res {
                    Some(Ok(Outcome::Accepted(_))) => {
                        if txn != 0 {
                            obs.txn_posts += 1;
                        }
                    }
                    Some(other) => fail = Some(("post-reports-wrong-outcome".into(), format!("the resource accepted the post but {name} returned {other:?}"))),
                    None => fail = Some(("post-hangs".into(), format!("{name} did not return although the resource answered"))),
                }
                if let Some(h) = handle_of(&peer, &format!("link-{link}")) {
                    let trs: Vec<&Transfer> = peer.trace[mark..]
                        .iter()
                        .filter_map(|w| match (&w.body, w.dir) {
                            (Body::Perf(Performative::Transfer(t)), Dirn::FromLib) if t.handle.0 == h => Some(t),
                            _ => None,
                        })
                        .collect();
                    if link == 2 {
                        if trs.len() >= 3 {
                            obs.multi_frame_posts += 1;
                        } else if fail.is_none() {
                            obs.machinery = Some(format!("S3: a link-2 post went out in {} frame(s), expected >= 3", trs.len()));
                        }
                    }
                    if fail.is_none() {
                        fail = judge_post_wire(&trs, idw.as_deref()).into_iter().next();
                    }
                }
            }
            Ev::Commit(t) | Ev::Rollback(t) => {
                let commit = matches!(ev, Ev::Commit(_));
                let idx = t as usize - 1;
                let id = model.ids[idx].clone().unwrap();
                let tx = txs[idx].take().unwrap();
                let res = if commit { drive_c(&mut peer, &mut coord, tx.commit()).await } else { drive_c(&mut peer, &mut coord, tx.rollback()).await };
                if commit {
                    model.commit(t)
                } else {
                    model.rollback(t)
                }
                let ds: Vec<&(Vec<u8>, Option<bool>, bool)> = coord.discharges[dmark..].iter().filter(|d| Some(&d.0) != dropped_id.as_ref()).collect();
                if ds.len() != 1 {
                    fail = Some(("discharge-not-on-the-wire".into(), format!("{name}: {} discharge messages reached the coordinator, expected exactly one", ds.len())));
                } else if ds[0].0 != id {
                    fail = Some(("discharge-carries-wrong-txn-id".into(), format!("{name}: discharge carries txn-id {} instead of {}", hex(&ds[0].0), hex(&id))));
                } else if ds[0].1.unwrap_or(false) == commit {
                    fail = Some(("discharge-carries-wrong-fail-flag".into(), format!("{name}: discharge carries fail={:?}", ds[0].1)));
                }
                if fail.is_none() {
                    // report the coordinator's outcome
                    let will_accept = ds[0].2;
                    match (will_accept, &res) {
                        (true, Some(Ok(()))) => {}
                        (false, Some(Err(ControllerSendError::Rejected(r)))) => {
                            obs.refusals += 1;
                            let cond = r.error.as_ref().map(|e| e.condition.clone());
                            if cond != Some(ErrorCondition::TransactionError(TransactionError::Rollback)) {
                                fail = Some(("discharge-reports-wrong-error".into(), format!("the coordinator rejected with amqp:transaction:rollback, {name} reports {cond:?}")));
                            }
                        }
                        (true, Some(Err(e))) => fail = Some(("accepted-discharge-reported-as-failure".into(), format!("the coordinator accepted the discharge but {name} returned {e:?}"))),
                        (false, Some(Ok(()))) => fail = Some(("rejected-discharge-reported-as-success".into(), format!("the coordinator REJECTED the discharge but {name} returned Ok"))),
                        (false, Some(Err(e))) => fail = Some(("rejected-discharge-reported-as-other-error".into(), format!("the coordinator rejected the discharge, {name} returned {e:?} instead of the rejection"))),
                        (_, None) => fail = Some(("discharge-hangs".into(), format!("{name} did not return although the coordinator answered"))),
                    }
                }
            }
            Ev::X1 => coord.reject_next_discharge = true,
            Ev::X2 => {
                // dropping an undischarged Transaction: best-effort rollback.  Not demanded by the statement; judged
                // only as "if a discharge goes out, it names the right transaction and has the fail flag set"
                dropped_id = model.ids[0].clone();
                drop(txs[0].take());
                model.abort(1);
            }
            Ev::SessionEnd | Ev::X3 | Ev::CloseLink(_) | Ev::AttachReuse(_) => {}
        }
        // run to full quiescence (the coordinator's answers delivered and processed) - except after the drop of a
        // transaction handle: drop() is synchronous, so the application's next call follows it immediately and the
        // coordinator gets to see the rollback only while that next call is in progress
        if !matches!(ev, Ev::X2) {
            for _ in 0..2 {
                settle(&mut peer, 1).await;
                coord.react(&mut peer);
            }
            settle(&mut peer, 1).await;
        }
        // a discharge naming the dropped transaction is its rollback-on-drop
        for d in &coord.discharges[dmark..] {
            if Some(&d.0) == dropped_id.as_ref() && d.1 != Some(true) && fail.is_none() {
                fail = Some(("discharge-carries-wrong-fail-flag".into(), format!("the rollback on drop of txn {} carries fail={:?}", hex(&d.0), d.1)));
            }
        }
        obs.executed = i + 1;
        obs.trace.push(format!("-- event {}: {}", i + 1, name));
        for w in &peer.trace[mark..] {
            obs.trace.push(format!("   {}", super::s2::wshort(w)));
        }
        obs.state_keys.push(h64(&(model.key(), coord.reject_next_discharge, coord.discharges.len().min(3))));
        if let Some((sig, detail)) = fail {
            // one canonical class for everything that goes wrong in the call that immediately follows the drop of an
            // undischarged transaction handle on the same control link
            let after_drop = (sig.contains("report") || sig.starts_with("declare-") || sig.ends_with("-hangs")) && i > 0 && matches!(events[i - 1], Ev::X2) && true && matches!(ev, Ev::Declare | Ev::Commit(_) | Ev::Rollback(_));
            let sig = if after_drop { format!("controller: outcome-misreported-after-rollback-on-drop ({})", match ev { Ev::Declare => "declare", _ => "discharge" }) } else { sig };
            obs.fails.push((sig, format!("after event {} ({name}): {detail}", i + 1)));
            break;
        }
        if obs.machinery.is_some() {
            break;
        }
    }
    for t in txs.iter_mut() {
        if let Some(t) = t.take() {
            std::mem::forget(t);
        }
    }
    drop(s1);
    drop(s2);
    drop(session);
    drop(conn);
    obs
}
