//! Typed protocol items: every composite of fe2o3-amqp-types with every presence subset of its
//! optional fields, each together with the field values the AMQP specification says must appear on
//! the wire (as reference `RVal`s, built here independently of the library's codec).
use fe2o3_amqp_types::definitions::{
    AmqpError, ConnectionError, Error as AmqpErr, ErrorCondition, Handle, LinkError, ReceiverSettleMode, Role, SenderSettleMode,
    SessionError,
};
use fe2o3_amqp_types::messaging::message::__private::{Deserializable, Serializable};
use fe2o3_amqp_types::messaging::{
    Accepted, AmqpSequence, AmqpValue, ApplicationProperties, Batch, Body, Data, DeliveryAnnotations, DeliveryState,
    DistributionMode, Footer, Header, Message, MessageAnnotations, MessageId, Modified, Outcome, Priority, Properties, Received,
    Rejected, Released, Source, Target, TargetArchetype, TerminusDurability, TerminusExpiryPolicy,
};
use fe2o3_amqp_types::performatives::*;
use fe2o3_amqp_types::primitives::SimpleValue;
use fe2o3_amqp_types::sasl::{SaslChallenge, SaslCode, SaslInit, SaslMechanisms, SaslOutcome, SaslResponse};
use fe2o3_amqp_types::transaction::{Coordinator, Declare, Declared, Discharge, TransactionalState, TxnCapability};
use refamqp::{RType, RVal};
use serde::de::DeserializeOwned;
use serde::Serialize;
use serde_amqp::primitives::{Array, OrderedMap, Symbol, Timestamp, Uuid};
use serde_amqp::Value;
use serde_bytes::ByteBuf;
use serde_json::json;
use std::fmt::Debug;
use vlib::report::Ctx;
use vlib::util::{catch, h64, hex, par_map};

#[derive(Debug, Clone)]
pub enum Exp {
    /// exactly this value (Null = field absent)
    Is(RVal),
    /// the field has a default: null or the explicit default value are both correct
    NullOr(RVal),
    /// a `multiple` field: a single value (if one element) or an array of the values
    Multi(Vec<RVal>),
}

#[derive(Debug, Clone)]
pub struct Expect {
    pub composite: &'static str,
    pub fields: Vec<Exp>,
}

pub struct B {
    mask: u64,
    bit: u32,
    pub alt: bool,
    exp: Vec<Exp>,
}

fn rs(s: &str) -> RVal {
    RVal::Sym(s.as_bytes().to_vec())
}
fn rstr(s: &str) -> RVal {
    RVal::Str(s.to_string())
}


/// The value a composite field has when it is null, from the spec's `default` attribute.
fn default_rval(fd: &refamqp::tables::Field) -> Option<RVal> {
    use refamqp::tables::FType;
    let d = fd.default?;
    Some(match (fd.ty, d) {
        (FType::Bool, "false") => RVal::Bool(false),
        (FType::Bool, "true") => RVal::Bool(true),
        (FType::Ubyte, "mixed") => RVal::Ubyte(2),
        (FType::Ubyte, "first") => RVal::Ubyte(0),
        (FType::Uint, "none") => RVal::Uint(0),
        (FType::Sym, s) => RVal::Sym(s.as_bytes().to_vec()),
        (FType::Ubyte, n) => RVal::Ubyte(n.parse().ok()?),
        (FType::Ushort, n) => RVal::Ushort(n.parse().ok()?),
        (FType::Uint, n) => RVal::Uint(n.parse().ok()?),
        (FType::Ulong, n) => RVal::Ulong(n.parse().ok()?),
        _ => return None,
    })
}

/// Canonical form of a value for comparing composites on the wire with what was sent: inside every known
/// composite (at any depth) a field that carries its default value explicitly is the same as a null field, and
/// trailing nulls are the same as absent fields.
pub fn canon_defaults(v: &RVal) -> RVal {
    match v {
        RVal::Described(d, body) => {
            let body2 = match (&**body, refamqp::tables::composite_by_descriptor(d)) {
                (RVal::List(items), Some(comp)) => {
                    let mut out: Vec<RVal> = items
                        .iter()
                        .enumerate()
                        .map(|(i, x)| {
                            let c = canon_defaults(x);
                            match comp.fields.get(i).and_then(default_rval) {
                                Some(dv) if dv == c => RVal::Null,
                                _ => c,
                            }
                        })
                        .collect();
                    while out.last() == Some(&RVal::Null) {
                        out.pop();
                    }
                    RVal::List(out)
                }
                (other, _) => canon_defaults(other),
            };
            RVal::Described(d.clone(), Box::new(body2))
        }
        RVal::List(l) => RVal::List(l.iter().map(canon_defaults).collect()),
        RVal::Map(m) => RVal::Map(m.iter().map(|(k, x)| (canon_defaults(k), canon_defaults(x))).collect()),
        RVal::Array(t, e) => RVal::Array(t.clone(), e.iter().map(canon_defaults).collect()),
        other => other.clone(),
    }
}

/// does the value found on the wire satisfy the expectation for one field?
pub fn field_ok(exp: &Exp, got: &RVal) -> bool {
    let eq = |a: &RVal, b: &RVal| vlib::corpus::rval_eq_modulo_empty_array(&canon_defaults(a), &canon_defaults(b));
    match exp {
        Exp::Is(r) => eq(r, got),
        Exp::NullOr(r) => *got == RVal::Null || eq(r, got),
        Exp::Multi(v) => match got {
            RVal::Array(_, e) => e == v,
            single => v.len() == 1 && &v[0] == single,
        },
    }
}

impl B {
    fn new(mask: u64, alt: bool) -> Self {
        B {
            mask,
            bit: 0,
            alt,
            exp: vec![],
        }
    }
    fn take(&mut self) -> bool {
        let b = (self.mask >> self.bit) & 1 == 1;
        self.bit += 1;
        b
    }
    fn req<T>(&mut self, v: T, r: RVal) -> T {
        self.exp.push(Exp::Is(r));
        v
    }
    fn opt<T>(&mut self, v: T, r: RVal) -> Option<T> {
        if self.take() {
            self.exp.push(Exp::Is(r));
            Some(v)
        } else {
            self.exp.push(Exp::Is(RVal::Null));
            None
        }
    }
    fn dflt<T>(&mut self, nd: T, rnd: RVal, d: T, rd: RVal) -> T {
        if self.take() {
            self.exp.push(Exp::Is(rnd));
            nd
        } else {
            self.exp.push(Exp::NullOr(rd));
            d
        }
    }
    fn multi(&mut self, names: &[&str]) -> Option<Array<Symbol>> {
        if self.take() {
            self.exp.push(Exp::Multi(names.iter().map(|s| rs(s)).collect()));
            Some(Array(names.iter().map(|s| Symbol::from(*s)).collect()))
        } else {
            self.exp.push(Exp::Is(RVal::Null));
            None
        }
    }
    fn fields(&mut self) -> Option<OrderedMap<Symbol, Value>> {
        let alt = self.alt;
        if self.take() {
            let mut m = OrderedMap::new();
            m.insert(Symbol::from("k1"), Value::Uint(1));
            let mut r = vec![(rs("k1"), RVal::Uint(1))];
            if alt {
                m.insert(Symbol::from("k2"), Value::String("vé".into()));
                r.push((rs("k2"), rstr("vé")));
            }
            self.exp.push(Exp::Is(RVal::Map(r)));
            Some(m)
        } else {
            self.exp.push(Exp::Is(RVal::Null));
            None
        }
    }
    fn done(self, composite: &'static str) -> (u32, Expect) {
        (
            self.bit,
            Expect {
                composite,
                fields: self.exp,
            },
        )
    }
}

fn desc(code: u64, fields: Vec<RVal>) -> RVal {
    RVal::Described(Box::new(RVal::Ulong(code)), Box::new(RVal::List(fields)))
}

// ----------------------------------------------------------------------------- generators
// Each returns (item, number of mask bits used, expectation).

pub fn gen_error(mask: u64, alt: bool) -> (AmqpErr, u32, Expect) {
    let mut b = B::new(mask, alt);
    let (cond, rc) = if alt {
        (ErrorCondition::LinkError(LinkError::TransferLimitExceeded), rs("amqp:link:transfer-limit-exceeded"))
    } else {
        (ErrorCondition::AmqpError(AmqpError::InternalError), rs("amqp:internal-error"))
    };
    let e = AmqpErr {
        condition: b.req(cond, rc),
        description: b.opt("déscription".to_string(), rstr("déscription")),
        info: b.fields().map(Box::new),
    };
    let (n, x) = b.done("error");
    (e, n, x)
}

fn an_error(alt: bool) -> (AmqpErr, RVal) {
    if alt {
        (
            AmqpErr {
                condition: ErrorCondition::SessionError(SessionError::WindowViolation),
                description: Some("w".into()),
                info: None,
            },
            desc(0x1d, vec![rs("amqp:session:window-violation"), rstr("w")]),
        )
    } else {
        (
            AmqpErr {
                condition: ErrorCondition::ConnectionError(ConnectionError::FramingError),
                description: None,
                info: None,
            },
            desc(0x1d, vec![rs("amqp:connection:framing-error")]),
        )
    }
}

pub fn gen_open(mask: u64, alt: bool) -> (Open, u32, Expect) {
    let mut b = B::new(mask, alt);
    let o = Open {
        container_id: b.req(if alt { "cöntainer".into() } else { "c".into() }, rstr(if alt { "cöntainer" } else { "c" })),
        hostname: b.opt("host.example".to_string(), rstr("host.example")),
        max_frame_size: b.dflt(MaxFrameSize(if alt { 512 } else { 65536 }), RVal::Uint(if alt { 512 } else { 65536 }), MaxFrameSize(u32::MAX), RVal::Uint(u32::MAX)),
        channel_max: b.dflt(ChannelMax(if alt { 0 } else { 255 }), RVal::Ushort(if alt { 0 } else { 255 }), ChannelMax(u16::MAX), RVal::Ushort(u16::MAX)),
        idle_time_out: b.opt(if alt { 0 } else { 30_000 }, RVal::Uint(if alt { 0 } else { 30_000 })),
        outgoing_locales: b.multi(if alt { &["en-US", "de"] } else { &["en-US"] }),
        incoming_locales: b.multi(&["fr"]),
        offered_capabilities: b.multi(if alt { &["cap1"] } else { &["cap1", "cap2", "cap3"] }),
        desired_capabilities: b.multi(&["d1", "d2"]),
        properties: b.fields(),
    };
    let (n, x) = b.done("open");
    (o, n, x)
}

pub fn gen_begin(mask: u64, alt: bool) -> (Begin, u32, Expect) {
    let mut b = B::new(mask, alt);
    let o = Begin {
        remote_channel: b.opt(if alt { 65535 } else { 1 }, RVal::Ushort(if alt { 65535 } else { 1 })),
        next_outgoing_id: b.req(if alt { u32::MAX - 1 } else { 0 }, RVal::Uint(if alt { u32::MAX - 1 } else { 0 })),
        incoming_window: b.req(if alt { 0 } else { 2048 }, RVal::Uint(if alt { 0 } else { 2048 })),
        outgoing_window: b.req(if alt { u32::MAX } else { 1 }, RVal::Uint(if alt { u32::MAX } else { 1 })),
        handle_max: b.dflt(Handle(if alt { 0 } else { 7 }), RVal::Uint(if alt { 0 } else { 7 }), Handle(u32::MAX), RVal::Uint(u32::MAX)),
        offered_capabilities: b.multi(&["o"]),
        desired_capabilities: b.multi(&["d", "e"]),
        properties: b.fields(),
    };
    let (n, x) = b.done("begin");
    (o, n, x)
}

fn a_source(alt: bool) -> (Source, RVal) {
    if alt {
        let (s, _, e) = gen_source(0b101_0000_0001, false);
        (s, expect_to_rval(0x28, &e))
    } else {
        (
            Source {
                address: Some("q1".into()),
                ..Default::default()
            },
            desc(0x28, vec![rstr("q1")]),
        )
    }
}
fn a_target(alt: bool) -> (Target, RVal) {
    if alt {
        let (s, _, e) = gen_target(0b100_0011, false);
        (s, expect_to_rval(0x29, &e))
    } else {
        (
            Target {
                address: Some("q1".into()),
                ..Default::default()
            },
            desc(0x29, vec![rstr("q1")]),
        )
    }
}

/// the canonical reference value of an expectation (defaults elided as null, trailing nulls dropped, multi as array)
pub fn expect_to_rval(code: u64, e: &Expect) -> RVal {
    let mut f: Vec<RVal> = e
        .fields
        .iter()
        .map(|x| match x {
            Exp::Is(r) => r.clone(),
            Exp::NullOr(_) => RVal::Null,
            Exp::Multi(v) => RVal::Array(v[0].rtype(), v.clone()),
        })
        .collect();
    while f.last() == Some(&RVal::Null) {
        f.pop();
    }
    desc(code, f)
}

pub fn gen_attach(mask: u64, alt: bool) -> (Attach, u32, Expect) {
    let mut b = B::new(mask, alt);
    let (src, rsrc) = a_source(alt);
    let (tgt, rtgt) = a_target(alt);
    let mut um = OrderedMap::new();
    um.insert(ByteBuf::from(vec![1u8, 2]), Some(DeliveryState::Accepted(Accepted {})));
    um.insert(ByteBuf::from(vec![3u8]), None);
    let rum = RVal::Map(vec![
        (RVal::Binary(vec![1, 2]), desc(0x24, vec![])),
        (RVal::Binary(vec![3]), RVal::Null),
    ]);
    let o = Attach {
        name: b.req(if alt { "lïnk".into() } else { "l".into() }, rstr(if alt { "lïnk" } else { "l" })),
        handle: b.req(Handle(if alt { u32::MAX } else { 0 }), RVal::Uint(if alt { u32::MAX } else { 0 })),
        role: b.req(if alt { Role::Receiver } else { Role::Sender }, RVal::Bool(alt)),
        snd_settle_mode: b.dflt(
            if alt { SenderSettleMode::Unsettled } else { SenderSettleMode::Settled },
            RVal::Ubyte(if alt { 0 } else { 1 }),
            SenderSettleMode::Mixed,
            RVal::Ubyte(2),
        ),
        rcv_settle_mode: b.dflt(ReceiverSettleMode::Second, RVal::Ubyte(1), ReceiverSettleMode::First, RVal::Ubyte(0)),
        source: b.opt(Box::new(src), rsrc),
        target: b.opt(Box::new(TargetArchetype::Target(tgt)), rtgt),
        unsettled: b.opt(um, rum),
        incomplete_unsettled: b.dflt(true, RVal::Bool(true), false, RVal::Bool(false)),
        initial_delivery_count: b.opt(if alt { u32::MAX } else { 0 }, RVal::Uint(if alt { u32::MAX } else { 0 })),
        max_message_size: b.opt(if alt { u64::MAX } else { 1000 }, RVal::Ulong(if alt { u64::MAX } else { 1000 })),
        offered_capabilities: b.multi(&["o1"]),
        desired_capabilities: b.multi(&["d1", "d2"]),
        properties: b.fields(),
    };
    let (n, x) = b.done("attach");
    (o, n, x)
}

pub fn gen_flow(mask: u64, alt: bool) -> (Flow, u32, Expect) {
    let mut b = B::new(mask, alt);
    let big = if alt { u32::MAX } else { 5 };
    let o = Flow {
        next_incoming_id: b.opt(big, RVal::Uint(big)),
        incoming_window: b.req(if alt { 0 } else { 100 }, RVal::Uint(if alt { 0 } else { 100 })),
        next_outgoing_id: b.req(big, RVal::Uint(big)),
        outgoing_window: b.req(300, RVal::Uint(300)),
        handle: b.opt(Handle(if alt { 256 } else { 0 }), RVal::Uint(if alt { 256 } else { 0 })),
        delivery_count: b.opt(big, RVal::Uint(big)),
        link_credit: b.opt(if alt { 0 } else { 1000 }, RVal::Uint(if alt { 0 } else { 1000 })),
        available: b.opt(7, RVal::Uint(7)),
        drain: b.dflt(true, RVal::Bool(true), false, RVal::Bool(false)),
        echo: b.dflt(true, RVal::Bool(true), false, RVal::Bool(false)),
        properties: b.fields(),
    };
    let (n, x) = b.done("flow");
    (o, n, x)
}

fn a_state(alt: bool) -> (DeliveryState, RVal) {
    if alt {
        (
            DeliveryState::Modified(Modified {
                delivery_failed: Some(true),
                undeliverable_here: None,
                message_annotations: None,
            }),
            desc(0x27, vec![RVal::Bool(true)]),
        )
    } else {
        (
            DeliveryState::Received(Received {
                section_number: 1,
                section_offset: 300,
            }),
            desc(0x23, vec![RVal::Uint(1), RVal::Ulong(300)]),
        )
    }
}

pub fn gen_transfer(mask: u64, alt: bool) -> (Transfer, u32, Expect) {
    let mut b = B::new(mask, alt);
    let (st, rst) = a_state(alt);
    let tag: Vec<u8> = if alt { (0..32).collect() } else { vec![0, 0, 0, 1] };
    let o = Transfer {
        handle: b.req(Handle(if alt { 300 } else { 0 }), RVal::Uint(if alt { 300 } else { 0 })),
        delivery_id: b.opt(if alt { u32::MAX } else { 0 }, RVal::Uint(if alt { u32::MAX } else { 0 })),
        delivery_tag: b.opt(ByteBuf::from(tag.clone()), RVal::Binary(tag)),
        message_format: b.opt(if alt { 0x0100_0001 } else { 0 }, RVal::Uint(if alt { 0x0100_0001 } else { 0 })),
        settled: b.opt(alt, RVal::Bool(alt)),
        more: b.dflt(true, RVal::Bool(true), false, RVal::Bool(false)),
        rcv_settle_mode: b.opt(
            if alt { ReceiverSettleMode::First } else { ReceiverSettleMode::Second },
            RVal::Ubyte(if alt { 0 } else { 1 }),
        ),
        state: b.opt(st, rst),
        resume: b.dflt(true, RVal::Bool(true), false, RVal::Bool(false)),
        aborted: b.dflt(true, RVal::Bool(true), false, RVal::Bool(false)),
        batchable: b.dflt(true, RVal::Bool(true), false, RVal::Bool(false)),
    };
    let (n, x) = b.done("transfer");
    (o, n, x)
}

pub fn gen_disposition(mask: u64, alt: bool) -> (Disposition, u32, Expect) {
    let mut b = B::new(mask, alt);
    let (st, rst) = if alt {
        let (e, re) = an_error(true);
        (DeliveryState::Rejected(Rejected { error: Some(e) }), desc(0x25, vec![re]))
    } else {
        (DeliveryState::Accepted(Accepted {}), desc(0x24, vec![]))
    };
    let o = Disposition {
        role: b.req(if alt { Role::Sender } else { Role::Receiver }, RVal::Bool(!alt)),
        first: b.req(if alt { u32::MAX } else { 0 }, RVal::Uint(if alt { u32::MAX } else { 0 })),
        last: b.opt(if alt { 0 } else { 300 }, RVal::Uint(if alt { 0 } else { 300 })),
        settled: b.dflt(true, RVal::Bool(true), false, RVal::Bool(false)),
        state: b.opt(st, rst),
        batchable: b.dflt(true, RVal::Bool(true), false, RVal::Bool(false)),
    };
    let (n, x) = b.done("disposition");
    (o, n, x)
}

pub fn gen_detach(mask: u64, alt: bool) -> (Detach, u32, Expect) {
    let mut b = B::new(mask, alt);
    let (e, re) = an_error(alt);
    let o = Detach {
        handle: b.req(Handle(if alt { 70000 } else { 1 }), RVal::Uint(if alt { 70000 } else { 1 })),
        closed: b.dflt(true, RVal::Bool(true), false, RVal::Bool(false)),
        error: b.opt(e, re),
    };
    let (n, x) = b.done("detach");
    (o, n, x)
}
pub fn gen_end(mask: u64, alt: bool) -> (End, u32, Expect) {
    let mut b = B::new(mask, alt);
    let (e, re) = an_error(alt);
    let o = End { error: b.opt(e, re) };
    let (n, x) = b.done("end");
    (o, n, x)
}
pub fn gen_close(mask: u64, alt: bool) -> (Close, u32, Expect) {
    let mut b = B::new(mask, alt);
    let (e, re) = an_error(alt);
    let o = Close { error: b.opt(e, re) };
    let (n, x) = b.done("close");
    (o, n, x)
}

pub fn gen_source(mask: u64, alt: bool) -> (Source, u32, Expect) {
    let mut b = B::new(mask, alt);
    let mut filter = OrderedMap::new();
    filter.insert(
        Symbol::from("f"),
        Value::Described(Box::new(serde_amqp::described::Described {
            descriptor: serde_amqp::descriptor::Descriptor::Name(Symbol::from("apache.org:selector-filter:string")),
            value: Value::String("a=1".into()),
        })),
    );
    let rfilter = RVal::Map(vec![(
        rs("f"),
        RVal::Described(Box::new(rs("apache.org:selector-filter:string")), Box::new(rstr("a=1"))),
    )]);
    let o = Source {
        address: b.opt("addr".to_string(), rstr("addr")),
        durable: b.dflt(
            if alt { TerminusDurability::UnsettledState } else { TerminusDurability::Configuration },
            RVal::Uint(if alt { 2 } else { 1 }),
            TerminusDurability::None,
            RVal::Uint(0),
        ),
        expiry_policy: b.dflt(
            if alt { TerminusExpiryPolicy::Never } else { TerminusExpiryPolicy::LinkDetach },
            rs(if alt { "never" } else { "link-detach" }),
            TerminusExpiryPolicy::SessionEnd,
            rs("session-end"),
        ),
        timeout: b.dflt(60, RVal::Uint(60), 0, RVal::Uint(0)),
        dynamic: b.dflt(true, RVal::Bool(true), false, RVal::Bool(false)),
        dynamic_node_properties: b.fields(),
        distribution_mode: b.opt(
            if alt { DistributionMode::Copy } else { DistributionMode::Move },
            rs(if alt { "copy" } else { "move" }),
        ),
        filter: b.opt(filter, rfilter),
        default_outcome: b.opt(
            if alt {
                Outcome::Modified(Modified {
                    delivery_failed: None,
                    undeliverable_here: Some(true),
                    message_annotations: None,
                })
            } else {
                Outcome::Released(Released {})
            },
            if alt {
                desc(0x27, vec![RVal::Null, RVal::Bool(true)])
            } else {
                desc(0x26, vec![])
            },
        ),
        outcomes: b.multi(if alt { &["amqp:accepted:list"] } else { &["amqp:accepted:list", "amqp:rejected:list"] }),
        capabilities: b.multi(&["queue"]),
    };
    let (n, x) = b.done("source");
    (o, n, x)
}

pub fn gen_target(mask: u64, alt: bool) -> (Target, u32, Expect) {
    let mut b = B::new(mask, alt);
    let o = Target {
        address: b.opt("addr".to_string(), rstr("addr")),
        durable: b.dflt(TerminusDurability::Configuration, RVal::Uint(1), TerminusDurability::None, RVal::Uint(0)),
        expiry_policy: b.dflt(
            TerminusExpiryPolicy::ConnectionClose,
            rs("connection-close"),
            TerminusExpiryPolicy::SessionEnd,
            rs("session-end"),
        ),
        timeout: b.dflt(if alt { u32::MAX } else { 60 }, RVal::Uint(if alt { u32::MAX } else { 60 }), 0, RVal::Uint(0)),
        dynamic: b.dflt(true, RVal::Bool(true), false, RVal::Bool(false)),
        dynamic_node_properties: b.fields(),
        capabilities: b.multi(if alt { &["topic", "queue"] } else { &["topic"] }),
    };
    let (n, x) = b.done("target");
    (o, n, x)
}

pub fn gen_coordinator(mask: u64, alt: bool) -> (Coordinator, u32, Expect) {
    let mut b = B::new(mask, alt);
    let caps = if b.take() {
        if alt {
            b.exp.push(Exp::Multi(vec![rs("amqp:local-transactions"), rs("amqp:multi-txns-per-ssn")]));
            Some(Array(vec![TxnCapability::LocalTransactions, TxnCapability::MultiTxnsPerSsn]))
        } else {
            b.exp.push(Exp::Multi(vec![rs("amqp:local-transactions")]));
            Some(Array(vec![TxnCapability::LocalTransactions]))
        }
    } else {
        b.exp.push(Exp::Is(RVal::Null));
        None
    };
    let o = Coordinator { capabilities: caps };
    let (n, x) = b.done("coordinator");
    (o, n, x)
}

pub fn gen_header(mask: u64, alt: bool) -> (Header, u32, Expect) {
    let mut b = B::new(mask, alt);
    let o = Header {
        durable: b.dflt(true, RVal::Bool(true), false, RVal::Bool(false)),
        priority: b.dflt(Priority(if alt { 0 } else { 9 }), RVal::Ubyte(if alt { 0 } else { 9 }), Priority(4), RVal::Ubyte(4)),
        ttl: b.opt(if alt { u32::MAX } else { 0 }, RVal::Uint(if alt { u32::MAX } else { 0 })),
        first_acquirer: b.dflt(true, RVal::Bool(true), false, RVal::Bool(false)),
        delivery_count: b.dflt(if alt { 256 } else { 3 }, RVal::Uint(if alt { 256 } else { 3 }), 0, RVal::Uint(0)),
    };
    let (n, x) = b.done("header");
    (o, n, x)
}

pub fn gen_properties(mask: u64, alt: bool) -> (Properties, u32, Expect) {
    let mut b = B::new(mask, alt);
    let (mid, rmid) = if alt {
        (MessageId::Uuid(Uuid::from([5; 16])), RVal::Uuid([5; 16]))
    } else {
        (MessageId::Ulong(300), RVal::Ulong(300))
    };
    let (cid, rcid) = if alt {
        (MessageId::Binary(ByteBuf::from(vec![1, 2, 3])), RVal::Binary(vec![1, 2, 3]))
    } else {
        (MessageId::String("corr-é".into()), rstr("corr-é"))
    };
    let o = Properties {
        message_id: b.opt(mid, rmid),
        user_id: b.opt(ByteBuf::from(vec![0xff, 0]), RVal::Binary(vec![0xff, 0])),
        to: b.opt("to".to_string(), rstr("to")),
        subject: b.opt("sübject".to_string(), rstr("sübject")),
        reply_to: b.opt("rt".to_string(), rstr("rt")),
        correlation_id: b.opt(cid, rcid),
        content_type: b.opt(Symbol::from("text/plain"), rs("text/plain")),
        content_encoding: b.opt(Symbol::from("gzip"), rs("gzip")),
        absolute_expiry_time: b.opt(Timestamp::from(if alt { -1 } else { 1_700_000_000_000 }), RVal::Timestamp(if alt { -1 } else { 1_700_000_000_000 })),
        creation_time: b.opt(Timestamp::from(0), RVal::Timestamp(0)),
        group_id: b.opt("g".to_string(), rstr("g")),
        group_sequence: b.opt(if alt { u32::MAX } else { 0 }, RVal::Uint(if alt { u32::MAX } else { 0 })),
        reply_to_group_id: b.opt("rg".to_string(), rstr("rg")),
    };
    let (n, x) = b.done("properties");
    (o, n, x)
}

pub fn gen_received(mask: u64, alt: bool) -> (Received, u32, Expect) {
    let mut b = B::new(mask, alt);
    let o = Received {
        section_number: b.req(if alt { u32::MAX } else { 0 }, RVal::Uint(if alt { u32::MAX } else { 0 })),
        section_offset: b.req(if alt { u64::MAX } else { 255 }, RVal::Ulong(if alt { u64::MAX } else { 255 })),
    };
    let (n, x) = b.done("received");
    (o, n, x)
}
pub fn gen_accepted(mask: u64, alt: bool) -> (Accepted, u32, Expect) {
    let b = B::new(mask, alt);
    let (n, x) = b.done("accepted");
    (Accepted {}, n, x)
}
pub fn gen_released(mask: u64, alt: bool) -> (Released, u32, Expect) {
    let b = B::new(mask, alt);
    let (n, x) = b.done("released");
    (Released {}, n, x)
}
pub fn gen_rejected(mask: u64, alt: bool) -> (Rejected, u32, Expect) {
    let mut b = B::new(mask, alt);
    let (e, re) = an_error(alt);
    let o = Rejected { error: b.opt(e, re) };
    let (n, x) = b.done("rejected");
    (o, n, x)
}
pub fn gen_modified(mask: u64, alt: bool) -> (Modified, u32, Expect) {
    let mut b = B::new(mask, alt);
    let o = Modified {
        delivery_failed: b.opt(!alt, RVal::Bool(!alt)),
        undeliverable_here: b.opt(alt, RVal::Bool(alt)),
        message_annotations: b.fields(),
    };
    let (n, x) = b.done("modified");
    (o, n, x)
}
pub fn gen_declare(mask: u64, alt: bool) -> (Declare, u32, Expect) {
    let mut b = B::new(mask, alt);
    let o = Declare {
        global_id: b.opt(ByteBuf::from(vec![1, 2, 3]), RVal::Binary(vec![1, 2, 3])),
    };
    let (n, x) = b.done("declare");
    (o, n, x)
}
pub fn gen_discharge(mask: u64, alt: bool) -> (Discharge, u32, Expect) {
    let mut b = B::new(mask, alt);
    let id: Vec<u8> = if alt { vec![] } else { vec![9; 16] };
    let o = Discharge {
        txn_id: b.req(ByteBuf::from(id.clone()), RVal::Binary(id)),
        fail: b.opt(alt, RVal::Bool(alt)),
    };
    let (n, x) = b.done("discharge");
    (o, n, x)
}
pub fn gen_declared(mask: u64, alt: bool) -> (Declared, u32, Expect) {
    let mut b = B::new(mask, alt);
    let id: Vec<u8> = if alt { vec![0; 300] } else { vec![1] };
    let o = Declared {
        txn_id: b.req(ByteBuf::from(id.clone()), RVal::Binary(id)),
    };
    let (n, x) = b.done("declared");
    (o, n, x)
}
pub fn gen_txn_state(mask: u64, alt: bool) -> (TransactionalState, u32, Expect) {
    let mut b = B::new(mask, alt);
    let o = TransactionalState {
        txn_id: b.req(ByteBuf::from(vec![7, 7]), RVal::Binary(vec![7, 7])),
        outcome: b.opt(
            if alt { Outcome::Released(Released {}) } else { Outcome::Accepted(Accepted {}) },
            if alt { desc(0x26, vec![]) } else { desc(0x24, vec![]) },
        ),
    };
    let (n, x) = b.done("transactional-state");
    (o, n, x)
}
pub fn gen_sasl_mechanisms(mask: u64, alt: bool) -> (SaslMechanisms, u32, Expect) {
    let mut b = B::new(mask, alt);
    let names: &[&str] = if alt { &["PLAIN", "SCRAM-SHA-256", "ANONYMOUS"] } else { &["PLAIN"] };
    b.exp.push(Exp::Multi(names.iter().map(|s| rs(s)).collect()));
    let o = SaslMechanisms {
        sasl_server_mechanisms: Array(names.iter().map(|s| Symbol::from(*s)).collect()),
    };
    let (n, x) = b.done("sasl-mechanisms");
    (o, n, x)
}
pub fn gen_sasl_init(mask: u64, alt: bool) -> (SaslInit, u32, Expect) {
    let mut b = B::new(mask, alt);
    let resp: Vec<u8> = if alt { vec![0; 256] } else { b"\0user\0pw".to_vec() };
    let o = SaslInit {
        mechanism: b.req(Symbol::from("PLAIN"), rs("PLAIN")),
        initial_response: b.opt(ByteBuf::from(resp.clone()), RVal::Binary(resp)),
        hostname: b.opt("h".to_string(), rstr("h")),
    };
    let (n, x) = b.done("sasl-init");
    (o, n, x)
}
pub fn gen_sasl_challenge(mask: u64, alt: bool) -> (SaslChallenge, u32, Expect) {
    let mut b = B::new(mask, alt);
    let c: Vec<u8> = if alt { vec![] } else { b"r=abc,s=xyz,i=4096".to_vec() };
    let o = SaslChallenge {
        challenge: b.req(ByteBuf::from(c.clone()), RVal::Binary(c)),
    };
    let (n, x) = b.done("sasl-challenge");
    (o, n, x)
}
pub fn gen_sasl_response(mask: u64, alt: bool) -> (SaslResponse, u32, Expect) {
    let mut b = B::new(mask, alt);
    let c: Vec<u8> = if alt { vec![1; 300] } else { b"c=biws".to_vec() };
    let o = SaslResponse {
        response: b.req(ByteBuf::from(c.clone()), RVal::Binary(c)),
    };
    let (n, x) = b.done("sasl-response");
    (o, n, x)
}
pub fn gen_sasl_outcome(mask: u64, alt: bool) -> (SaslOutcome, u32, Expect) {
    let mut b = B::new(mask, alt);
    let o = SaslOutcome {
        code: b.req(if alt { SaslCode::SysTemp } else { SaslCode::Ok }, RVal::Ubyte(if alt { 4 } else { 0 })),
        additional_data: b.opt(ByteBuf::from(vec![b'v', b'=']), RVal::Binary(vec![b'v', b'='])),
    };
    let (n, x) = b.done("sasl-outcome");
    (o, n, x)
}

// ----------------------------------------------------------------------------- messages
/// bits: 0 header, 1 delivery-annotations, 2 message-annotations, 3 properties, 4 application-properties, 5 footer;
/// body kind = (mask >> 6) % 6: value, data x1, data x2, sequence x1, sequence x2, empty
pub fn gen_message(mask: u64, alt: bool) -> (Message<Body<Value>>, u32, Vec<RVal>) {
    let mut secs = vec![];
    let bit = |i: u32| (mask >> i) & 1 == 1;
    let header = if bit(0) {
        let (h, _, e) = gen_header(if alt { 0b10101 } else { 0b00001 }, alt);
        secs.push(expect_to_rval(0x70, &e));
        Some(h)
    } else {
        None
    };
    let ann = |k: &str| {
        let mut m = OrderedMap::new();
        m.insert(fe2o3_amqp_types::messaging::annotations::OwnedKey::Symbol(Symbol::from(k)), Value::Int(-5));
        (m, RVal::Map(vec![(rs(k), RVal::Int(-5))]))
    };
    let delivery_annotations = if bit(1) {
        let (m, r) = ann("x-da");
        secs.push(RVal::Described(Box::new(RVal::Ulong(0x71)), Box::new(r)));
        Some(DeliveryAnnotations(m))
    } else {
        None
    };
    let message_annotations = if bit(2) {
        let (m, r) = ann("x-ma");
        secs.push(RVal::Described(Box::new(RVal::Ulong(0x72)), Box::new(r)));
        Some(MessageAnnotations(m))
    } else {
        None
    };
    let properties = if bit(3) {
        let (p, _, e) = gen_properties(if alt { 0b1_0101_0101_0101 } else { 0b1 }, alt);
        secs.push(expect_to_rval(0x73, &e));
        Some(p)
    } else {
        None
    };
    let application_properties = if bit(4) {
        let mut m = OrderedMap::new();
        m.insert("ké".to_string(), SimpleValue::Uint(300));
        m.insert("s".to_string(), SimpleValue::String("v".into()));
        secs.push(RVal::Described(
            Box::new(RVal::Ulong(0x74)),
            Box::new(RVal::Map(vec![(rstr("ké"), RVal::Uint(300)), (rstr("s"), rstr("v"))])),
        ));
        Some(ApplicationProperties(m))
    } else {
        None
    };
    let d1: Vec<u8> = if alt { (0..300u32).map(|i| i as u8).collect() } else { vec![1, 2, 3] };
    let body = match (mask >> 6) % 6 {
        0 => {
            let v = if alt {
                vlib::corpus::map(vec![(vlib::corpus::sym("k"), vlib::corpus::arr(vec![Value::Uint(1), Value::Uint(300)]))])
            } else {
                Value::String("hello wörld".into())
            };
            secs.push(RVal::Described(Box::new(RVal::Ulong(0x77)), Box::new(vlib::corpus::value_to_rval(&v))));
            Body::Value(AmqpValue(v))
        }
        1 => {
            secs.push(RVal::Described(Box::new(RVal::Ulong(0x75)), Box::new(RVal::Binary(d1.clone()))));
            Body::Data(Batch::new(vec![Data(ByteBuf::from(d1))]))
        }
        2 => {
            secs.push(RVal::Described(Box::new(RVal::Ulong(0x75)), Box::new(RVal::Binary(d1.clone()))));
            secs.push(RVal::Described(Box::new(RVal::Ulong(0x75)), Box::new(RVal::Binary(vec![]))));
            Body::Data(Batch::new(vec![Data(ByteBuf::from(d1)), Data(ByteBuf::from(vec![]))]))
        }
        3 => {
            secs.push(RVal::Described(
                Box::new(RVal::Ulong(0x76)),
                Box::new(RVal::List(vec![RVal::Uint(1), rstr("a")])),
            ));
            Body::Sequence(Batch::new(vec![AmqpSequence(vec![Value::Uint(1), Value::String("a".into())])]))
        }
        4 => {
            secs.push(RVal::Described(Box::new(RVal::Ulong(0x76)), Box::new(RVal::List(vec![]))));
            secs.push(RVal::Described(Box::new(RVal::Ulong(0x76)), Box::new(RVal::List(vec![RVal::Null]))));
            Body::Sequence(Batch::new(vec![AmqpSequence(vec![]), AmqpSequence(vec![Value::Null])]))
        }
        _ => Body::Empty,
    };
    let footer = if bit(5) {
        let (m, r) = ann("x-ft");
        secs.push(RVal::Described(Box::new(RVal::Ulong(0x78)), Box::new(r)));
        Some(Footer(m))
    } else {
        None
    };
    (
        Message {
            header,
            delivery_annotations,
            message_annotations,
            properties,
            application_properties,
            body,
            footer,
        },
        6,
        secs,
    )
}

// ----------------------------------------------------------------------------- the visitor plumbing
pub type Fail3 = (String, String, serde_json::Value);

pub trait Visitor: Sync {
    fn visit<T: Serialize + DeserializeOwned + Debug>(&self, ty: &'static str, mask: u64, alt: bool, item: &T, expect: &Expect) -> Vec<(String, String)>;
    fn visit_message(&self, mask: u64, alt: bool, m: &Message<Body<Value>>, secs: &[RVal]) -> Vec<(String, String)>;
}

pub struct TypedResult {
    pub evaluations: u64,
    pub distinct: u64,
    pub fails: Vec<Fail3>,
    pub types: Vec<String>,
    pub samples: Vec<String>,
}

fn run_type<T, G, V>(name: &'static str, gen: G, v: &V, ctx: &Ctx, alts: &[bool], res: &mut TypedResult)
where
    T: Serialize + DeserializeOwned + Debug,
    G: Fn(u64, bool) -> (T, u32, Expect) + Sync,
    V: Visitor,
{
    let (_, nbits, _) = gen(0, false);
    let masks: Vec<(u64, bool)> = (0..(1u64 << nbits)).flat_map(|m| alts.iter().map(move |a| (m, *a))).collect();
    let out = par_map(&masks, ctx.threads, |_, (m, a)| {
        let (item, _, exp) = gen(*m, *a);
        let enc = catch(|| serde_amqp::to_vec(&item)).ok().and_then(|r| r.ok()).map(|b| h64(&b));
        (v.visit(name, *m, *a, &item, &exp), enc)
    });
    let mut seen = std::collections::HashSet::new();
    for ((m, a), (fs, enc)) in masks.iter().zip(out) {
        if let Some(e) = enc {
            seen.insert(e);
        }
        for (sig, detail) in fs {
            res.fails.push((sig, detail, json!({"kind": "typed", "type": name, "mask": m, "alt": a})));
        }
    }
    res.evaluations += masks.len() as u64;
    res.distinct += seen.len() as u64;
    res.types.push(format!("{name}:2^{nbits}"));
    if res.samples.len() < 6 {
        let (item, _, _) = gen((1u64 << nbits) - 1, false);
        res.samples.push(format!(
            "{name} mask=all -> {}",
            hex(&serde_amqp::to_vec(&item).unwrap_or_default())
        ));
    }
}

pub fn enumerate<V: Visitor>(v: &V, ctx: &Ctx) -> TypedResult {
    let mut res = TypedResult {
        evaluations: 0,
        distinct: 0,
        fails: vec![],
        types: vec![],
        samples: vec![],
    };
    let both = [false, true];
    let one = [false];
    let alts: &[bool] = if ctx.quick() { &one } else { &both };
    // small types always get both representatives
    run_type("error", gen_error, v, ctx, &both, &mut res);
    run_type("open", gen_open, v, ctx, &both, &mut res);
    run_type("begin", gen_begin, v, ctx, &both, &mut res);
    run_type("attach", gen_attach, v, ctx, alts, &mut res);
    run_type("flow", gen_flow, v, ctx, &both, &mut res);
    run_type("transfer", gen_transfer, v, ctx, &both, &mut res);
    run_type("disposition", gen_disposition, v, ctx, &both, &mut res);
    run_type("detach", gen_detach, v, ctx, &both, &mut res);
    run_type("end", gen_end, v, ctx, &both, &mut res);
    run_type("close", gen_close, v, ctx, &both, &mut res);
    run_type("source", gen_source, v, ctx, &both, &mut res);
    run_type("target", gen_target, v, ctx, &both, &mut res);
    run_type("coordinator", gen_coordinator, v, ctx, &both, &mut res);
    run_type("header", gen_header, v, ctx, &both, &mut res);
    run_type("properties", gen_properties, v, ctx, alts, &mut res);
    run_type("received", gen_received, v, ctx, &both, &mut res);
    run_type("accepted", gen_accepted, v, ctx, &one, &mut res);
    run_type("released", gen_released, v, ctx, &one, &mut res);
    run_type("rejected", gen_rejected, v, ctx, &both, &mut res);
    run_type("modified", gen_modified, v, ctx, &both, &mut res);
    run_type("declare", gen_declare, v, ctx, &both, &mut res);
    run_type("discharge", gen_discharge, v, ctx, &both, &mut res);
    run_type("declared", gen_declared, v, ctx, &both, &mut res);
    run_type("transactional-state", gen_txn_state, v, ctx, &both, &mut res);
    run_type("sasl-mechanisms", gen_sasl_mechanisms, v, ctx, &both, &mut res);
    run_type("sasl-init", gen_sasl_init, v, ctx, &both, &mut res);
    run_type("sasl-challenge", gen_sasl_challenge, v, ctx, &both, &mut res);
    run_type("sasl-response", gen_sasl_response, v, ctx, &both, &mut res);
    run_type("sasl-outcome", gen_sasl_outcome, v, ctx, &both, &mut res);
    let n_sweep = sweep(v, None, &mut res);
    res.evaluations += n_sweep;
    res.distinct += n_sweep;
    res.types.push(format!("field-sweeps:{n_sweep}"));
    // messages: 2^6 section subsets x 6 body kinds x 2 representatives
    let masks: Vec<(u64, bool)> = (0..(6u64 << 6)).flat_map(|m| both.iter().map(move |a| (m, *a))).collect();
    let out = par_map(&masks, ctx.threads, |_, (m, a)| {
        let (msg, _, secs) = gen_message(*m, *a);
        v.visit_message(*m, *a, &msg, &secs)
    });
    for ((m, a), fs) in masks.iter().zip(out) {
        for (sig, detail) in fs {
            res.fails.push((sig, detail, json!({"kind": "typed", "type": "message", "mask": m, "alt": a})));
        }
    }
    res.evaluations += masks.len() as u64;
    res.distinct += masks.len() as u64;
    res.types.push("message:2^6 sections x 6 bodies".into());
    res
}

// ----------------------------------------------------------------------------- field sweeps
/// Items that vary ONE field of a composite over every variant of its union / enum type or over the
/// width boundaries of its integer type, all other optional fields absent.  `idx` identifies the item
/// for replay.  Returns the number of items visited.
pub fn sweep<V: Visitor>(v: &V, only: Option<u64>, res: &mut TypedResult) -> u64 {
    use fe2o3_amqp_types::transaction::TransactionError;
    let mut idx = 0u64;
    macro_rules! emit {
        ($ty:expr, $item:expr, $exp:expr) => {{
            if only.map(|o| o == idx).unwrap_or(true) {
                let item = $item;
                let exp = $exp;
                if only.is_some() {
                    println!("replaying sweep item {idx}: {:?}", item);
                }
                for (sig, detail) in v.visit($ty, idx, false, &item, &exp) {
                    res.fails.push((sig, detail, json!({"kind": "typed-sweep", "index": idx})));
                }
            }
            idx += 1;
        }};
    }
    let u32s = [0u32, 1, 255, 256, 65535, 65536, u32::MAX - 1, u32::MAX];
    let u64s = [0u64, 1, 255, 256, u32::MAX as u64, u32::MAX as u64 + 1, u64::MAX];
    // message-id / correlation-id: every variant, every ulong width
    let mut mids: Vec<(MessageId, RVal)> = u64s.iter().map(|x| (MessageId::Ulong(*x), RVal::Ulong(*x))).collect();
    mids.push((MessageId::Uuid(Uuid::from([0u8; 16])), RVal::Uuid([0; 16])));
    mids.push((MessageId::Uuid(Uuid::from([0xab; 16])), RVal::Uuid([0xab; 16])));
    for b in [vec![], vec![0u8], vec![7u8; 255], vec![7u8; 256]] {
        mids.push((MessageId::Binary(ByteBuf::from(b.clone())), RVal::Binary(b)));
    }
    for st in ["", "a", "é", &"x".repeat(255), &"x".repeat(256)] {
        mids.push((MessageId::String(st.to_string()), rstr(st)));
    }
    for (m, r) in &mids {
        let (mut p, _, mut e) = gen_properties(0, false);
        p.message_id = Some(m.clone());
        e.fields[0] = Exp::Is(r.clone());
        emit!("properties", p, e);
        let (mut p, _, mut e) = gen_properties(0, false);
        p.correlation_id = Some(m.clone());
        e.fields[5] = Exp::Is(r.clone());
        emit!("properties", p, e);
    }
    for x in u32s {
        let (mut p, _, mut e) = gen_properties(0, false);
        p.group_sequence = Some(x);
        e.fields[11] = Exp::Is(RVal::Uint(x));
        emit!("properties", p, e);
    }
    for t in [i64::MIN, -1, 0, 1, i64::MAX] {
        let (mut p, _, mut e) = gen_properties(0, false);
        p.creation_time = Some(Timestamp::from(t));
        e.fields[9] = Exp::Is(RVal::Timestamp(t));
        emit!("properties", p, e);
    }
    // every error condition
    let mut conds: Vec<(ErrorCondition, &str)> = vec![];
    for (c, n) in [
        (AmqpError::InternalError, "amqp:internal-error"),
        (AmqpError::NotFound, "amqp:not-found"),
        (AmqpError::UnauthorizedAccess, "amqp:unauthorized-access"),
        (AmqpError::DecodeError, "amqp:decode-error"),
        (AmqpError::ResourceLimitExceeded, "amqp:resource-limit-exceeded"),
        (AmqpError::NotAllowed, "amqp:not-allowed"),
        (AmqpError::InvalidField, "amqp:invalid-field"),
        (AmqpError::NotImplemented, "amqp:not-implemented"),
        (AmqpError::ResourceLocked, "amqp:resource-locked"),
        (AmqpError::PreconditionFailed, "amqp:precondition-failed"),
        (AmqpError::ResourceDeleted, "amqp:resource-deleted"),
        (AmqpError::IllegalState, "amqp:illegal-state"),
        (AmqpError::FrameSizeTooSmall, "amqp:frame-size-too-small"),
    ] {
        conds.push((ErrorCondition::AmqpError(c), n));
    }
    for (c, n) in [
        (ConnectionError::ConnectionForced, "amqp:connection:forced"),
        (ConnectionError::FramingError, "amqp:connection:framing-error"),
        (ConnectionError::Redirect, "amqp:connection:redirect"),
    ] {
        conds.push((ErrorCondition::ConnectionError(c), n));
    }
    for (c, n) in [
        (SessionError::WindowViolation, "amqp:session:window-violation"),
        (SessionError::ErrantLink, "amqp:session:errant-link"),
        (SessionError::HandleInUse, "amqp:session:handle-in-use"),
        (SessionError::UnattachedHandle, "amqp:session:unattached-handle"),
    ] {
        conds.push((ErrorCondition::SessionError(c), n));
    }
    for (c, n) in [
        (LinkError::DetachForced, "amqp:link:detach-forced"),
        (LinkError::TransferLimitExceeded, "amqp:link:transfer-limit-exceeded"),
        (LinkError::MessageSizeExceeded, "amqp:link:message-size-exceeded"),
        (LinkError::Redirect, "amqp:link:redirect"),
        (LinkError::Stolen, "amqp:link:stolen"),
    ] {
        conds.push((ErrorCondition::LinkError(c), n));
    }
    for (c, n) in [
        (TransactionError::UnknownId, "amqp:transaction:unknown-id"),
        (TransactionError::Rollback, "amqp:transaction:rollback"),
        (TransactionError::Timeout, "amqp:transaction:timeout"),
    ] {
        conds.push((ErrorCondition::TransactionError(c), n));
    }
    conds.push((ErrorCondition::Custom(Symbol::from("vendor:custom-error")), "vendor:custom-error"));
    for (c, n) in &conds {
        let e = AmqpErr {
            condition: c.clone(),
            description: None,
            info: None,
        };
        emit!(
            "error",
            e.clone(),
            Expect {
                composite: "error",
                fields: vec![Exp::Is(rs(n)), Exp::Is(RVal::Null), Exp::Is(RVal::Null)]
            }
        );
        // nested in close / end / detach / rejected
        let re = desc(0x1d, vec![rs(n)]);
        emit!(
            "close",
            Close { error: Some(e.clone()) },
            Expect {
                composite: "close",
                fields: vec![Exp::Is(re.clone())]
            }
        );
        emit!(
            "rejected",
            Rejected { error: Some(e.clone()) },
            Expect {
                composite: "rejected",
                fields: vec![Exp::Is(re.clone())]
            }
        );
    }
    // every delivery state inside transfer.state and disposition.state
    let (err, rerr) = an_error(true);
    let states: Vec<(DeliveryState, RVal)> = vec![
        (DeliveryState::Accepted(Accepted {}), desc(0x24, vec![])),
        (DeliveryState::Released(Released {}), desc(0x26, vec![])),
        (DeliveryState::Rejected(Rejected { error: None }), desc(0x25, vec![])),
        (DeliveryState::Rejected(Rejected { error: Some(err) }), desc(0x25, vec![rerr])),
        (
            DeliveryState::Modified(Modified {
                delivery_failed: None,
                undeliverable_here: None,
                message_annotations: None,
            }),
            desc(0x27, vec![]),
        ),
        (
            DeliveryState::Modified(Modified {
                delivery_failed: Some(false),
                undeliverable_here: Some(true),
                message_annotations: None,
            }),
            desc(0x27, vec![RVal::Bool(false), RVal::Bool(true)]),
        ),
        (
            DeliveryState::Received(Received {
                section_number: 0,
                section_offset: 0,
            }),
            desc(0x23, vec![RVal::Uint(0), RVal::Ulong(0)]),
        ),
        (
            DeliveryState::Received(Received {
                section_number: u32::MAX,
                section_offset: u64::MAX,
            }),
            desc(0x23, vec![RVal::Uint(u32::MAX), RVal::Ulong(u64::MAX)]),
        ),
        (
            DeliveryState::Declared(Declared {
                txn_id: ByteBuf::from(vec![1, 2, 3]),
            }),
            desc(0x33, vec![RVal::Binary(vec![1, 2, 3])]),
        ),
        (
            DeliveryState::TransactionalState(TransactionalState {
                txn_id: ByteBuf::from(vec![9]),
                outcome: Some(Outcome::Rejected(Rejected { error: None })),
            }),
            desc(0x34, vec![RVal::Binary(vec![9]), desc(0x25, vec![])]),
        ),
    ];
    for (st, r) in &states {
        let (mut t, _, mut e) = gen_transfer(0, false);
        t.state = Some(st.clone());
        e.fields[7] = Exp::Is(r.clone());
        emit!("transfer", t, e);
        let (mut d, _, mut e) = gen_disposition(0, false);
        d.state = Some(st.clone());
        e.fields[4] = Exp::Is(r.clone());
        emit!("disposition", d, e);
    }
    // integer boundaries of single fields
    for x in u32s {
        let (mut t, _, mut e) = gen_transfer(0, false);
        t.handle = Handle(x);
        e.fields[0] = Exp::Is(RVal::Uint(x));
        t.delivery_id = Some(x);
        e.fields[1] = Exp::Is(RVal::Uint(x));
        t.message_format = Some(x);
        e.fields[3] = Exp::Is(RVal::Uint(x));
        emit!("transfer", t, e);
        let (mut f, _, mut e) = gen_flow(0, false);
        f.next_incoming_id = Some(x);
        e.fields[0] = Exp::Is(RVal::Uint(x));
        f.incoming_window = x;
        e.fields[1] = Exp::Is(RVal::Uint(x));
        f.next_outgoing_id = x;
        e.fields[2] = Exp::Is(RVal::Uint(x));
        f.outgoing_window = x;
        e.fields[3] = Exp::Is(RVal::Uint(x));
        f.handle = Some(Handle(x));
        e.fields[4] = Exp::Is(RVal::Uint(x));
        f.delivery_count = Some(x);
        e.fields[5] = Exp::Is(RVal::Uint(x));
        f.link_credit = Some(x);
        e.fields[6] = Exp::Is(RVal::Uint(x));
        f.available = Some(x);
        e.fields[7] = Exp::Is(RVal::Uint(x));
        emit!("flow", f, e);
        let (mut d, _, mut e) = gen_disposition(0, false);
        d.first = x;
        e.fields[1] = Exp::Is(RVal::Uint(x));
        d.last = Some(x);
        e.fields[2] = Exp::Is(RVal::Uint(x));
        emit!("disposition", d, e);
        let (mut b, _, mut e) = gen_begin(0, false);
        b.next_outgoing_id = x;
        e.fields[1] = Exp::Is(RVal::Uint(x));
        b.incoming_window = x;
        e.fields[2] = Exp::Is(RVal::Uint(x));
        b.outgoing_window = x;
        e.fields[3] = Exp::Is(RVal::Uint(x));
        if x != u32::MAX {
            b.handle_max = Handle(x);
            e.fields[4] = Exp::Is(RVal::Uint(x));
        }
        emit!("begin", b, e);
        let (mut o, _, mut e) = gen_open(0, false);
        if x != u32::MAX {
            o.max_frame_size = MaxFrameSize(x);
            e.fields[2] = Exp::Is(RVal::Uint(x));
        }
        o.idle_time_out = Some(x);
        e.fields[4] = Exp::Is(RVal::Uint(x));
        emit!("open", o, e);
        let (mut a, _, mut e) = gen_attach(0, false);
        a.handle = Handle(x);
        e.fields[1] = Exp::Is(RVal::Uint(x));
        a.initial_delivery_count = Some(x);
        e.fields[9] = Exp::Is(RVal::Uint(x));
        emit!("attach", a, e);
        let (mut h, _, mut e) = gen_header(0, false);
        h.ttl = Some(x);
        e.fields[2] = Exp::Is(RVal::Uint(x));
        if x != 0 {
            h.delivery_count = x;
            e.fields[4] = Exp::Is(RVal::Uint(x));
        }
        emit!("header", h, e);
    }
    for x in [0u16, 1, 255, 256, u16::MAX - 1] {
        let (mut o, _, mut e) = gen_open(0, false);
        o.channel_max = ChannelMax(x);
        e.fields[3] = Exp::Is(RVal::Ushort(x));
        emit!("open", o, e);
        let (mut b, _, mut e) = gen_begin(0, false);
        b.remote_channel = Some(x);
        e.fields[0] = Exp::Is(RVal::Ushort(x));
        emit!("begin", b, e);
    }
    for x in u64s {
        let (mut a, _, mut e) = gen_attach(0, false);
        a.max_message_size = Some(x);
        e.fields[10] = Exp::Is(RVal::Ulong(x));
        emit!("attach", a, e);
    }
    for x in [0u8, 1, 3, 5, 255] {
        let (mut h, _, mut e) = gen_header(0, false);
        h.priority = Priority(x);
        e.fields[1] = Exp::Is(RVal::Ubyte(x));
        emit!("header", h, e);
    }
    // settle modes, roles, durability, expiry, distribution mode, sasl codes, txn capabilities
    for (m, r) in [(SenderSettleMode::Unsettled, 0u8), (SenderSettleMode::Settled, 1)] {
        let (mut a, _, mut e) = gen_attach(0, false);
        a.snd_settle_mode = m;
        e.fields[3] = Exp::Is(RVal::Ubyte(r));
        emit!("attach", a, e);
    }
    for role in [Role::Sender, Role::Receiver] {
        let (mut a, _, mut e) = gen_attach(0, false);
        e.fields[2] = Exp::Is(RVal::Bool(role == Role::Receiver));
        a.role = role;
        emit!("attach", a, e);
    }
    // attach with a coordinator target
    {
        let (mut a, _, mut e) = gen_attach(0, false);
        a.target = Some(Box::new(TargetArchetype::Coordinator(Coordinator {
            capabilities: Some(Array(vec![TxnCapability::LocalTransactions])),
        })));
        e.fields[6] = Exp::Is(desc(0x30, vec![rs("amqp:local-transactions")]));
        // multiple field inside: single symbol or array both fine -> compare loosely by accepting either form
        e.fields[6] = Exp::Is(desc(0x30, vec![RVal::Array(refamqp::RType::Sym, vec![rs("amqp:local-transactions")])]));
        let _ = (a, e);
    }
    for (d, r) in [(TerminusDurability::None, 0u32), (TerminusDurability::Configuration, 1), (TerminusDurability::UnsettledState, 2)] {
        if r == 0 {
            continue;
        }
        let (mut t, _, mut e) = gen_target(0, false);
        t.durable = d.clone();
        e.fields[1] = Exp::Is(RVal::Uint(r));
        emit!("target", t, e);
        let (mut t, _, mut e) = gen_source(0, false);
        t.durable = d;
        e.fields[1] = Exp::Is(RVal::Uint(r));
        emit!("source", t, e);
    }
    for (p, n) in [
        (TerminusExpiryPolicy::LinkDetach, "link-detach"),
        (TerminusExpiryPolicy::ConnectionClose, "connection-close"),
        (TerminusExpiryPolicy::Never, "never"),
    ] {
        let (mut t, _, mut e) = gen_source(0, false);
        t.expiry_policy = p.clone();
        e.fields[2] = Exp::Is(rs(n));
        emit!("source", t, e);
        let (mut t, _, mut e) = gen_target(0, false);
        t.expiry_policy = p;
        e.fields[2] = Exp::Is(rs(n));
        emit!("target", t, e);
    }
    for (m, n) in [(DistributionMode::Move, "move"), (DistributionMode::Copy, "copy")] {
        let (mut t, _, mut e) = gen_source(0, false);
        t.distribution_mode = Some(m);
        e.fields[6] = Exp::Is(rs(n));
        emit!("source", t, e);
    }
    for (o, r) in [
        (Outcome::Accepted(Accepted {}), desc(0x24, vec![])),
        (Outcome::Released(Released {}), desc(0x26, vec![])),
        (Outcome::Rejected(Rejected { error: None }), desc(0x25, vec![])),
        (
            Outcome::Modified(Modified {
                delivery_failed: Some(true),
                undeliverable_here: None,
                message_annotations: None,
            }),
            desc(0x27, vec![RVal::Bool(true)]),
        ),
    ] {
        let (mut t, _, mut e) = gen_source(0, false);
        t.default_outcome = Some(o.clone());
        e.fields[8] = Exp::Is(r.clone());
        emit!("source", t, e);
        let (mut t, _, mut e) = gen_txn_state(0, false);
        t.outcome = Some(o);
        e.fields[1] = Exp::Is(r);
        emit!("transactional-state", t, e);
    }
    for (c, r) in [(SaslCode::Ok, 0u8), (SaslCode::Auth, 1), (SaslCode::Sys, 2), (SaslCode::SysPerm, 3), (SaslCode::SysTemp, 4)] {
        emit!(
            "sasl-outcome",
            SaslOutcome {
                code: c,
                additional_data: None
            },
            Expect {
                composite: "sasl-outcome",
                fields: vec![Exp::Is(RVal::Ubyte(r)), Exp::Is(RVal::Null)]
            }
        );
    }
    for (c, n) in [
        (TxnCapability::LocalTransactions, "amqp:local-transactions"),
        (TxnCapability::DistributedTransactions, "amqp:distributed-transactions"),
        (TxnCapability::PromotableTransactions, "amqp:promotable-transactions"),
        (TxnCapability::MultiTxnsPerSsn, "amqp:multi-txns-per-ssn"),
        (TxnCapability::MultiSsnsPerTxn, "amqp:multi-ssns-per-txn"),
    ] {
        emit!(
            "coordinator",
            Coordinator {
                capabilities: Some(Array(vec![c]))
            },
            Expect {
                composite: "coordinator",
                fields: vec![Exp::Multi(vec![rs(n)])]
            }
        );
    }
    // delivery tags of every length 0..=32, transaction ids
    for l in 0..=32usize {
        let tag: Vec<u8> = (0..l as u8).collect();
        let (mut t, _, mut e) = gen_transfer(0, false);
        t.delivery_tag = Some(ByteBuf::from(tag.clone()));
        e.fields[2] = Exp::Is(RVal::Binary(tag));
        emit!("transfer", t, e);
    }
    idx
}

/// dispatch one (type, mask, alt) case to the visitor - used by replay
pub fn visit_one<V: Visitor>(v: &V, ty: &str, mask: u64, alt: bool) -> Vec<(String, String)> {
    macro_rules! go {
        ($name:expr, $gen:ident) => {{
            let (item, _, exp) = $gen(mask, alt);
            println!("replaying {} mask={:#b} alt={}: {:?}", $name, mask, alt, item);
            v.visit($name, mask, alt, &item, &exp)
        }};
    }
    match ty {
        "error" => go!("error", gen_error),
        "open" => go!("open", gen_open),
        "begin" => go!("begin", gen_begin),
        "attach" => go!("attach", gen_attach),
        "flow" => go!("flow", gen_flow),
        "transfer" => go!("transfer", gen_transfer),
        "disposition" => go!("disposition", gen_disposition),
        "detach" => go!("detach", gen_detach),
        "end" => go!("end", gen_end),
        "close" => go!("close", gen_close),
        "source" => go!("source", gen_source),
        "target" => go!("target", gen_target),
        "coordinator" => go!("coordinator", gen_coordinator),
        "header" => go!("header", gen_header),
        "properties" => go!("properties", gen_properties),
        "received" => go!("received", gen_received),
        "accepted" => go!("accepted", gen_accepted),
        "released" => go!("released", gen_released),
        "rejected" => go!("rejected", gen_rejected),
        "modified" => go!("modified", gen_modified),
        "declare" => go!("declare", gen_declare),
        "discharge" => go!("discharge", gen_discharge),
        "declared" => go!("declared", gen_declared),
        "transactional-state" => go!("transactional-state", gen_txn_state),
        "sasl-mechanisms" => go!("sasl-mechanisms", gen_sasl_mechanisms),
        "sasl-init" => go!("sasl-init", gen_sasl_init),
        "sasl-challenge" => go!("sasl-challenge", gen_sasl_challenge),
        "sasl-response" => go!("sasl-response", gen_sasl_response),
        "sasl-outcome" => go!("sasl-outcome", gen_sasl_outcome),
        "message" => {
            let (m, _, secs) = gen_message(mask, alt);
            println!("replaying message mask={mask} alt={alt}: {:?}", m);
            v.visit_message(mask, alt, &m, &secs)
        }
        _ => vec![("replay".into(), format!("unknown type {ty}"))],
    }
}

// ----------------------------------------------------------------------------- C03: round trip
pub struct RoundTrip;

pub fn dbg<T: Debug>(t: &T) -> String {
    format!("{:?}", t)
}

impl Visitor for RoundTrip {
    fn visit<T: Serialize + DeserializeOwned + Debug>(&self, ty: &'static str, _mask: u64, _alt: bool, item: &T, _e: &Expect) -> Vec<(String, String)> {
        let mut f = vec![];
        let enc = match catch(|| serde_amqp::to_vec(item)) {
            Ok(Ok(b)) => b,
            Ok(Err(e)) => return vec![(format!("typed encode-error {ty}"), format!("{e}: {}", dbg(item)))],
            Err(p) => return vec![(format!("typed encode-panic {ty}"), format!("{p}: {}", dbg(item)))],
        };
        for (how, r) in [
            ("slice", catch(|| serde_amqp::from_slice::<T>(&enc))),
            ("reader", catch(|| serde_amqp::from_reader::<T>(std::io::Cursor::new(&enc)))),
        ] {
            match r {
                Ok(Ok(back)) => {
                    if dbg(&back) != dbg(item) {
                        f.push((
                            format!("typed roundtrip({how}) {ty}"),
                            format!("x={} bytes={} decoded={}", dbg(item), hex(&enc), dbg(&back)),
                        ));
                    }
                }
                Ok(Err(e)) => f.push((format!("typed decode-error({how}) {ty}"), format!("{e}: x={} bytes={}", dbg(item), hex(&enc)))),
                Err(p) => f.push((format!("typed decode-panic({how}) {ty}"), format!("{p}: bytes={}", hex(&enc)))),
            }
        }
        f
    }
    fn visit_message(&self, _mask: u64, _alt: bool, m: &Message<Body<Value>>, _secs: &[RVal]) -> Vec<(String, String)> {
        let mut f = vec![];
        let enc = match catch(|| serde_amqp::to_vec(&Serializable(m))) {
            Ok(Ok(b)) => b,
            Ok(Err(e)) => return vec![("typed encode-error message".into(), format!("{e}: {}", dbg(m)))],
            Err(p) => return vec![("typed encode-panic message".into(), format!("{p}: {}", dbg(m)))],
        };
        for (how, r) in [
            ("slice", catch(|| serde_amqp::from_slice::<Deserializable<Message<Body<Value>>>>(&enc))),
            (
                "reader",
                catch(|| serde_amqp::from_reader::<Deserializable<Message<Body<Value>>>>(std::io::Cursor::new(&enc))),
            ),
        ] {
            match r {
                Ok(Ok(back)) => {
                    // `Body::Empty` is a library convenience, not an AMQP body kind (the spec requires a
                    // body section): it is written as amqp-value(null); reading that back as either form is fine
                    let empty_ok = matches!(m.body, Body::Empty)
                        && matches!(&back.0.body, Body::Empty | Body::Value(AmqpValue(Value::Null)))
                        && {
                            let mut b = back.0.clone();
                            b.body = Body::Empty;
                            &b == m
                        };
                    if &back.0 != m && !empty_ok {
                        f.push((
                            format!("typed roundtrip({how}) message body={}", body_kind(m)),
                            format!("x={} bytes={} decoded={}", dbg(m), hex(&enc), dbg(&back.0)),
                        ));
                    }
                }
                Ok(Err(e)) => f.push((
                    format!("typed decode-error({how}) message body={}", body_kind(m)),
                    format!("{e}: x={} bytes={}", dbg(m), hex(&enc)),
                )),
                Err(p) => f.push((format!("typed decode-panic({how}) message"), format!("{p}: bytes={}", hex(&enc)))),
            }
        }
        f
    }
}

pub fn body_kind(m: &Message<Body<Value>>) -> &'static str {
    match &m.body {
        Body::Value(_) => "value",
        Body::Data(_) => "data",
        Body::Sequence(_) => "sequence",
        Body::Empty => "empty",
    }
}

pub fn run_roundtrip(ctx: &Ctx) -> TypedResult {
    enumerate(&RoundTrip, ctx)
}

pub fn replay_sweep<V: Visitor>(v: &V, r: &serde_json::Value) -> Vec<Fail3> {
    let mut res = TypedResult {
        evaluations: 0,
        distinct: 0,
        fails: vec![],
        types: vec![],
        samples: vec![],
    };
    sweep(v, r["index"].as_u64(), &mut res);
    res.fails
}

pub fn replay_one(r: &serde_json::Value) -> Vec<Fail3> {
    if r["kind"] == "typed-sweep" {
        return replay_sweep(&RoundTrip, r);
    }
    let ty = r["type"].as_str().unwrap_or("");
    let mask = r["mask"].as_u64().unwrap_or(0);
    let alt = r["alt"].as_bool().unwrap_or(false);
    visit_one(&RoundTrip, ty, mask, alt)
        .into_iter()
        .map(|(s, d)| (s, d, r.clone()))
        .collect()
}

#[allow(dead_code)]
pub fn unused(_: RType) {}

/// Decode `enc` through the enum that selects its variant by peeking the descriptor (Performative,
/// DeliveryState, Outcome, SASL frame, TargetArchetype) for the composite `ty`.  Returns the Debug
/// rendering of what was decoded for each applicable wrapper, together with the rendering expected
/// for an item whose own Debug rendering is `item_dbg`.
pub fn wrapper_decodes(ty: &str, enc: &[u8], item_dbg: &str, reader: bool) -> Vec<(&'static str, String, Result<String, String>)> {
    fn dec<T: DeserializeOwned + Debug>(enc: &[u8], reader: bool) -> Result<String, String> {
        let r = if reader {
            catch(|| serde_amqp::from_reader::<T>(std::io::Cursor::new(enc)))
        } else {
            catch(|| serde_amqp::from_slice::<T>(enc))
        };
        match r {
            Ok(Ok(v)) => Ok(format!("{:?}", v)),
            Ok(Err(e)) => Err(format!("rejected: {e}")),
            Err(p) => Err(format!("panic: {p}")),
        }
    }
    let mut out = vec![];
    let perf = |v: &str| format!("{v}({item_dbg})");
    match ty {
        "open" => out.push(("Performative", perf("Open"), dec::<Performative>(enc, reader))),
        "begin" => out.push(("Performative", perf("Begin"), dec::<Performative>(enc, reader))),
        "attach" => out.push(("Performative", perf("Attach"), dec::<Performative>(enc, reader))),
        "flow" => out.push(("Performative", perf("Flow"), dec::<Performative>(enc, reader))),
        "transfer" => out.push(("Performative", perf("Transfer"), dec::<Performative>(enc, reader))),
        "disposition" => out.push(("Performative", perf("Disposition"), dec::<Performative>(enc, reader))),
        "detach" => out.push(("Performative", perf("Detach"), dec::<Performative>(enc, reader))),
        "end" => out.push(("Performative", perf("End"), dec::<Performative>(enc, reader))),
        "close" => out.push(("Performative", perf("Close"), dec::<Performative>(enc, reader))),
        "received" => out.push(("DeliveryState", perf("Received"), dec::<DeliveryState>(enc, reader))),
        "accepted" | "rejected" | "released" | "modified" | "declared" => {
            let v = match ty {
                "accepted" => "Accepted",
                "rejected" => "Rejected",
                "released" => "Released",
                "modified" => "Modified",
                _ => "Declared",
            };
            out.push(("DeliveryState", perf(v), dec::<DeliveryState>(enc, reader)));
            out.push(("Outcome", perf(v), dec::<Outcome>(enc, reader)));
        }
        "transactional-state" => out.push(("DeliveryState", perf("TransactionalState"), dec::<DeliveryState>(enc, reader))),
        "target" => out.push(("TargetArchetype", perf("Target"), dec::<TargetArchetype>(enc, reader))),
        "coordinator" => out.push(("TargetArchetype", perf("Coordinator"), dec::<TargetArchetype>(enc, reader))),
        "sasl-mechanisms" => out.push(("SaslFrame", perf("Mechanisms"), dec::<fe2o3_amqp::frames::sasl::Frame>(enc, reader))),
        "sasl-init" => out.push(("SaslFrame", perf("Init"), dec::<fe2o3_amqp::frames::sasl::Frame>(enc, reader))),
        "sasl-challenge" => out.push(("SaslFrame", perf("Challenge"), dec::<fe2o3_amqp::frames::sasl::Frame>(enc, reader))),
        "sasl-response" => out.push(("SaslFrame", perf("Response"), dec::<fe2o3_amqp::frames::sasl::Frame>(enc, reader))),
        "sasl-outcome" => out.push(("SaslFrame", perf("Outcome"), dec::<fe2o3_amqp::frames::sasl::Frame>(enc, reader))),
        _ => {}
    }
    out
}
