//! Typed protocol items: every composite of fe2o3-amqp-types with every presence subset of its
//! optional fields, each together with the field values the AMQP specification says must appear on
//! the wire (as reference `RVal`s, built here independently of the library's codec).
use fe2o3_amqp_types::definitions::{
    AmqpError, ConnectionError, Error as AmqpErr, ErrorCondition, Handle, LinkError, ReceiverSettleMode, Role, SenderSettleMode,
    SessionError,
};
use fe2o3_amqp_types::messaging::message::__private::{Deserializable, Serializable};
use fe2o3_amqp_types::messaging::{
    Accepted, AmqpSequence, AmqpValue, ApplicationProperties, Batch, Body, Data, DeliveryAnnotations, DeliveryState,
    DistributionMode, Footer, Header, Message, MessageAnnotations, MessageId, Modified, Outcome, Priority, Properties, Received,
    Rejected, Released, Source, Target, TargetArchetype, TerminusDurability, TerminusExpiryPolicy,
};
use fe2o3_amqp_types::performatives::*;
use fe2o3_amqp_types::primitives::SimpleValue;
use fe2o3_amqp_types::sasl::{SaslChallenge, SaslCode, SaslInit, SaslMechanisms, SaslOutcome, SaslResponse};
use fe2o3_amqp_types::transaction::{Coordinator, Declare, Declared, Discharge, TransactionalState, TxnCapability};
use refamqp::{RType, RVal};
use serde::de::DeserializeOwned;
use serde::Serialize;
use serde_amqp::primitives::{Array, OrderedMap, Symbol, Timestamp, Uuid};
use serde_amqp::Value;
use serde_bytes::ByteBuf;
use serde_json::json;
use std::fmt::Debug;
use vlib::report::Ctx;
use vlib::util::{catch, h64, hex, par_map};

#[derive(Debug, Clone)]
pub enum Exp {
    /// exactly this value (Null = field absent)
    Is(RVal),
    /// the field has a default: null or the explicit default value are both correct
    NullOr(RVal),
    /// a `multiple` field: a single value (if one element) or an array of the values
    Multi(Vec<RVal>),
}

#[derive(Debug, Clone)]
pub struct Expect {
    pub composite: &'static str,
    pub fields: Vec<Exp>,
}

pub struct B {
    mask: u64,
    bit: u32,
    pub alt: bool,
    exp: Vec<Exp>,
}

fn rs(s: &str) -> RVal {
    RVal::Sym(s.as_bytes().to_vec())
}
fn rstr(s: &str) -> RVal {
    RVal::Str(s.to_string())
}

impl B {
    fn new(mask: u64, alt: bool) -> Self {
        B {
            mask,
            bit: 0,
            alt,
            exp: vec![],
        }
    }
    fn take(&mut self) -> bool {
        let b = (self.mask >> self.bit) & 1 == 1;
        self.bit += 1;
        b
    }
    fn req<T>(&mut self, v: T, r: RVal) -> T {
        self.exp.push(Exp::Is(r));
        v
    }
    fn opt<T>(&mut self, v: T, r: RVal) -> Option<T> {
        if self.take() {
            self.exp.push(Exp::Is(r));
            Some(v)
        } else {
            self.exp.push(Exp::Is(RVal::Null));
            None
        }
    }
    fn dflt<T>(&mut self, nd: T, rnd: RVal, d: T, rd: RVal) -> T {
        if self.take() {
            self.exp.push(Exp::Is(rnd));
            nd
        } else {
            self.exp.push(Exp::NullOr(rd));
            d
        }
    }
    fn multi(&mut self, names: &[&str]) -> Option<Array<Symbol>> {
        if self.take() {
            self.exp.push(Exp::Multi(names.iter().map(|s| rs(s)).collect()));
            Some(Array(names.iter().map(|s| Symbol::from(*s)).collect()))
        } else {
            self.exp.push(Exp::Is(RVal::Null));
            None
        }
    }
    fn fields(&mut self) -> Option<OrderedMap<Symbol, Value>> {
        let alt = self.alt;
        if self.take() {
            let mut m = OrderedMap::new();
            m.insert(Symbol::from("k1"), Value::Uint(1));
            let mut r = vec![(rs("k1"), RVal::Uint(1))];
            if alt {
                m.insert(Symbol::from("k2"), Value::String("vé".into()));
                r.push((rs("k2"), rstr("vé")));
            }
            self.exp.push(Exp::Is(RVal::Map(r)));
            Some(m)
        } else {
            self.exp.push(Exp::Is(RVal::Null));
            None
        }
    }
    fn done(self, composite: &'static str) -> (u32, Expect) {
        (
            self.bit,
            Expect {
                composite,
                fields: self.exp,
            },
        )
    }
}

fn desc(code: u64, fields: Vec<RVal>) -> RVal {
    RVal::Described(Box::new(RVal::Ulong(code)), Box::new(RVal::List(fields)))
}

// ----------------------------------------------------------------------------- generators
// Each returns (item, number of mask bits used, expectation).

pub fn gen_error(mask: u64, alt: bool) -> (AmqpErr, u32, Expect) {
    let mut b = B::new(mask, alt);
    let (cond, rc) = if alt {
        (ErrorCondition::LinkError(LinkError::TransferLimitExceeded), rs("amqp:link:transfer-limit-exceeded"))
    } else {
        (ErrorCondition::AmqpError(AmqpError::InternalError), rs("amqp:internal-error"))
    };
    let e = AmqpErr {
        condition: b.req(cond, rc),
        description: b.opt("déscription".to_string(), rstr("déscription")),
        info: b.fields().map(Box::new),
    };
    let (n, x) = b.done("error");
    (e, n, x)
}

fn an_error(alt: bool) -> (AmqpErr, RVal) {
    if alt {
        (
            AmqpErr {
                condition: ErrorCondition::SessionError(SessionError::WindowViolation),
                description: Some("w".into()),
                info: None,
            },
            desc(0x1d, vec![rs("amqp:session:window-violation"), rstr("w")]),
        )
    } else {
        (
            AmqpErr {
                condition: ErrorCondition::ConnectionError(ConnectionError::FramingError),
                description: None,
                info: None,
            },
            desc(0x1d, vec![rs("amqp:connection:framing-error")]),
        )
    }
}

pub fn gen_open(mask: u64, alt: bool) -> (Open, u32, Expect) {
    let mut b = B::new(mask, alt);
    let o = Open {
        container_id: b.req(if alt { "cöntainer".into() } else { "c".into() }, rstr(if alt { "cöntainer" } else { "c" })),
        hostname: b.opt("host.example".to_string(), rstr("host.example")),
        max_frame_size: b.dflt(MaxFrameSize(if alt { 512 } else { 65536 }), RVal::Uint(if alt { 512 } else { 65536 }), MaxFrameSize(u32::MAX), RVal::Uint(u32::MAX)),
        channel_max: b.dflt(ChannelMax(if alt { 0 } else { 255 }), RVal::Ushort(if alt { 0 } else { 255 }), ChannelMax(u16::MAX), RVal::Ushort(u16::MAX)),
        idle_time_out: b.opt(if alt { 0 } else { 30_000 }, RVal::Uint(if alt { 0 } else { 30_000 })),
        outgoing_locales: b.multi(if alt { &["en-US", "de"] } else { &["en-US"] }),
        incoming_locales: b.multi(&["fr"]),
        offered_capabilities: b.multi(if alt { &["cap1"] } else { &["cap1", "cap2", "cap3"] }),
        desired_capabilities: b.multi(&["d1", "d2"]),
        properties: b.fields(),
    };
    let (n, x) = b.done("open");
    (o, n, x)
}

pub fn gen_begin(mask: u64, alt: bool) -> (Begin, u32, Expect) {
    let mut b = B::new(mask, alt);
    let o = Begin {
        remote_channel: b.opt(if alt { 65535 } else { 1 }, RVal::Ushort(if alt { 65535 } else { 1 })),
        next_outgoing_id: b.req(if alt { u32::MAX - 1 } else { 0 }, RVal::Uint(if alt { u32::MAX - 1 } else { 0 })),
        incoming_window: b.req(if alt { 0 } else { 2048 }, RVal::Uint(if alt { 0 } else { 2048 })),
        outgoing_window: b.req(if alt { u32::MAX } else { 1 }, RVal::Uint(if alt { u32::MAX } else { 1 })),
        handle_max: b.dflt(Handle(if alt { 0 } else { 7 }), RVal::Uint(if alt { 0 } else { 7 }), Handle(u32::MAX), RVal::Uint(u32::MAX)),
        offered_capabilities: b.multi(&["o"]),
        desired_capabilities: b.multi(&["d", "e"]),
        properties: b.fields(),
    };
    let (n, x) = b.done("begin");
    (o, n, x)
}

fn a_source(alt: bool) -> (Source, RVal) {
    if alt {
        let (s, _, e) = gen_source(0b101_0000_0001, false);
        (s, expect_to_rval(0x28, &e))
    } else {
        (
            Source {
                address: Some("q1".into()),
                ..Default::default()
            },
            desc(0x28, vec![rstr("q1")]),
        )
    }
}
fn a_target(alt: bool) -> (Target, RVal) {
    if alt {
        let (s, _, e) = gen_target(0b100_0011, false);
        (s, expect_to_rval(0x29, &e))
    } else {
        (
            Target {
                address: Some("q1".into()),
                ..Default::default()
            },
            desc(0x29, vec![rstr("q1")]),
        )
    }
}

/// the canonical reference value of an expectation (defaults elided as null, trailing nulls dropped, multi as array)
pub fn expect_to_rval(code: u64, e: &Expect) -> RVal {
    let mut f: Vec<RVal> = e
        .fields
        .iter()
        .map(|x| match x {
            Exp::Is(r) => r.clone(),
            Exp::NullOr(_) => RVal::Null,
            Exp::Multi(v) => RVal::Array(v[0].rtype(), v.clone()),
        })
        .collect();
    while f.last() == Some(&RVal::Null) {
        f.pop();
    }
    desc(code, f)
}

pub fn gen_attach(mask: u64, alt: bool) -> (Attach, u32, Expect) {
    let mut b = B::new(mask, alt);
    let (src, rsrc) = a_source(alt);
    let (tgt, rtgt) = a_target(alt);
    let mut um = OrderedMap::new();
    um.insert(ByteBuf::from(vec![1u8, 2]), Some(DeliveryState::Accepted(Accepted {})));
    um.insert(ByteBuf::from(vec![3u8]), None);
    let rum = RVal::Map(vec![
        (RVal::Binary(vec![1, 2]), desc(0x24, vec![])),
        (RVal::Binary(vec![3]), RVal::Null),
    ]);
    let o = Attach {
        name: b.req(if alt { "lïnk".into() } else { "l".into() }, rstr(if alt { "lïnk" } else { "l" })),
        handle: b.req(Handle(if alt { u32::MAX } else { 0 }), RVal::Uint(if alt { u32::MAX } else { 0 })),
        role: b.req(if alt { Role::Receiver } else { Role::Sender }, RVal::Bool(alt)),
        snd_settle_mode: b.dflt(
            if alt { SenderSettleMode::Unsettled } else { SenderSettleMode::Settled },
            RVal::Ubyte(if alt { 0 } else { 1 }),
            SenderSettleMode::Mixed,
            RVal::Ubyte(2),
        ),
        rcv_settle_mode: b.dflt(ReceiverSettleMode::Second, RVal::Ubyte(1), ReceiverSettleMode::First, RVal::Ubyte(0)),
        source: b.opt(Box::new(src), rsrc),
        target: b.opt(Box::new(TargetArchetype::Target(tgt)), rtgt),
        unsettled: b.opt(um, rum),
        incomplete_unsettled: b.dflt(true, RVal::Bool(true), false, RVal::Bool(false)),
        initial_delivery_count: b.opt(if alt { u32::MAX } else { 0 }, RVal::Uint(if alt { u32::MAX } else { 0 })),
        max_message_size: b.opt(if alt { u64::MAX } else { 1000 }, RVal::Ulong(if alt { u64::MAX } else { 1000 })),
        offered_capabilities: b.multi(&["o1"]),
        desired_capabilities: b.multi(&["d1", "d2"]),
        properties: b.fields(),
    };
    let (n, x) = b.done("attach");
    (o, n, x)
}

pub fn gen_flow(mask: u64, alt: bool) -> (Flow, u32, Expect) {
    let mut b = B::new(mask, alt);
    let big = if alt { u32::MAX } else { 5 };
    let o = Flow {
        next_incoming_id: b.opt(big, RVal::Uint(big)),
        incoming_window: b.req(if alt { 0 } else { 100 }, RVal::Uint(if alt { 0 } else { 100 })),
        next_outgoing_id: b.req(big, RVal::Uint(big)),
        outgoing_window: b.req(300, RVal::Uint(300)),
        handle: b.opt(Handle(if alt { 256 } else { 0 }), RVal::Uint(if alt { 256 } else { 0 })),
        delivery_count: b.opt(big, RVal::Uint(big)),
        link_credit: b.opt(if alt { 0 } else { 1000 }, RVal::Uint(if alt { 0 } else { 1000 })),
        available: b.opt(7, RVal::Uint(7)),
        drain: b.dflt(true, RVal::Bool(true), false, RVal::Bool(false)),
        echo: b.dflt(true, RVal::Bool(true), false, RVal::Bool(false)),
        properties: b.fields(),
    };
    let (n, x) = b.done("flow");
    (o, n, x)
}

fn a_state(alt: bool) -> (DeliveryState, RVal) {
    if alt {
        (
            DeliveryState::Modified(Modified {
                delivery_failed: Some(true),
                undeliverable_here: None,
                message_annotations: None,
            }),
            desc(0x27, vec![RVal::Bool(true)]),
        )
    } else {
        (
            DeliveryState::Received(Received {
                section_number: 1,
                section_offset: 300,
            }),
            desc(0x23, vec![RVal::Uint(1), RVal::Ulong(300)]),
        )
    }
}

pub fn gen_transfer(mask: u64, alt: bool) -> (Transfer, u32, Expect) {
    let mut b = B::new(mask, alt);
    let (st, rst) = a_state(alt);
    let tag: Vec<u8> = if alt { (0..32).collect() } else { vec![0, 0, 0, 1] };
    let o = Transfer {
        handle: b.req(Handle(if alt { 300 } else { 0 }), RVal::Uint(if alt { 300 } else { 0 })),
        delivery_id: b.opt(if alt { u32::MAX } else { 0 }, RVal::Uint(if alt { u32::MAX } else { 0 })),
        delivery_tag: b.opt(ByteBuf::from(tag.clone()), RVal::Binary(tag)),
        message_format: b.opt(if alt { 0x0100_0001 } else { 0 }, RVal::Uint(if alt { 0x0100_0001 } else { 0 })),
        settled: b.opt(alt, RVal::Bool(alt)),
        more: b.dflt(true, RVal::Bool(true), false, RVal::Bool(false)),
        rcv_settle_mode: b.opt(
            if alt { ReceiverSettleMode::First } else { ReceiverSettleMode::Second },
            RVal::Ubyte(if alt { 0 } else { 1 }),
        ),
        state: b.opt(st, rst),
        resume: b.dflt(true, RVal::Bool(true), false, RVal::Bool(false)),
        aborted: b.dflt(true, RVal::Bool(true), false, RVal::Bool(false)),
        batchable: b.dflt(true, RVal::Bool(true), false, RVal::Bool(false)),
    };
    let (n, x) = b.done("transfer");
    (o, n, x)
}

pub fn gen_disposition(mask: u64, alt: bool) -> (Disposition, u32, Expect) {
    let mut b = B::new(mask, alt);
    let (st, rst) = if alt {
        let (e, re) = an_error(true);
        (DeliveryState::Rejected(Rejected { error: Some(e) }), desc(0x25, vec![re]))
    } else {
        (DeliveryState::Accepted(Accepted {}), desc(0x24, vec![]))
    };
    let o = Disposition {
        role: b.req(if alt { Role::Sender } else { Role::Receiver }, RVal::Bool(!alt)),
        first: b.req(if alt { u32::MAX } else { 0 }, RVal::Uint(if alt { u32::MAX } else { 0 })),
        last: b.opt(if alt { 0 } else { 300 }, RVal::Uint(if alt { 0 } else { 300 })),
        settled: b.dflt(true, RVal::Bool(true), false, RVal::Bool(false)),
        state: b.opt(st, rst),
        batchable: b.dflt(true, RVal::Bool(true), false, RVal::Bool(false)),
    };
    let (n, x) = b.done("disposition");
    (o, n, x)
}

pub fn gen_detach(mask: u64, alt: bool) -> (Detach, u32, Expect) {
    let mut b = B::new(mask, alt);
    let (e, re) = an_error(alt);
    let o = Detach {
        handle: b.req(Handle(if alt { 70000 } else { 1 }), RVal::Uint(if alt { 70000 } else { 1 })),
        closed: b.dflt(true, RVal::Bool(true), false, RVal::Bool(false)),
        error: b.opt(e, re),
    };
    let (n, x) = b.done("detach");
    (o, n, x)
}
pub fn gen_end(mask: u64, alt: bool) -> (End, u32, Expect) {
    let mut b = B::new(mask, alt);
    let (e, re) = an_error(alt);
    let o = End { error: b.opt(e, re) };
    let (n, x) = b.done("end");
    (o, n, x)
}
pub fn gen_close(mask: u64, alt: bool) -> (Close, u32, Expect) {
    let mut b = B::new(mask, alt);
    let (e, re) = an_error(alt);
    let o = Close { error: b.opt(e, re) };
    let (n, x) = b.done("close");
    (o, n, x)
}

pub fn gen_source(mask: u64, alt: bool) -> (Source, u32, Expect) {
    let mut b = B::new(mask, alt);
    let mut filter = OrderedMap::new();
    filter.insert(
        Symbol::from("f"),
        Value::Described(Box::new(serde_amqp::described::Described {
            descriptor: serde_amqp::descriptor::Descriptor::Name(Symbol::from("apache.org:selector-filter:string")),
            value: Value::String("a=1".into()),
        })),
    );
    let rfilter = RVal::Map(vec![(
        rs("f"),
        RVal::Described(Box::new(rs("apache.org:selector-filter:string")), Box::new(rstr("a=1"))),
    )]);
    let o = Source {
        address: b.opt("addr".to_string(), rstr("addr")),
        durable: b.dflt(
            if alt { TerminusDurability::UnsettledState } else { TerminusDurability::Configuration },
            RVal::Uint(if alt { 2 } else { 1 }),
            TerminusDurability::None,
            RVal::Uint(0),
        ),
        expiry_policy: b.dflt(
            if alt { TerminusExpiryPolicy::Never } else { TerminusExpiryPolicy::LinkDetach },
            rs(if alt { "never" } else { "link-detach" }),
            TerminusExpiryPolicy::SessionEnd,
            rs("session-end"),
        ),
        timeout: b.dflt(60, RVal::Uint(60), 0, RVal::Uint(0)),
        dynamic: b.dflt(true, RVal::Bool(true), false, RVal::Bool(false)),
        dynamic_node_properties: b.fields(),
        distribution_mode: b.opt(
            if alt { DistributionMode::Copy } else { DistributionMode::Move },
            rs(if alt { "copy" } else { "move" }),
        ),
        filter: b.opt(filter, rfilter),
        default_outcome: b.opt(
            if alt {
                Outcome::Modified(Modified {
                    delivery_failed: None,
                    undeliverable_here: Some(true),
                    message_annotations: None,
                })
            } else {
                Outcome::Released(Released {})
            },
            if alt {
                desc(0x27, vec![RVal::Null, RVal::Bool(true)])
            } else {
                desc(0x26, vec![])
            },
        ),
        outcomes: b.multi(if alt { &["amqp:accepted:list"] } else { &["amqp:accepted:list", "amqp:rejected:list"] }),
        capabilities: b.multi(&["queue"]),
    };
    let (n, x) = b.done("source");
    (o, n, x)
}

pub fn gen_target(mask: u64, alt: bool) -> (Target, u32, Expect) {
    let mut b = B::new(mask, alt);
    let o = Target {
        address: b.opt("addr".to_string(), rstr("addr")),
        durable: b.dflt(TerminusDurability::Configuration, RVal::Uint(1), TerminusDurability::None, RVal::Uint(0)),
        expiry_policy: b.dflt(
            TerminusExpiryPolicy::ConnectionClose,
            rs("connection-close"),
            TerminusExpiryPolicy::SessionEnd,
            rs("session-end"),
        ),
        timeout: b.dflt(if alt { u32::MAX } else { 60 }, RVal::Uint(if alt { u32::MAX } else { 60 }), 0, RVal::Uint(0)),
        dynamic: b.dflt(true, RVal::Bool(true), false, RVal::Bool(false)),
        dynamic_node_properties: b.fields(),
        capabilities: b.multi(if alt { &["topic", "queue"] } else { &["topic"] }),
    };
    let (n, x) = b.done("target");
    (o, n, x)
}

pub fn gen_coordinator(mask: u64, alt: bool) -> (Coordinator, u32, Expect) {
    let mut b = B::new(mask, alt);
    let caps = if b.take() {
        if alt {
            b.exp.push(Exp::Multi(vec![rs("amqp:local-transactions"), rs("amqp:multi-txns-per-ssn")]));
            Some(Array(vec![TxnCapability::LocalTransactions, TxnCapability::MultiTxnsPerSsn]))
        } else {
            b.exp.push(Exp::Multi(vec![rs("amqp:local-transactions")]));
            Some(Array(vec![TxnCapability::LocalTransactions]))
        }
    } else {
        b.exp.push(Exp::Is(RVal::Null));
        None
    };
    let o = Coordinator { capabilities: caps };
    let (n, x) = b.done("coordinator");
    (o, n, x)
}

pub fn gen_header(mask: u64, alt: bool) -> (Header, u32, Expect) {
    let mut b = B::new(mask, alt);
    let o = Header {
        durable: b.dflt(true, RVal::Bool(true), false, RVal::Bool(false)),
        priority: b.dflt(Priority(if alt { 0 } else { 9 }), RVal::Ubyte(if alt { 0 } else { 9 }), Priority(4), RVal::Ubyte(4)),
        ttl: b.opt(if alt { u32::MAX } else { 0 }, RVal::Uint(if alt { u32::MAX } else { 0 })),
        first_acquirer: b.dflt(true, RVal::Bool(true), false, RVal::Bool(false)),
        delivery_count: b.dflt(if alt { 256 } else { 3 }, RVal::Uint(if alt { 256 } else { 3 }), 0, RVal::Uint(0)),
    };
    let (n, x) = b.done("header");
    (o, n, x)
}

pub fn gen_properties(mask: u64, alt: bool) -> (Properties, u32, Expect) {
    let mut b = B::new(mask, alt);
    let (mid, rmid) = if alt {
        (MessageId::Uuid(Uuid::from([5; 16])), RVal::Uuid([5; 16]))
    } else {
        (MessageId::Ulong(300), RVal::Ulong(300))
    };
    let (cid, rcid) = if alt {
        (MessageId::Binary(ByteBuf::from(vec![1, 2, 3])), RVal::Binary(vec![1, 2, 3]))
    } else {
        (MessageId::String("corr-é".into()), rstr("corr-é"))
    };
    let o = Properties {
        message_id: b.opt(mid, rmid),
        user_id: b.opt(ByteBuf::from(vec![0xff, 0]), RVal::Binary(vec![0xff, 0])),
        to: b.opt("to".to_string(), rstr("to")),
        subject: b.opt("sübject".to_string(), rstr("sübject")),
        reply_to: b.opt("rt".to_string(), rstr("rt")),
        correlation_id: b.opt(cid, rcid),
        content_type: b.opt(Symbol::from("text/plain"), rs("text/plain")),
        content_encoding: b.opt(Symbol::from("gzip"), rs("gzip")),
        absolute_expiry_time: b.opt(Timestamp::from(if alt { -1 } else { 1_700_000_000_000 }), RVal::Timestamp(if alt { -1 } else { 1_700_000_000_000 })),
        creation_time: b.opt(Timestamp::from(0), RVal::Timestamp(0)),
        group_id: b.opt("g".to_string(), rstr("g")),
        group_sequence: b.opt(if alt { u32::MAX } else { 0 }, RVal::Uint(if alt { u32::MAX } else { 0 })),
        reply_to_group_id: b.opt("rg".to_string(), rstr("rg")),
    };
    let (n, x) = b.done("properties");
    (o, n, x)
}

pub fn gen_received(mask: u64, alt: bool) -> (Received, u32, Expect) {
    let mut b = B::new(mask, alt);
    let o = Received {
        section_number: b.req(if alt { u32::MAX } else { 0 }, RVal::Uint(if alt { u32::MAX } else { 0 })),
        section_offset: b.req(if alt { u64::MAX } else { 255 }, RVal::Ulong(if alt { u64::MAX } else { 255 })),
    };
    let (n, x) = b.done("received");
    (o, n, x)
}
pub fn gen_rejected(mask: u64, alt: bool) -> (Rejected, u32, Expect) {
    let mut b = B::new(mask, alt);
    let (e, re) = an_error(alt);
    let o = Rejected { error: b.opt(e, re) };
    let (n, x) = b.done("rejected");
    (o, n, x)
}
pub fn gen_modified(mask: u64, alt: bool) -> (Modified, u32, Expect) {
    let mut b = B::new(mask, alt);
    let o = Modified {
        delivery_failed: b.opt(!alt, RVal::Bool(!alt)),
        undeliverable_here: b.opt(alt, RVal::Bool(alt)),
        message_annotations: b.fields(),
    };
    let (n, x) = b.done("modified");
    (o, n, x)
}
pub fn gen_declare(mask: u64, alt: bool) -> (Declare, u32, Expect) {
    let mut b = B::new(mask, alt);
    let o = Declare {
        global_id: b.opt(ByteBuf::from(vec![1, 2, 3]), RVal::Binary(vec![1, 2, 3])),
    };
    let (n, x) = b.done("declare");
    (o, n, x)
}
pub fn gen_discharge(mask: u64, alt: bool) -> (Discharge, u32, Expect) {
    let mut b = B::new(mask, alt);
    let id: Vec<u8> = if alt { vec![] } else { vec![9; 16] };
    let o = Discharge {
        txn_id: b.req(ByteBuf::from(id.clone()), RVal::Binary(id)),
        fail: b.opt(alt, RVal::Bool(alt)),
    };
    let (n, x) = b.done("discharge");
    (o, n, x)
}
pub fn gen_declared(mask: u64, alt: bool) -> (Declared, u32, Expect) {
    let mut b = B::new(mask, alt);
    let id: Vec<u8> = if alt { vec![0; 300] } else { vec![1] };
    let o = Declared {
        txn_id: b.req(ByteBuf::from(id.clone()), RVal::Binary(id)),
    };
    let (n, x) = b.done("declared");
    (o, n, x)
}
pub fn gen_txn_state(mask: u64, alt: bool) -> (TransactionalState, u32, Expect) {
    let mut b = B::new(mask, alt);
    let o = TransactionalState {
        txn_id: b.req(ByteBuf::from(vec![7, 7]), RVal::Binary(vec![7, 7])),
        outcome: b.opt(
            if alt { Outcome::Released(Released {}) } else { Outcome::Accepted(Accepted {}) },
            if alt { desc(0x26, vec![]) } else { desc(0x24, vec![]) },
        ),
    };
    let (n, x) = b.done("transactional-state");
    (o, n, x)
}
pub fn gen_sasl_mechanisms(mask: u64, alt: bool) -> (SaslMechanisms, u32, Expect) {
    let mut b = B::new(mask, alt);
    let names: &[&str] = if alt { &["PLAIN", "SCRAM-SHA-256", "ANONYMOUS"] } else { &["PLAIN"] };
    b.exp.push(Exp::Multi(names.iter().map(|s| rs(s)).collect()));
    let o = SaslMechanisms {
        sasl_server_mechanisms: Array(names.iter().map(|s| Symbol::from(*s)).collect()),
    };
    let (n, x) = b.done("sasl-mechanisms");
    (o, n, x)
}
pub fn gen_sasl_init(mask: u64, alt: bool) -> (SaslInit, u32, Expect) {
    let mut b = B::new(mask, alt);
    let resp: Vec<u8> = if alt { vec![0; 256] } else { b"\0user\0pw".to_vec() };
    let o = SaslInit {
        mechanism: b.req(Symbol::from("PLAIN"), rs("PLAIN")),
        initial_response: b.opt(ByteBuf::from(resp.clone()), RVal::Binary(resp)),
        hostname: b.opt("h".to_string(), rstr("h")),
    };
    let (n, x) = b.done("sasl-init");
    (o, n, x)
}
pub fn gen_sasl_challenge(mask: u64, alt: bool) -> (SaslChallenge, u32, Expect) {
    let mut b = B::new(mask, alt);
    let c: Vec<u8> = if alt { vec![] } else { b"r=abc,s=xyz,i=4096".to_vec() };
    let o = SaslChallenge {
        challenge: b.req(ByteBuf::from(c.clone()), RVal::Binary(c)),
    };
    let (n, x) = b.done("sasl-challenge");
    (o, n, x)
}
pub fn gen_sasl_response(mask: u64, alt: bool) -> (SaslResponse, u32, Expect) {
    let mut b = B::new(mask, alt);
    let c: Vec<u8> = if alt { vec![1; 300] } else { b"c=biws".to_vec() };
    let o = SaslResponse {
        response: b.req(ByteBuf::from(c.clone()), RVal::Binary(c)),
    };
    let (n, x) = b.done("sasl-response");
    (o, n, x)
}
pub fn gen_sasl_outcome(mask: u64, alt: bool) -> (SaslOutcome, u32, Expect) {
    let mut b = B::new(mask, alt);
    let o = SaslOutcome {
        code: b.req(if alt { SaslCode::SysTemp } else { SaslCode::Ok }, RVal::Ubyte(if alt { 4 } else { 0 })),
        additional_data: b.opt(ByteBuf::from(vec![b'v', b'=']), RVal::Binary(vec![b'v', b'='])),
    };
    let (n, x) = b.done("sasl-outcome");
    (o, n, x)
}

// ----------------------------------------------------------------------------- messages
/// bits: 0 header, 1 delivery-annotations, 2 message-annotations, 3 properties, 4 application-properties, 5 footer;
/// body kind = (mask >> 6) % 6: value, data x1, data x2, sequence x1, sequence x2, empty
pub fn gen_message(mask: u64, alt: bool) -> (Message<Body<Value>>, u32, Vec<RVal>) {
    let mut secs = vec![];
    let bit = |i: u32| (mask >> i) & 1 == 1;
    let header = if bit(0) {
        let (h, _, e) = gen_header(if alt { 0b10101 } else { 0b00001 }, alt);
        secs.push(expect_to_rval(0x70, &e));
        Some(h)
    } else {
        None
    };
    let ann = |k: &str| {
        let mut m = OrderedMap::new();
        m.insert(fe2o3_amqp_types::messaging::annotations::OwnedKey::Symbol(Symbol::from(k)), Value::Int(-5));
        (m, RVal::Map(vec![(rs(k), RVal::Int(-5))]))
    };
    let delivery_annotations = if bit(1) {
        let (m, r) = ann("x-da");
        secs.push(RVal::Described(Box::new(RVal::Ulong(0x71)), Box::new(r)));
        Some(DeliveryAnnotations(m))
    } else {
        None
    };
    let message_annotations = if bit(2) {
        let (m, r) = ann("x-ma");
        secs.push(RVal::Described(Box::new(RVal::Ulong(0x72)), Box::new(r)));
        Some(MessageAnnotations(m))
    } else {
        None
    };
    let properties = if bit(3) {
        let (p, _, e) = gen_properties(if alt { 0b1_0101_0101_0101 } else { 0b1 }, alt);
        secs.push(expect_to_rval(0x73, &e));
        Some(p)
    } else {
        None
    };
    let application_properties = if bit(4) {
        let mut m = OrderedMap::new();
        m.insert("ké".to_string(), SimpleValue::Uint(300));
        m.insert("s".to_string(), SimpleValue::String("v".into()));
        secs.push(RVal::Described(
            Box::new(RVal::Ulong(0x74)),
            Box::new(RVal::Map(vec![(rstr("ké"), RVal::Uint(300)), (rstr("s"), rstr("v"))])),
        ));
        Some(ApplicationProperties(m))
    } else {
        None
    };
    let d1: Vec<u8> = if alt { (0..300u32).map(|i| i as u8).collect() } else { vec![1, 2, 3] };
    let body = match (mask >> 6) % 6 {
        0 => {
            let v = if alt {
                vlib::corpus::map(vec![(vlib::corpus::sym("k"), vlib::corpus::arr(vec![Value::Uint(1), Value::Uint(300)]))])
            } else {
                Value::String("hello wörld".into())
            };
            secs.push(RVal::Described(Box::new(RVal::Ulong(0x77)), Box::new(vlib::corpus::value_to_rval(&v))));
            Body::Value(AmqpValue(v))
        }
        1 => {
            secs.push(RVal::Described(Box::new(RVal::Ulong(0x75)), Box::new(RVal::Binary(d1.clone()))));
            Body::Data(Batch::new(vec![Data(ByteBuf::from(d1))]))
        }
        2 => {
            secs.push(RVal::Described(Box::new(RVal::Ulong(0x75)), Box::new(RVal::Binary(d1.clone()))));
            secs.push(RVal::Described(Box::new(RVal::Ulong(0x75)), Box::new(RVal::Binary(vec![]))));
            Body::Data(Batch::new(vec![Data(ByteBuf::from(d1)), Data(ByteBuf::from(vec![]))]))
        }
        3 => {
            secs.push(RVal::Described(
                Box::new(RVal::Ulong(0x76)),
                Box::new(RVal::List(vec![RVal::Uint(1), rstr("a")])),
            ));
            Body::Sequence(Batch::new(vec![AmqpSequence(vec![Value::Uint(1), Value::String("a".into())])]))
        }
        4 => {
            secs.push(RVal::Described(Box::new(RVal::Ulong(0x76)), Box::new(RVal::List(vec![]))));
            secs.push(RVal::Described(Box::new(RVal::Ulong(0x76)), Box::new(RVal::List(vec![RVal::Null]))));
            Body::Sequence(Batch::new(vec![AmqpSequence(vec![]), AmqpSequence(vec![Value::Null])]))
        }
        _ => Body::Empty,
    };
    let footer = if bit(5) {
        let (m, r) = ann("x-ft");
        secs.push(RVal::Described(Box::new(RVal::Ulong(0x78)), Box::new(r)));
        Some(Footer(m))
    } else {
        None
    };
    (
        Message {
            header,
            delivery_annotations,
            message_annotations,
            properties,
            application_properties,
            body,
            footer,
        },
        6,
        secs,
    )
}

// ----------------------------------------------------------------------------- the visitor plumbing
pub type Fail3 = (String, String, serde_json::Value);

pub trait Visitor: Sync {
    fn visit<T: Serialize + DeserializeOwned + Debug>(&self, ty: &'static str, mask: u64, alt: bool, item: &T, expect: &Expect) -> Vec<(String, String)>;
    fn visit_message(&self, mask: u64, alt: bool, m: &Message<Body<Value>>, secs: &[RVal]) -> Vec<(String, String)>;
}

pub struct TypedResult {
    pub evaluations: u64,
    pub distinct: u64,
    pub fails: Vec<Fail3>,
    pub types: Vec<String>,
    pub samples: Vec<String>,
}

fn run_type<T, G, V>(name: &'static str, gen: G, v: &V, ctx: &Ctx, alts: &[bool], res: &mut TypedResult)
where
    T: Serialize + DeserializeOwned + Debug,
    G: Fn(u64, bool) -> (T, u32, Expect) + Sync,
    V: Visitor,
{
    let (_, nbits, _) = gen(0, false);
    let masks: Vec<(u64, bool)> = (0..(1u64 << nbits)).flat_map(|m| alts.iter().map(move |a| (m, *a))).collect();
    let out = par_map(&masks, ctx.threads, |_, (m, a)| {
        let (item, _, exp) = gen(*m, *a);
        let enc = catch(|| serde_amqp::to_vec(&item)).ok().and_then(|r| r.ok()).map(|b| h64(&b));
        (v.visit(name, *m, *a, &item, &exp), enc)
    });
    let mut seen = std::collections::HashSet::new();
    for ((m, a), (fs, enc)) in masks.iter().zip(out) {
        if let Some(e) = enc {
            seen.insert(e);
        }
        for (sig, detail) in fs {
            res.fails.push((sig, detail, json!({"kind": "typed", "type": name, "mask": m, "alt": a})));
        }
    }
    res.evaluations += masks.len() as u64;
    res.distinct += seen.len() as u64;
    res.types.push(format!("{name}:2^{nbits}"));
    if res.samples.len() < 6 {
        let (item, _, _) = gen((1u64 << nbits) - 1, false);
        res.samples.push(format!(
            "{name} mask=all -> {}",
            hex(&serde_amqp::to_vec(&item).unwrap_or_default())
        ));
    }
}

pub fn enumerate<V: Visitor>(v: &V, ctx: &Ctx) -> TypedResult {
    let mut res = TypedResult {
        evaluations: 0,
        distinct: 0,
        fails: vec![],
        types: vec![],
        samples: vec![],
    };
    let both = [false, true];
    let one = [false];
    let alts: &[bool] = if ctx.quick() { &one } else { &both };
    // small types always get both representatives
    run_type("error", gen_error, v, ctx, &both, &mut res);
    run_type("open", gen_open, v, ctx, &both, &mut res);
    run_type("begin", gen_begin, v, ctx, &both, &mut res);
    run_type("attach", gen_attach, v, ctx, alts, &mut res);
    run_type("flow", gen_flow, v, ctx, &both, &mut res);
    run_type("transfer", gen_transfer, v, ctx, &both, &mut res);
    run_type("disposition", gen_disposition, v, ctx, &both, &mut res);
    run_type("detach", gen_detach, v, ctx, &both, &mut res);
    run_type("end", gen_end, v, ctx, &both, &mut res);
    run_type("close", gen_close, v, ctx, &both, &mut res);
    run_type("source", gen_source, v, ctx, &both, &mut res);
    run_type("target", gen_target, v, ctx, &both, &mut res);
    run_type("coordinator", gen_coordinator, v, ctx, &both, &mut res);
    run_type("header", gen_header, v, ctx, &both, &mut res);
    run_type("properties", gen_properties, v, ctx, alts, &mut res);
    run_type("received", gen_received, v, ctx, &both, &mut res);
    run_type("rejected", gen_rejected, v, ctx, &both, &mut res);
    run_type("modified", gen_modified, v, ctx, &both, &mut res);
    run_type("declare", gen_declare, v, ctx, &both, &mut res);
    run_type("discharge", gen_discharge, v, ctx, &both, &mut res);
    run_type("declared", gen_declared, v, ctx, &both, &mut res);
    run_type("transactional-state", gen_txn_state, v, ctx, &both, &mut res);
    run_type("sasl-mechanisms", gen_sasl_mechanisms, v, ctx, &both, &mut res);
    run_type("sasl-init", gen_sasl_init, v, ctx, &both, &mut res);
    run_type("sasl-challenge", gen_sasl_challenge, v, ctx, &both, &mut res);
    run_type("sasl-response", gen_sasl_response, v, ctx, &both, &mut res);
    run_type("sasl-outcome", gen_sasl_outcome, v, ctx, &both, &mut res);
    // messages: 2^6 section subsets x 6 body kinds x 2 representatives
    let masks: Vec<(u64, bool)> = (0..(6u64 << 6)).flat_map(|m| both.iter().map(move |a| (m, *a))).collect();
    let out = par_map(&masks, ctx.threads, |_, (m, a)| {
        let (msg, _, secs) = gen_message(*m, *a);
        v.visit_message(*m, *a, &msg, &secs)
    });
    for ((m, a), fs) in masks.iter().zip(out) {
        for (sig, detail) in fs {
            res.fails.push((sig, detail, json!({"kind": "typed", "type": "message", "mask": m, "alt": a})));
        }
    }
    res.evaluations += masks.len() as u64;
    res.distinct += masks.len() as u64;
    res.types.push("message:2^6 sections x 6 bodies".into());
    res
}

/// dispatch one (type, mask, alt) case to the visitor - used by replay
pub fn visit_one<V: Visitor>(v: &V, ty: &str, mask: u64, alt: bool) -> Vec<(String, String)> {
    macro_rules! go {
        ($name:expr, $gen:ident) => {{
            let (item, _, exp) = $gen(mask, alt);
            println!("replaying {} mask={:#b} alt={}: {:?}", $name, mask, alt, item);
            v.visit($name, mask, alt, &item, &exp)
        }};
    }
    match ty {
        "error" => go!("error", gen_error),
        "open" => go!("open", gen_open),
        "begin" => go!("begin", gen_begin),
        "attach" => go!("attach", gen_attach),
        "flow" => go!("flow", gen_flow),
        "transfer" => go!("transfer", gen_transfer),
        "disposition" => go!("disposition", gen_disposition),
        "detach" => go!("detach", gen_detach),
        "end" => go!("end", gen_end),
        "close" => go!("close", gen_close),
        "source" => go!("source", gen_source),
        "target" => go!("target", gen_target),
        "coordinator" => go!("coordinator", gen_coordinator),
        "header" => go!("header", gen_header),
        "properties" => go!("properties", gen_properties),
        "received" => go!("received", gen_received),
        "rejected" => go!("rejected", gen_rejected),
        "modified" => go!("modified", gen_modified),
        "declare" => go!("declare", gen_declare),
        "discharge" => go!("discharge", gen_discharge),
        "declared" => go!("declared", gen_declared),
        "transactional-state" => go!("transactional-state", gen_txn_state),
        "sasl-mechanisms" => go!("sasl-mechanisms", gen_sasl_mechanisms),
        "sasl-init" => go!("sasl-init", gen_sasl_init),
        "sasl-challenge" => go!("sasl-challenge", gen_sasl_challenge),
        "sasl-response" => go!("sasl-response", gen_sasl_response),
        "sasl-outcome" => go!("sasl-outcome", gen_sasl_outcome),
        "message" => {
            let (m, _, secs) = gen_message(mask, alt);
            println!("replaying message mask={mask} alt={alt}: {:?}", m);
            v.visit_message(mask, alt, &m, &secs)
        }
        _ => vec![("replay".into(), format!("unknown type {ty}"))],
    }
}

// ----------------------------------------------------------------------------- C03: round trip
pub struct RoundTrip;

pub fn dbg<T: Debug>(t: &T) -> String {
    format!("{:?}", t)
}

impl Visitor for RoundTrip {
    fn visit<T: Serialize + DeserializeOwned + Debug>(&self, ty: &'static str, _mask: u64, _alt: bool, item: &T, _e: &Expect) -> Vec<(String, String)> {
        let mut f = vec![];
        let enc = match catch(|| serde_amqp::to_vec(item)) {
            Ok(Ok(b)) => b,
            Ok(Err(e)) => return vec![(format!("typed encode-error {ty}"), format!("{e}: {}", dbg(item)))],
            Err(p) => return vec![(format!("typed encode-panic {ty}"), format!("{p}: {}", dbg(item)))],
        };
        for (how, r) in [
            ("slice", catch(|| serde_amqp::from_slice::<T>(&enc))),
            ("reader", catch(|| serde_amqp::from_reader::<T>(std::io::Cursor::new(&enc)))),
        ] {
            match r {
                Ok(Ok(back)) => {
                    if dbg(&back) != dbg(item) {
                        f.push((
                            format!("typed roundtrip({how}) {ty}"),
                            format!("x={} bytes={} decoded={}", dbg(item), hex(&enc), dbg(&back)),
                        ));
                    }
                }
                Ok(Err(e)) => f.push((format!("typed decode-error({how}) {ty}"), format!("{e}: x={} bytes={}", dbg(item), hex(&enc)))),
                Err(p) => f.push((format!("typed decode-panic({how}) {ty}"), format!("{p}: bytes={}", hex(&enc)))),
            }
        }
        f
    }
    fn visit_message(&self, _mask: u64, _alt: bool, m: &Message<Body<Value>>, _secs: &[RVal]) -> Vec<(String, String)> {
        let mut f = vec![];
        let enc = match catch(|| serde_amqp::to_vec(&Serializable(m))) {
            Ok(Ok(b)) => b,
            Ok(Err(e)) => return vec![("typed encode-error message".into(), format!("{e}: {}", dbg(m)))],
            Err(p) => return vec![("typed encode-panic message".into(), format!("{p}: {}", dbg(m)))],
        };
        for (how, r) in [
            ("slice", catch(|| serde_amqp::from_slice::<Deserializable<Message<Body<Value>>>>(&enc))),
            (
                "reader",
                catch(|| serde_amqp::from_reader::<Deserializable<Message<Body<Value>>>>(std::io::Cursor::new(&enc))),
            ),
        ] {
            match r {
                Ok(Ok(back)) => {
                    // `Body::Empty` is a library convenience, not an AMQP body kind (the spec requires a
                    // body section): it is written as amqp-value(null); reading that back as either form is fine
                    let empty_ok = matches!(m.body, Body::Empty)
                        && matches!(&back.0.body, Body::Empty | Body::Value(AmqpValue(Value::Null)))
                        && {
                            let mut b = back.0.clone();
                            b.body = Body::Empty;
                            &b == m
                        };
                    if &back.0 != m && !empty_ok {
                        f.push((
                            format!("typed roundtrip({how}) message body={}", body_kind(m)),
                            format!("x={} bytes={} decoded={}", dbg(m), hex(&enc), dbg(&back.0)),
                        ));
                    }
                }
                Ok(Err(e)) => f.push((
                    format!("typed decode-error({how}) message body={}", body_kind(m)),
                    format!("{e}: x={} bytes={}", dbg(m), hex(&enc)),
                )),
                Err(p) => f.push((format!("typed decode-panic({how}) message"), format!("{p}: bytes={}", hex(&enc)))),
            }
        }
        f
    }
}

pub fn body_kind(m: &Message<Body<Value>>) -> &'static str {
    match &m.body {
        Body::Value(_) => "value",
        Body::Data(_) => "data",
        Body::Sequence(_) => "sequence",
        Body::Empty => "empty",
    }
}

pub fn run_roundtrip(ctx: &Ctx) -> TypedResult {
    enumerate(&RoundTrip, ctx)
}

pub fn replay_one(r: &serde_json::Value) -> Vec<Fail3> {
    let ty = r["type"].as_str().unwrap_or("");
    let mask = r["mask"].as_u64().unwrap_or(0);
    let alt = r["alt"].as_bool().unwrap_or(false);
    visit_one(&RoundTrip, ty, mask, alt)
        .into_iter()
        .map(|(s, d)| (s, d, r.clone()))
        .collect()
}

#[allow(dead_code)]
pub fn unused(_: RType) {}
