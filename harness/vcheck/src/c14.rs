//! C14 - failures propagate: no call hangs and every handle learns why it stopped.
//!
//! Fault enumeration.  Part A: a reference conversation between a real client and a real listener over
//! the in-memory pipe, cut at EVERY byte offset in either direction (EOF, reset, stall-then-EOF).
//! Part B: a real client against the scripted peer, every kind of operation pending, and the peer
//! closing / ending / detaching (with and without error) or the transport breaking under it.
//! Parts G and H (c14_bp.rs): peer-initiated teardown while the library's own answer has to wait for room
//! (small channel capacities, stalled writes), and a receiving link torn down with deliveries still buffered
//! in front of the peer's detach.
use crate::scen;
use fe2o3_amqp::acceptor::{ConnectionAcceptor, LinkAcceptor, LinkEndpoint, SessionAcceptor};
use fe2o3_amqp::link::receiver::CreditMode;
use fe2o3_amqp::link::{Receiver, Sender};
use fe2o3_amqp::{Connection, Session};
use fe2o3_amqp_types::definitions::{self, AmqpError, Handle, SenderSettleMode};
use fe2o3_amqp_types::messaging::Message;
use fe2o3_amqp_types::performatives::*;
use serde_amqp::Value;
use serde_json::json;
use std::sync::Arc;
use std::time::Duration;
use vlib::peer::{amqp_error, drive, settle, trace_to_strings, Auto};
use vlib::report::{Ctx, Outcome};
use vlib::explore::{explore, Bounds};
use vlib::runner::{run_exec, RunCfg, Scenario};
use vlib::util::{h64, par_map};
use vlib::vpipe::{Fault, FaultMode, Pipe};

#[path = "c14_bp.rs"]
mod c14_bp;

const OP_TIMEOUT: Duration = Duration::from_secs(120);

fn cond() -> definitions::Error {
    amqp_error(AmqpError::ResourceLimitExceeded, "peer says no")
}
const COND_DBG: &str = "ResourceLimitExceeded";

/// outcome of one public call: "ok", "err:<debug>", or "TIMEOUT"
async fn op<T, E: std::fmt::Debug, F: std::future::Future<Output = Result<T, E>>>(f: F) -> String {
    match tokio::time::timeout(OP_TIMEOUT, f).await {
        Err(_) => "TIMEOUT".to_string(),
        Ok(Ok(_)) => "ok".to_string(),
        Ok(Err(e)) => format!("err:{:?}", e),
    }
}

// ================================================================================================ Part B
#[derive(Debug, Clone, Copy, PartialEq, Eq, Hash)]
pub enum Pending {
    Idle,
    SendWaitingCredit,
    SendAwaitingOutcome,
    BatchableOutcome,
    RecvWaiting,
    AttachPending,
    DetachPending,
    EndPending,
    ClosePending,
    /// like BatchableOutcome, and the peer has already reported a non-terminal state for the delivery
    /// (disposition received(0, 0), not settled) when the fault comes
    BatchableOutcomeReceived,
    /// the outcome of an earlier send_batchable() is outstanding, the link has been detached (not closed) and its
    /// resume() is in flight - the library's attach is out, the peer's has not come - when the fault stops the session
    /// or the connection
    BatchableOutcomeResuming,
    /// nothing is pending, but the sending link HAS credit when the fault comes, and the application's next operation
    /// on it is a send_batchable() whose outcome it then awaits
    IdleWithCredit,
    /// a send_batchable() is waiting for credit; the peer grants one credit and the fault follows AT THE SAME INSTANT
    /// (flow and close / end in one burst): the send may get through while the engines are stopping, and its outcome
    /// must then fail like any other outstanding outcome
    BatchableGrantedWithFault,
    /// like ClosePending, but the application closes with an error of its own (close_with_error)
    CloseErrPending,
}
pub const PENDINGS: [Pending; 14] = [
    Pending::Idle,
    Pending::SendWaitingCredit,
    Pending::SendAwaitingOutcome,
    Pending::BatchableOutcome,
    Pending::RecvWaiting,
    Pending::AttachPending,
    Pending::DetachPending,
    Pending::EndPending,
    Pending::ClosePending,
    Pending::BatchableOutcomeReceived,
    Pending::BatchableOutcomeResuming,
    Pending::IdleWithCredit,
    Pending::BatchableGrantedWithFault,
    Pending::CloseErrPending,
];

#[derive(Debug, Clone, Copy, PartialEq, Eq, Hash)]
pub enum Flt {
    PeerClose,
    PeerCloseErr,
    PeerCloseErrThenReset,
    PeerCloseErrThenDrop,
    /// the peer's close (with error) is the last thing it writes: the transport is gone at once, the frame can
    /// still be read but the answering close can no longer be written (EPIPE)
    PeerCloseErrThenEofAtOnce,
    PeerEnd,
    PeerEndErr,
    PeerDetachS,
    PeerDetachSErr,
    PeerDetachSOpenErr,
    PeerDetachRErr,
    PeerDetachROpenErr,
    Eof,
    Reset,
    /// the peer shuts down its sending direction (FIN) without a close frame: reads see EOF, writes and the
    /// local shutdown still succeed
    PeerHalfClose,
}
pub const FAULTS: [Flt; 15] = [
    Flt::PeerClose,
    Flt::PeerCloseErr,
    Flt::PeerCloseErrThenReset,
    Flt::PeerCloseErrThenDrop,
    Flt::PeerCloseErrThenEofAtOnce,
    Flt::PeerEnd,
    Flt::PeerEndErr,
    Flt::PeerDetachS,
    Flt::PeerDetachSErr,
    Flt::PeerDetachSOpenErr,
    Flt::PeerDetachRErr,
    Flt::PeerDetachROpenErr,
    Flt::Eof,
    Flt::Reset,
    Flt::PeerHalfClose,
];


fn conn_level(f: Flt) -> bool {
    matches!(f, Flt::PeerClose | Flt::PeerCloseErr | Flt::PeerCloseErrThenReset | Flt::PeerCloseErrThenDrop | Flt::PeerCloseErrThenEofAtOnce | Flt::Eof | Flt::Reset | Flt::PeerHalfClose)
}
fn sess_level(f: Flt) -> bool {
    matches!(f, Flt::PeerEnd | Flt::PeerEndErr)
}
fn s_link(f: Flt) -> bool {
    matches!(f, Flt::PeerDetachS | Flt::PeerDetachSErr | Flt::PeerDetachSOpenErr)
}
fn r_link(f: Flt) -> bool {
    matches!(f, Flt::PeerDetachRErr | Flt::PeerDetachROpenErr)
}
fn carries(f: Flt) -> bool {
    matches!(f, Flt::PeerCloseErr | Flt::PeerCloseErrThenReset | Flt::PeerCloseErrThenDrop | Flt::PeerCloseErrThenEofAtOnce | Flt::PeerEndErr | Flt::PeerDetachSErr | Flt::PeerDetachSOpenErr | Flt::PeerDetachRErr | Flt::PeerDetachROpenErr)
}
/// does the fault stop the scope the pending operation works on (so that the operation has to complete)?
/// A pending operation on another scope legitimately stays pending: the scripted peer never answers it.
fn pending_affected(pd: Pending, f: Flt) -> bool {
    match pd {
        Pending::Idle | Pending::IdleWithCredit => false,
        Pending::SendWaitingCredit | Pending::SendAwaitingOutcome | Pending::BatchableOutcome | Pending::BatchableOutcomeReceived | Pending::DetachPending | Pending::BatchableGrantedWithFault => conn_level(f) || sess_level(f) || s_link(f),
        Pending::RecvWaiting => conn_level(f) || sess_level(f) || r_link(f),
        Pending::AttachPending | Pending::EndPending | Pending::BatchableOutcomeResuming => conn_level(f) || sess_level(f),
        Pending::ClosePending | Pending::CloseErrPending => conn_level(f),
    }
}
fn is_teardown(pd: Pending) -> bool {
    matches!(pd, Pending::DetachPending | Pending::EndPending | Pending::ClosePending | Pending::CloseErrPending)
}

#[derive(Debug, Clone, Default)]
pub struct BObs {
    pub pending_result: String,
    pub followups: Vec<(String, String)>,
    pub alive_tasks_end: usize,
    pub trace: Vec<String>,
    pub machinery: Option<String>,
    pub pending_was_pending: bool,
}

pub async fn scenario_b(pd: Pending, flt: Flt) -> BObs {
    let mut obs = BObs::default();
    let mut auto = Auto::default();
    auto.max_frame_size = 4096;
    let mut c = match scen::open_client(auto, 4096).await {
        Ok(c) => c,
        Err(e) => {
            obs.machinery = Some(e);
            return obs;
        }
    };
    c.pipe.set_shutdown_fails_when_broken(true);
    let mut session = match scen::begin(&mut c, Session::builder()).await {
        Ok(s) => s,
        Err(e) => {
            obs.machinery = Some(e);
            return obs;
        }
    };
    // sender S (unsettled, no credit granted yet) and receiver R
    let s = drive(&mut c.peer, Sender::builder().name("s").target("q").sender_settle_mode(SenderSettleMode::Unsettled).attach(&mut session), scen::H).await;
    let mut sender = match s {
        Some(Ok(s)) => s,
        _ => {
            obs.machinery = Some("sender attach failed".into());
            return obs;
        }
    };
    let s_lib_handle = c.peer.links.last().map(|l| l.lib_handle).unwrap_or(0);
    let s_our_handle = c.peer.links.last().map(|l| l.our_handle).unwrap_or(0);
    let r = drive(&mut c.peer, Receiver::builder().name("r").source("q").credit_mode(CreditMode::Auto(5)).attach(&mut session), scen::H).await;
    let mut receiver = match r {
        Some(Ok(r)) => r,
        _ => {
            obs.machinery = Some("receiver attach failed".into());
            return obs;
        }
    };
    let r_our_handle = c.peer.links.last().map(|l| l.our_handle).unwrap_or(1);
    settle(&mut c.peer, 1).await;
    // ---- start the pending operation in its own task (it owns the handle it operates on and hands it back)
    enum Back {
        S(Sender),
        R(Receiver),
        Sess(fe2o3_amqp::session::SessionHandle<()>),
        None,
    }
    let mut sender_opt = Some(sender);
    let mut receiver_opt = Some(receiver);
    let mut session_opt = Some(session);
    let mut conn_opt = Some(c.conn);
    let pending_task: Option<tokio::task::JoinHandle<(String, Back)>> = match pd {
        Pending::Idle => None,
        Pending::IdleWithCredit => {
            c.peer.grant(0, s_lib_handle, 10);
            settle(&mut c.peer, 1).await;
            None
        }
        Pending::SendWaitingCredit => {
            let mut s = sender_opt.take().unwrap();
            Some(tokio::spawn(async move {
                let r = op(s.send("waiting for credit")).await;
                (r, Back::S(s))
            }))
        }
        Pending::SendAwaitingOutcome | Pending::BatchableOutcome | Pending::BatchableOutcomeReceived => {
            c.peer.grant(0, s_lib_handle, 10);
            settle(&mut c.peer, 1).await;
            let mut s = sender_opt.take().unwrap();
            let batch = pd != Pending::SendAwaitingOutcome;
            Some(tokio::spawn(async move {
                let r = if batch {
                    match s.send_batchable("outcome outstanding").await {
                        Ok(fut) => op(fut).await,
                        Err(e) => format!("err:{:?}", e),
                    }
                } else {
                    op(s.send("outcome outstanding")).await
                };
                (r, Back::S(s))
            }))
        }
        Pending::BatchableGrantedWithFault => {
            let mut s = sender_opt.take().unwrap();
            Some(tokio::spawn(async move {
                let r = match s.send_batchable("granted together with the fault").await {
                    Ok(fut) => op(fut).await,
                    Err(e) => format!("err:{:?}", e),
                };
                (r, Back::S(s))
            }))
        }
        Pending::BatchableOutcomeResuming => {
            c.peer.grant(0, s_lib_handle, 10);
            settle(&mut c.peer, 1).await;
            let mut s = sender_opt.take().unwrap();
            let fut = match drive(&mut c.peer, s.send_batchable("outcome outstanding, link resuming"), scen::H).await {
                Some(Ok(f)) => Some(f),
                _ => None,
            };
            // non-closing detach, answered by the peer; then the resume whose attach the peer does not answer
            let det = drive(&mut c.peer, s.detach(), scen::H).await;
            c.peer.auto.attach = false;
            match (fut, det) {
                (Some(fut), Some(Ok(det))) => Some(tokio::spawn(async move {
                    // resume() fails when the session stops and hands the detached link back: the application keeps it
                    // (it owns the unsettled deliveries) while it waits for the outcome
                    let resumed = tokio::time::timeout(OP_TIMEOUT, det.resume()).await;
                    let r = op(fut).await;
                    drop(resumed);
                    (r, Back::None)
                })),
                _ => {
                    obs.machinery = Some("part B: could not set up the resuming link".into());
                    None
                }
            }
        }
        Pending::RecvWaiting => {
            let mut r = receiver_opt.take().unwrap();
            Some(tokio::spawn(async move {
                let res = op(r.recv::<Value>()).await;
                (res, Back::R(r))
            }))
        }
        Pending::AttachPending => {
            c.peer.auto.attach = false;
            let mut sess = session_opt.take().unwrap();
            Some(tokio::spawn(async move {
                let res = op(Sender::attach(&mut sess, "s2", "q2")).await;
                (res, Back::Sess(sess))
            }))
        }
        Pending::DetachPending => {
            c.peer.auto.detach = false;
            let s = sender_opt.take().unwrap();
            Some(tokio::spawn(async move {
                let res = op(s.close()).await;
                (res, Back::None)
            }))
        }
        Pending::EndPending => {
            c.peer.auto.end = false;
            let mut sess = session_opt.take().unwrap();
            Some(tokio::spawn(async move {
                let res = op(sess.end()).await;
                (res, Back::Sess(sess))
            }))
        }
        Pending::ClosePending => {
            c.peer.auto.close = false;
            let mut conn = conn_opt.take().unwrap();
            Some(tokio::spawn(async move {
                let res = op(conn.close()).await;
                drop(conn);
                (res, Back::None)
            }))
        }
        Pending::CloseErrPending => {
            c.peer.auto.close = false;
            let mut conn = conn_opt.take().unwrap();
            Some(tokio::spawn(async move {
                let e = fe2o3_amqp_types::definitions::Error::new(fe2o3_amqp_types::definitions::AmqpError::InternalError, Some("application error".to_string()), None);
                let res = op(conn.close_with_error(e)).await;
                drop(conn);
                (res, Back::None)
            }))
        }
    };
    settle(&mut c.peer, 2).await;
    if pd == Pending::BatchableOutcomeReceived {
        // the delivery the library has just sent: a non-terminal state, not settled
        let id = c.peer.trace.iter().rev().find_map(|w| match (&w.body, w.dir) {
            (vlib::peer::Body::Perf(Performative::Transfer(t)), vlib::peer::Dirn::FromLib) => t.delivery_id,
            _ => None,
        });
        if let Some(id) = id {
            let st = fe2o3_amqp_types::messaging::DeliveryState::Received(fe2o3_amqp_types::messaging::Received { section_number: 0, section_offset: 0 });
            c.peer.send(0, Performative::Disposition(Disposition { role: fe2o3_amqp_types::definitions::Role::Receiver, first: id, last: None, settled: false, state: Some(st), batchable: false }));
            settle(&mut c.peer, 2).await;
        } else {
            obs.machinery = Some("part B: no transfer on the wire for the batchable send".into());
        }
    }
    obs.pending_was_pending = pending_task.as_ref().map(|t| !t.is_finished()).unwrap_or(false);
    if pd == Pending::BatchableGrantedWithFault {
        // one credit, and the fault right behind it in the same burst (no quiescence in between)
        c.peer.grant(0, s_lib_handle, 1);
    }
    // ---- the fault
    match flt {
        Flt::PeerClose => c.peer.send(0, Performative::Close(Close { error: None })),
        Flt::PeerCloseErr => c.peer.send(0, Performative::Close(Close { error: Some(cond()) })),
        Flt::PeerCloseErrThenReset => {
            c.peer.send(0, Performative::Close(Close { error: Some(cond()) }));
            settle(&mut c.peer, 1).await;
            c.pipe.break_now(FaultMode::Reset);
        }
        Flt::PeerCloseErrThenEofAtOnce => {
            c.peer.send(0, Performative::Close(Close { error: Some(cond()) }));
            c.pipe.break_now(FaultMode::Eof);
        }
        Flt::PeerCloseErrThenDrop => {
            // the peer goes away right behind its close frame: the frame can still be read and the local
            // socket still takes the reply, but shutting the transport down fails (ENOTCONN)
            c.peer.send(0, Performative::Close(Close { error: Some(cond()) }));
            c.pipe.set_shutdown_fails(true);
        }
        Flt::PeerEnd => c.peer.send(0, Performative::End(End { error: None })),
        Flt::PeerEndErr => c.peer.send(0, Performative::End(End { error: Some(cond()) })),
        Flt::PeerDetachS => c.peer.send(0, Performative::Detach(Detach { handle: Handle(s_our_handle), closed: true, error: None })),
        Flt::PeerDetachSErr => c.peer.send(0, Performative::Detach(Detach { handle: Handle(s_our_handle), closed: true, error: Some(cond()) })),
        Flt::PeerDetachSOpenErr => c.peer.send(0, Performative::Detach(Detach { handle: Handle(s_our_handle), closed: false, error: Some(cond()) })),
        Flt::PeerDetachRErr => c.peer.send(0, Performative::Detach(Detach { handle: Handle(r_our_handle), closed: true, error: Some(cond()) })),
        Flt::PeerDetachROpenErr => c.peer.send(0, Performative::Detach(Detach { handle: Handle(r_our_handle), closed: false, error: Some(cond()) })),
        Flt::Eof => c.pipe.break_now(FaultMode::Eof),
        Flt::Reset => c.pipe.break_now(FaultMode::Reset),
        Flt::PeerHalfClose => c.peer.close_write(),
    }
    settle(&mut c.peer, 3).await;
    // ---- collect the pending operation (its own time-out bounds it)
    if let Some(t) = pending_task.filter(|t| {
        // an operation on a scope the fault did not stop legitimately stays pending (nobody answers it):
        // cancel it; its handle goes with it
        if !pending_affected(pd, flt) && !t.is_finished() {
            match pd {
                // a teardown the fault does not concern: the peer now answers it (a peer that never
                // answers a close is outside the property) and the call has to return
                Pending::ClosePending | Pending::CloseErrPending => {
                    c.peer.send(0, Performative::Close(Close { error: None }));
                    true
                }
                Pending::EndPending => {
                    c.peer.send(0, Performative::End(End { error: None }));
                    true
                }
                Pending::DetachPending => {
                    c.peer.send(0, Performative::Detach(Detach { handle: Handle(s_our_handle), closed: true, error: None }));
                    true
                }
                _ => {
                    t.abort();
                    obs.pending_result = "unaffected".into();
                    false
                }
            }
        } else {
            true
        }
    }) {
        // keep the scripted peer answering while we wait
        let joined = drive(&mut c.peer, t, OP_TIMEOUT + Duration::from_secs(5)).await;
        match joined {
            Some(Ok((res, back))) => {
                obs.pending_result = res;
                match back {
                    Back::S(s) => sender_opt = Some(s),
                    Back::R(r) => receiver_opt = Some(r),
                    Back::Sess(s) => session_opt = Some(s),
                    Back::None => {}
                }
            }
            Some(Err(e)) => obs.pending_result = format!("TASK-PANIC:{e}"),
            None => obs.pending_result = "TIMEOUT".into(),
        }
    }
    // from here on the peer answers everything again (a conforming peer that is still there)
    c.peer.auto.attach = true;
    c.peer.auto.detach = true;
    c.peer.auto.end = true;
    c.peer.auto.close = true;
    // ---- follow-up operations on every handle
    let (cl, sl) = (conn_level(flt), sess_level(flt));
    if let Some(s) = sender_opt.as_mut().filter(|_| cl || sl || s_link(flt)) {
        let r = if pd == Pending::IdleWithCredit {
            let fut = async {
                match s.send_batchable("after the fault (batchable)").await {
                    Ok(outcome) => op(outcome).await,
                    Err(e) => format!("err:{:?}", e),
                }
            };
            drive(&mut c.peer, tokio::time::timeout(OP_TIMEOUT * 2, fut), OP_TIMEOUT * 2 + Duration::from_secs(5)).await.map(|r| r.unwrap_or("TIMEOUT".into())).unwrap_or("TIMEOUT".into())
        } else {
            drive(&mut c.peer, op(s.send("after the fault")), OP_TIMEOUT + Duration::from_secs(5)).await.unwrap_or("TIMEOUT".into())
        };
        obs.followups.push(("send".into(), r));
    }
    if let Some(r) = receiver_opt.as_mut().filter(|_| cl || sl || r_link(flt)) {
        let res = drive(&mut c.peer, op(r.recv::<Value>()), OP_TIMEOUT + Duration::from_secs(5)).await.unwrap_or("TIMEOUT".into());
        obs.followups.push(("recv".into(), res));
    }
    if let Some(sess) = session_opt.as_mut().filter(|_| cl || sl) {
        let res = drive(&mut c.peer, op(Sender::attach(sess, "s3", "q3")), OP_TIMEOUT + Duration::from_secs(5)).await.unwrap_or("TIMEOUT".into());
        obs.followups.push(("attach".into(), res));
    }
    if let Some(conn) = conn_opt.as_mut().filter(|_| cl) {
        let res = drive(&mut c.peer, op(Session::begin(conn)), OP_TIMEOUT + Duration::from_secs(5)).await.unwrap_or("TIMEOUT".into());
        obs.followups.push(("begin".into(), res));
    }
    if let Some(s) = sender_opt.take() {
        let res = drive(&mut c.peer, op(s.close()), OP_TIMEOUT + Duration::from_secs(5)).await.unwrap_or("TIMEOUT".into());
        obs.followups.push(("sender.close".into(), res));
    }
    if let Some(r) = receiver_opt.take() {
        let res = drive(&mut c.peer, op(r.close()), OP_TIMEOUT + Duration::from_secs(5)).await.unwrap_or("TIMEOUT".into());
        obs.followups.push(("receiver.close".into(), res));
    }
    if let Some(mut sess) = session_opt.take() {
        let res = drive(&mut c.peer, op(sess.end()), OP_TIMEOUT + Duration::from_secs(5)).await.unwrap_or("TIMEOUT".into());
        obs.followups.push(("session.end".into(), res));
    }
    if let Some(mut conn) = conn_opt.take() {
        let res = drive(&mut c.peer, op(conn.close()), OP_TIMEOUT + Duration::from_secs(5)).await.unwrap_or("TIMEOUT".into());
        obs.followups.push(("connection.close".into(), res));
    }
    settle(&mut c.peer, 3).await;
    obs.alive_tasks_end = tokio::runtime::Handle::current().metrics().num_alive_tasks();
    obs.trace = trace_to_strings(&c.peer.trace);
    obs
}

fn judge_b(pd: Pending, flt: Flt, o: &BObs, panics: &[String]) -> Vec<(String, String)> {
    let mut f = vec![];
    let what = format!("pending={:?} fault={:?}", pd, flt);
    let all = || format!("pending op -> {}; follow-ups {:?}", o.pending_result, o.followups);
    let (cl, sl, s_l, r_l) = (conn_level(flt), sess_level(flt), s_link(flt), r_link(flt));
    let scope_name = if cl { "connection" } else if sl { "session" } else { "link" };
    for p in panics.iter().filter(|p| !p.contains("vcheck/src")) {
        f.push((format!("panic fault={:?}", flt), format!("{what}: a library task panicked: {p}")));
    }
    // ---- nothing hangs
    if o.pending_result == "TIMEOUT" {
        f.push((format!("pending-op-hangs pending={:?} fault={:?}", pd, flt), format!("{what}: the operation in progress never completed (120 s of virtual time); {}", all())));
    }
    for (name, r) in &o.followups {
        if r == "TIMEOUT" {
            f.push((format!("op-after-fault-hangs op={name} fault={:?}", flt), format!("{what}: {name} issued after the fault never completed; {}", all())));
        }
    }
    // ---- data-path operations on a stopped scope fail (the follow-ups were only issued on stopped scopes)
    for (name, r) in &o.followups {
        if matches!(name.as_str(), "send" | "recv" | "attach" | "begin") && r == "ok" {
            f.push((format!("op-after-fault-succeeds op={name} fault={:?}", flt), format!("{what}: {name} returned Ok although its {scope_name} had stopped; {}", all())));
        }
    }
    let data_pending = matches!(pd, Pending::SendWaitingCredit | Pending::SendAwaitingOutcome | Pending::BatchableOutcome | Pending::BatchableOutcomeReceived | Pending::BatchableOutcomeResuming | Pending::BatchableGrantedWithFault | Pending::RecvWaiting | Pending::AttachPending);
    if data_pending && pending_affected(pd, flt) && o.pending_was_pending && o.pending_result == "ok" {
        f.push((format!("pending-op-succeeds pending={:?} fault={:?}", pd, flt), format!("{what}: the operation in progress returned Ok although its {scope_name} stopped; {}", all())));
    }
    // ---- what the errors say.  Judged on the FIRST operation that observes the stop on each handle (later
    // calls on a handle that already reported why it stopped may say anything, e.g. IllegalState), and only
    // when the application had not itself started tearing a scope down (then "ended"/"closed" is the truth).
    if !is_teardown(pd) {
        let fu = |n: &str| o.followups.iter().find(|(name, _)| name == n).map(|(_, r)| r.clone());
        let pending_first = |on_sender: bool| -> Option<String> {
            let mine = match pd {
                // (the future of a batchable send is detached from the handle: it only has to fail; the
                // handle itself learns why through its next call)
                // (BatchableGrantedWithFault: the call itself was waiting on the handle; whether the error came from the call
                // or from the outcome future it returned is not told apart - the permissive reading)
                Pending::SendWaitingCredit | Pending::SendAwaitingOutcome | Pending::BatchableGrantedWithFault => on_sender,
                Pending::RecvWaiting => !on_sender,
                _ => false,
            };
            (mine && o.pending_was_pending && pending_affected(pd, flt)).then(|| o.pending_result.clone())
        };
        let mut firsts: Vec<(&str, String)> = vec![];
        if cl || sl || s_l {
            if let Some(r) = pending_first(true).or_else(|| fu("send")) {
                firsts.push(("send", r));
            }
        }
        if cl || sl || r_l {
            if let Some(r) = pending_first(false).or_else(|| fu("recv")) {
                firsts.push(("recv", r));
            }
        }
        for (name, r) in firsts {
            if !r.starts_with("err:") {
                continue;
            }
            if carries(flt) && !r.contains(COND_DBG) {
                f.push((format!("peer-error-lost op={name} fault={:?}", flt), format!("{what}: the peer supplied the condition resource-limit-exceeded but the first {name} to observe the stop reports {r}; {}", all())));
            }
            let scope_ok = if cl {
                r.contains("Connection") || r.contains("Transport") || r.contains("Io(")
            } else if sl {
                r.contains("Session") || r.contains("RemoteEnded")
            } else {
                r.contains("Detach") || r.contains("RemoteClosed") || r.contains("Closed")
            };
            if !scope_ok {
                f.push((format!("wrong-scope op={name} fault={:?}", flt), format!("{what}: the first {name} to observe the stop reports {r}, which does not say that the {scope_name} stopped; {}", all())));
            }
        }
    }
    // ---- the handle of the stopped scope reports the peer's / the transport's error itself (first teardown call on it)
    let conn_first = if matches!(pd, Pending::ClosePending | Pending::CloseErrPending) { Some(o.pending_result.clone()) } else { o.followups.iter().find(|(n, _)| n == "connection.close").map(|(_, r)| r.clone()) };
    if let Some(r) = conn_first {
        if matches!(flt, Flt::PeerCloseErr | Flt::PeerCloseErrThenReset | Flt::PeerCloseErrThenDrop | Flt::PeerCloseErrThenEofAtOnce) && !r.contains(COND_DBG) {
            f.push((format!("connection-handle-lost-peer-error fault={:?}", flt), format!("{what}: connection.close() reports {r}, the peer closed with resource-limit-exceeded; {}", all())));
        }
        if matches!(flt, Flt::Eof | Flt::Reset | Flt::PeerHalfClose) && r == "ok" {
            f.push((format!("connection-handle-hides-transport-failure fault={:?}", flt), format!("{what}: the transport broke but connection.close() returned Ok; {}", all())));
        }
    }
    let sess_first = if pd == Pending::EndPending { Some(o.pending_result.clone()) } else { o.followups.iter().find(|(n, _)| n == "session.end").map(|(_, r)| r.clone()) };
    if let Some(r) = sess_first {
        // (not judged when the application was already closing the whole connection: then the session
        // went down with it and "closed" is the truth)
        if flt == Flt::PeerEndErr && !matches!(pd, Pending::ClosePending | Pending::CloseErrPending) && !r.contains(COND_DBG) {
            f.push(("session-handle-lost-peer-error".into(), format!("{what}: session.end() reports {r}, the peer ended with resource-limit-exceeded; {}", all())));
        }
    }
    if pd == Pending::DetachPending && matches!(flt, Flt::PeerDetachSErr) && !o.pending_result.contains(COND_DBG) {
        f.push(("link-handle-lost-peer-error".into(), format!("{what}: sender.close() reports {}, the peer closed the link with resource-limit-exceeded", o.pending_result)));
    }
    // ---- all engine tasks terminate once the connection stopped and every handle is gone
    if o.alive_tasks_end > 0 && cl {
        f.push((format!("engine-tasks-alive fault={:?}", flt), format!("{what}: {} task(s) still alive after every handle was closed/dropped", o.alive_tasks_end)));
    }
    f
}

// ================================================================================================ Part A
#[derive(Debug, Clone, Default)]
pub struct AObs {
    pub ops: Vec<(String, String, bool)>, // (name, result, issued after the fault fired)
    pub listener: Vec<String>,
    pub alive_tasks_end: usize,
    pub bytes: [usize; 2],
    pub broken: bool,
}

/// the reference conversation; `fault` = None measures the byte counts
// ---------------------------------------------------------------------------------------------------------
// Part E: the LISTENER side, on a session that accepts transactions (SessionAcceptor with a control-link
// acceptor: the session engine then runs on the transactional session type).  A scripted client attaches as a
// receiver, the listener's Sender has the outcome of a send_batchable() outstanding, and the client closes /
// ends / goes away.  The outcome future and a later send() have to come back.

#[derive(Debug, Clone, Copy, PartialEq, Eq, Hash)]
pub enum EFlt {
    PeerCloseErr,
    PeerClose,
    PeerEndErr,
    PeerEnd,
    Eof,
    Reset,
}
pub const EFAULTS: [EFlt; 6] = [EFlt::PeerCloseErr, EFlt::PeerClose, EFlt::PeerEndErr, EFlt::PeerEnd, EFlt::Eof, EFlt::Reset];

#[derive(Debug, Clone, Default)]
pub struct EObs {
    pub machinery: Option<String>,
    pub outcome: String,
    pub later_send: String,
    pub trace: Vec<String>,
}

pub async fn scenario_e(txn_session: bool, flt: EFlt) -> EObs {
    use fe2o3_amqp::transaction::coordinator::ControlLinkAcceptor;
    use fe2o3_amqp_types::definitions::{ReceiverSettleMode, Role};
    use fe2o3_amqp_types::messaging::{Source, Target};
    use vlib::peer::{Peer, AMQP_HEADER};
    let mut obs = EObs::default();
    let (pipe, a, _b) = Pipe::new();
    let (tx, mut rx) = tokio::sync::mpsc::unbounded_channel::<String>();
    let lst = tokio::spawn(async move {
        let acceptor = ConnectionAcceptor::new("listener");
        let mut conn = match acceptor.accept(a).await {
            Ok(c) => c,
            Err(e) => {
                let _ = tx.send(format!("MACHINERY accept: {e:?}"));
                return;
            }
        };
        let sacc = if txn_session { SessionAcceptor::builder().control_link_acceptor(ControlLinkAcceptor::default()).build() } else { SessionAcceptor::builder().build() };
        let mut session = match sacc.accept(&mut conn).await {
            Ok(s) => s,
            Err(e) => {
                let _ = tx.send(format!("MACHINERY session accept: {e:?}"));
                return;
            }
        };
        let mut sender = match LinkAcceptor::new().accept(&mut session).await {
            Ok(LinkEndpoint::Sender(s)) => s,
            other => {
                let _ = tx.send(format!("MACHINERY link accept: {:?}", other.map(|_| "not a sender")));
                return;
            }
        };
        let fut = match sender.send_batchable("from the listener").await {
            Ok(f) => f,
            Err(e) => {
                let _ = tx.send(format!("MACHINERY send_batchable: {e:?}"));
                return;
            }
        };
        let _ = tx.send("READY".to_string());
        let r = tokio::time::timeout(Duration::from_secs(10), fut).await;
        let _ = tx.send(format!("OUTCOME {}", match r { Err(_) => "HANGS".to_string(), Ok(Ok(o)) => format!("ok:{o:?}"), Ok(Err(e)) => format!("err:{e:?}") }));
        let r = tokio::time::timeout(Duration::from_secs(10), sender.send("later")).await;
        let _ = tx.send(format!("LATER {}", match r { Err(_) => "HANGS".to_string(), Ok(Ok(o)) => format!("ok:{o:?}"), Ok(Err(e)) => format!("err:{e:?}") }));
        // keep the handles alive to the end: nothing is torn down by a drop
        let _ = tokio::time::timeout(Duration::from_secs(5), conn.on_close()).await;
        drop(sender);
        drop(session);
    });
    let mut peer = Peer::new(pipe.clone(), 1, Auto::none());
    peer.send_proto_header(AMQP_HEADER);
    peer.send(0, Performative::Open(Open { container_id: "scripted-client".into(), hostname: None, max_frame_size: 4096.into(), channel_max: 10.into(), idle_time_out: None, outgoing_locales: None, incoming_locales: None, offered_capabilities: None, desired_capabilities: None, properties: None }));
    settle(&mut peer, 2).await;
    peer.send(0, Performative::Begin(Begin { remote_channel: None, next_outgoing_id: 0, incoming_window: 1000, outgoing_window: 1000, handle_max: Default::default(), offered_capabilities: None, desired_capabilities: None, properties: None }));
    settle(&mut peer, 2).await;
    peer.send(
        0,
        Performative::Attach(Attach {
            name: "from-listener".into(),
            handle: Handle(0),
            role: Role::Receiver,
            snd_settle_mode: SenderSettleMode::Unsettled,
            rcv_settle_mode: ReceiverSettleMode::First,
            source: Some(Box::new(Source::builder().address("q").build())),
            target: Some(Box::new(Target::builder().address("client").build().into())),
            unsettled: None,
            incomplete_unsettled: false,
            initial_delivery_count: None,
            max_message_size: None,
            offered_capabilities: None,
            desired_capabilities: None,
            properties: None,
        }),
    );
    settle(&mut peer, 3).await;
    let mut f = Flow { next_incoming_id: Some(0), incoming_window: 1000, next_outgoing_id: 0, outgoing_window: 1000, handle: Some(Handle(0)), delivery_count: Some(0), link_credit: Some(10), available: None, drain: false, echo: false, properties: None };
    f.echo = false;
    peer.send(0, Performative::Flow(f));
    // wait for READY
    let mut ready = false;
    for _ in 0..20 {
        settle(&mut peer, 1).await;
        while let Ok(m) = rx.try_recv() {
            if m == "READY" {
                ready = true;
            } else if m.starts_with("MACHINERY") {
                obs.machinery = Some(m);
            }
        }
        if ready || obs.machinery.is_some() {
            break;
        }
    }
    if !ready {
        if obs.machinery.is_none() {
            obs.machinery = Some(format!("part E: the listener never got as far as an outstanding batchable send; trace {:?}", trace_to_strings(&peer.trace)));
        }
        lst.abort();
        return obs;
    }
    settle(&mut peer, 2).await;
    let cond = || amqp_error(AmqpError::ResourceLimitExceeded, "scripted");
    match flt {
        EFlt::PeerCloseErr => peer.send(0, Performative::Close(Close { error: Some(cond()) })),
        EFlt::PeerClose => peer.send(0, Performative::Close(Close { error: None })),
        EFlt::PeerEndErr => peer.send(0, Performative::End(End { error: Some(cond()) })),
        EFlt::PeerEnd => peer.send(0, Performative::End(End { error: None })),
        EFlt::Eof => pipe.break_now(FaultMode::Eof),
        EFlt::Reset => pipe.break_now(FaultMode::Reset),
    }
    // virtual time: the listener's own 10 s time-outs decide
    for _ in 0..30 {
        tokio::time::sleep(Duration::from_secs(1)).await;
        peer.pump();
        while let Ok(m) = rx.try_recv() {
            if let Some(r) = m.strip_prefix("OUTCOME ") {
                obs.outcome = r.to_string();
            } else if let Some(r) = m.strip_prefix("LATER ") {
                obs.later_send = r.to_string();
            }
        }
        if !obs.later_send.is_empty() {
            break;
        }
    }
    obs.trace = trace_to_strings(&peer.trace);
    lst.abort();
    obs
}

fn judge_e(txn: bool, flt: EFlt, o: &EObs) -> Vec<(String, String)> {
    let mut f = vec![];
    let what = format!("listener session {} transactions, fault {:?}", if txn { "WITH" } else { "without" }, flt);
    let tag = if txn { "txn-session" } else { "plain-session" };
    if o.outcome.is_empty() || o.outcome == "HANGS" {
        f.push((format!("listener-op-hangs op=batchable-outcome {tag} fault={flt:?}"), format!("{what}: the outcome of the listener's send_batchable() was still pending 10 s after the fault; trace {:?}", o.trace)));
    } else if o.outcome.starts_with("ok:") {
        f.push((format!("listener-op-ok-after-fault op=batchable-outcome {tag} fault={flt:?}"), format!("{what}: the delivery never got an outcome from the peer, yet the future resolved {}", o.outcome)));
    }
    if o.later_send.is_empty() || o.later_send == "HANGS" {
        f.push((format!("listener-op-hangs op=send {tag} fault={flt:?}"), format!("{what}: a send() issued after the fault was still pending after 10 s")));
    } else if o.later_send.starts_with("ok:") {
        f.push((format!("listener-op-ok-after-fault op=send {tag} fault={flt:?}"), format!("{what}: a send() issued after the fault succeeded: {}", o.later_send)));
    }
    f
}

fn part_e(out: &mut Outcome) -> u64 {
    let mut n = 0;
    for txn in [true, false] {
        for flt in EFAULTS {
            let scen: Scenario<EObs> = Arc::new(move || Box::pin(scenario_e(txn, flt)));
            let ex = run_exec(vec![], &RunCfg::none(), &scen);
            n += 1;
            let rj = json!({"part": "E", "txn_session": txn, "fault": format!("{:?}", flt)});
            match ex.out {
                None => out.machinery_errors.push(format!("part E scenario died: {:?}", ex.panics)),
                Some(o) => {
                    if let Some(m) = &o.machinery {
                        out.machinery_errors.push(m.clone());
                        continue;
                    }
                    for p in ex.panics.iter().filter(|p| !p.contains("vcheck/src")) {
                        out.violation(format!("panic part E fault={flt:?}"), format!("a library task panicked: {p}"), rj.clone());
                    }
                    for (s, d) in judge_e(txn, flt, &o) {
                        out.violation(s, d, rj.clone());
                    }
                }
            }
        }
    }
    n
}

// ---------------------------------------------------------------------------------------------------------
// Part F: operations of a transaction CONTROLLER (declare, commit, rollback are sends on the control link whose
// outcome is awaited) pending when the coordinator detaches the control link, ends the session, closes, or the
// transport goes away.

#[derive(Debug, Clone, Copy, PartialEq, Eq, Hash)]
pub enum FOp {
    Declare,
    Commit,
    Rollback,
    /// commit of a transactional ACQUISITION (txn.acquire(&mut receiver, credit)): its clean-up flow and the discharge
    AcqCommit,
}
#[derive(Debug, Clone, Copy, PartialEq, Eq, Hash)]
pub enum FFlt {
    CtlDetachOpenErr,
    CtlDetachClosedErr,
    CtlDetachClosed,
    PeerEndErr,
    PeerCloseErr,
    Eof,
}
pub const FOPS: [FOp; 4] = [FOp::Declare, FOp::Commit, FOp::Rollback, FOp::AcqCommit];
pub const FFAULTS: [FFlt; 6] = [FFlt::CtlDetachOpenErr, FFlt::CtlDetachClosedErr, FFlt::CtlDetachClosed, FFlt::PeerEndErr, FFlt::PeerCloseErr, FFlt::Eof];

#[derive(Debug, Clone, Default)]
pub struct FObs {
    pub machinery: Option<String>,
    pub result: String,
    pub was_pending: bool,
    pub trace: Vec<String>,
}

pub async fn scenario_f(opk: FOp, flt: FFlt) -> FObs {
    use fe2o3_amqp::transaction::{Controller, Transaction, TransactionAcquisition, TransactionDischarge};
    use fe2o3_amqp_types::definitions::Role;
    use fe2o3_amqp_types::messaging::DeliveryState;
    use fe2o3_amqp_types::transaction::Declared;
    use vlib::peer::{Body, Dirn};
    let mut obs = FObs::default();
    let mut auto = Auto::default();
    auto.max_frame_size = 4096;
    auto.grant_credit = Some(100);
    auto.accept_transfers = false;
    let mut c = match scen::open_client(auto, 4096).await {
        Ok(c) => c,
        Err(e) => {
            obs.machinery = Some(e);
            return obs;
        }
    };
    let mut session = match scen::begin(&mut c, Session::builder()).await {
        Ok(s) => s,
        Err(e) => {
            obs.machinery = Some(e);
            return obs;
        }
    };
    let ctrl: &'static Controller = match drive(&mut c.peer, Controller::attach(&mut session, "ctl"), scen::H).await {
        Some(Ok(x)) => Box::leak(Box::new(x)),
        other => {
            obs.machinery = Some(format!("part F: controller attach: {:?}", other.map(|r| r.map(|_| ()).map_err(|e| format!("{e:?}")))));
            return obs;
        }
    };
    settle(&mut c.peer, 2).await;
    let ctl_our_handle = c.peer.links.last().map(|l| l.our_handle).unwrap_or(0);
    // the last delivery the library sent on the control link, and an answer to it
    let last_transfer = |peer: &vlib::peer::Peer| {
        peer.trace.iter().rev().find_map(|w| match (&w.body, w.dir) {
            (Body::Perf(Performative::Transfer(t)), Dirn::FromLib) => t.delivery_id,
            _ => None,
        })
    };
    let task: tokio::task::JoinHandle<String> = match opk {
        FOp::Declare => tokio::spawn(async move { op(async { Transaction::declare(ctrl, None).await.map(|_| ()) }).await }),
        FOp::Commit | FOp::Rollback | FOp::AcqCommit => {
            // declare first, answered by the scripted coordinator
            let dfut = Transaction::declare(ctrl, None);
            tokio::pin!(dfut);
            let mut answered = false;
            let start = tokio::time::Instant::now();
            let txn = loop {
                tokio::select! { biased;
                    r = &mut dfut => break r.ok(),
                    _ = tokio::time::sleep(Duration::from_millis(1)) => {
                        c.peer.pump();
                        if !answered {
                            if let Some(id) = last_transfer(&c.peer) {
                                let st = DeliveryState::Declared(Declared { txn_id: serde_bytes::ByteBuf::from(b"txn-f".to_vec()) });
                                c.peer.send(0, Performative::Disposition(Disposition { role: Role::Receiver, first: id, last: None, settled: true, state: Some(st), batchable: false }));
                                answered = true;
                            }
                        }
                        if start.elapsed() > scen::H { break None; }
                    }
                }
            };
            let Some(txn) = txn else {
                obs.machinery = Some(format!("part F: the declare before the {:?} did not succeed; trace {:?}", opk, trace_to_strings(&c.peer.trace)));
                return obs;
            };
            if opk == FOp::AcqCommit {
                // a receiving link on the same session; the acquisition puts the txn-id on its flow
                let rx: &'static mut Receiver = match drive(&mut c.peer, Receiver::attach(&mut session, "acq-r", "q"), scen::H).await {
                    Some(Ok(r)) => Box::leak(Box::new(r)),
                    _ => {
                        obs.machinery = Some("part F: receiver attach for the acquisition failed".into());
                        return obs;
                    }
                };
                let acq = match drive(&mut c.peer, txn.acquire(rx, 1), scen::H).await {
                    Some(Ok(a)) => a,
                    other => {
                        obs.machinery = Some(format!("part F: acquire failed: {:?}", other.map(|r| r.map(|_| ()).map_err(|e| format!("{e:?}")))));
                        return obs;
                    }
                };
                tokio::spawn(async move { op(async { acq.commit().await }).await })
            } else {
                let commit = opk == FOp::Commit;
                tokio::spawn(async move { op(async { if commit { txn.commit().await } else { txn.rollback().await } }).await })
            }
        }
    };
    settle(&mut c.peer, 3).await;
    obs.was_pending = !task.is_finished();
    let cond = || amqp_error(AmqpError::ResourceLimitExceeded, "peer says no");
    match flt {
        FFlt::CtlDetachOpenErr => c.peer.send(0, Performative::Detach(Detach { handle: Handle(ctl_our_handle), closed: false, error: Some(cond()) })),
        FFlt::CtlDetachClosedErr => c.peer.send(0, Performative::Detach(Detach { handle: Handle(ctl_our_handle), closed: true, error: Some(cond()) })),
        FFlt::CtlDetachClosed => c.peer.send(0, Performative::Detach(Detach { handle: Handle(ctl_our_handle), closed: true, error: None })),
        FFlt::PeerEndErr => c.peer.send(0, Performative::End(End { error: Some(cond()) })),
        FFlt::PeerCloseErr => c.peer.send(0, Performative::Close(Close { error: Some(cond()) })),
        FFlt::Eof => c.pipe.break_now(FaultMode::Eof),
    }
    // the op() wrapper gives up after OP_TIMEOUT of virtual time
    let start = tokio::time::Instant::now();
    while !task.is_finished() && start.elapsed() < OP_TIMEOUT + Duration::from_secs(5) {
        tokio::time::sleep(Duration::from_secs(1)).await;
        c.peer.pump();
    }
    obs.result = if task.is_finished() { task.await.unwrap_or_else(|e| format!("task died: {e}")) } else { "TIMEOUT".into() };
    obs.trace = trace_to_strings(&c.peer.trace);
    drop(session);
    obs
}

fn judge_f(opk: FOp, flt: FFlt, o: &FObs) -> Vec<(String, String)> {
    let mut f = vec![];
    let what = format!("controller op {:?} pending={}, fault {:?}", opk, o.was_pending, flt);
    if o.result.starts_with("task died") {
        f.push((format!("controller-op-panics op={:?} fault={:?}", opk, flt), format!("{what}: the application task that awaited the call died: {}", o.result)));
    } else if o.result == "TIMEOUT" {
        f.push((format!("controller-op-hangs op={:?} fault={:?}", opk, flt), format!("{what}: the call never returned ({} s of virtual time); trace {:?}", OP_TIMEOUT.as_secs(), o.trace)));
    } else if o.result == "ok" {
        f.push((format!("controller-op-ok-after-fault op={:?} fault={:?}", opk, flt), format!("{what}: the coordinator never answered, yet the call returned Ok")));
    } else if matches!(flt, FFlt::CtlDetachOpenErr | FFlt::CtlDetachClosedErr | FFlt::PeerEndErr | FFlt::PeerCloseErr) && !o.result.contains(COND_DBG) {
        f.push((format!("controller-op-lost-peer-error op={:?} fault={:?}", opk, flt), format!("{what}: the peer supplied the condition resource-limit-exceeded, the call reports {}", o.result)));
    }
    f
}

// Part I: a link resumed ON ANOTHER SESSION learns why THAT session stops.  A sender attached on session A is detached
// (not closed) and resumed on session B (`DetachedSender::resume_on_session`); optionally A is ended locally
// afterwards.  Then the peer ends B with an error: the next send on the link fails, says that the session stopped and
// carries the peer's condition.
pub async fn scenario_i(end_old_first: bool, receiver_side: bool) -> (Vec<(String, String)>, Vec<String>, Option<String>) {
    let mut fails = vec![];
    let mut auto = Auto::default();
    auto.max_frame_size = 4096;
    auto.grant_credit = Some(100);
    let mut c = match scen::open_client(auto, 4096).await {
        Ok(c) => c,
        Err(e) => return (fails, vec![], Some(e)),
    };
    let mut sa = match scen::begin(&mut c, Session::builder()).await {
        Ok(s) => s,
        Err(e) => return (fails, vec![], Some(e)),
    };
    let mut sb = match scen::begin(&mut c, Session::builder()).await {
        Ok(s) => s,
        Err(e) => return (fails, vec![], Some(e)),
    };
    let cond = || amqp_error(AmqpError::ResourceLimitExceeded, "peer says no");
    let what = format!("{} attached on session A, detached, resumed on session B{}; the peer ends B with resource-limit-exceeded", if receiver_side { "receiver" } else { "sender" }, if end_old_first { ", A ended by the application" } else { "" });
    let result: String;
    if !receiver_side {
        let s = match drive(&mut c.peer, Sender::attach(&mut sa, "s", "q"), scen::H).await {
            Some(Ok(s)) => s,
            _ => return (fails, trace_to_strings(&c.peer.trace), Some("part I: attach failed".into())),
        };
        let det = match drive(&mut c.peer, s.detach(), scen::H).await {
            Some(Ok(d)) => d,
            _ => return (fails, trace_to_strings(&c.peer.trace), Some("part I: detach failed".into())),
        };
        let mut s = match drive(&mut c.peer, det.resume_on_session(&sb), scen::H).await {
            Some(Ok(s)) => s,
            other => return (fails, trace_to_strings(&c.peer.trace), Some(format!("part I: resume_on_session failed: {:?}", other.map(|r| r.map(|_| ()).map_err(|e| format!("{:?}", e.kind)))))),
        };
        settle(&mut c.peer, 2).await;
        if end_old_first {
            let _ = drive(&mut c.peer, sa.end(), scen::H).await;
        }
        let chb = c.peer.sessions.values().map(|x| x.our_channel).max().unwrap_or(1);
        c.peer.send(chb, Performative::End(End { error: Some(cond()) }));
        settle(&mut c.peer, 3).await;
        result = drive(&mut c.peer, op(s.send("after the end of B")), OP_TIMEOUT + Duration::from_secs(5)).await.unwrap_or("TIMEOUT".into());
    } else {
        let r = match drive(&mut c.peer, Receiver::attach(&mut sa, "r", "q"), scen::H).await {
            Some(Ok(r)) => r,
            _ => return (fails, trace_to_strings(&c.peer.trace), Some("part I: attach failed".into())),
        };
        let det = match drive(&mut c.peer, r.detach(), scen::H).await {
            Some(Ok(d)) => d,
            _ => return (fails, trace_to_strings(&c.peer.trace), Some("part I: detach failed".into())),
        };
        let mut r = match drive(&mut c.peer, det.resume_on_session(&sb), scen::H).await {
            Some(Ok(r)) => match r.complete_or(()) {
                Ok(r) => r,
                Err(_) => return (fails, trace_to_strings(&c.peer.trace), Some("part I: receiver resume incomplete".into())),
            },
            other => return (fails, trace_to_strings(&c.peer.trace), Some(format!("part I: resume_on_session failed: {:?}", other.map(|r| r.map(|_| ()).map_err(|e| format!("{:?}", e.kind)))))),
        };
        settle(&mut c.peer, 2).await;
        if end_old_first {
            let _ = drive(&mut c.peer, sa.end(), scen::H).await;
        }
        let chb = c.peer.sessions.values().map(|x| x.our_channel).max().unwrap_or(1);
        c.peer.send(chb, Performative::End(End { error: Some(cond()) }));
        settle(&mut c.peer, 3).await;
        result = drive(&mut c.peer, op(r.recv::<Value>()), OP_TIMEOUT + Duration::from_secs(5)).await.unwrap_or("TIMEOUT".into());
    }
    if result == "TIMEOUT" {
        fails.push(("resumed-on-other-session: op-hangs".to_string(), format!("{what}: the next operation on the link never returned")));
    } else if result == "ok" {
        fails.push(("resumed-on-other-session: op-succeeds".to_string(), format!("{what}: the next operation on the link returned Ok")));
    } else {
        if !result.contains("SessionStopped") {
            fails.push(("resumed-on-other-session: wrong-scope".to_string(), format!("{what}: the next operation on the link reports {result}, which does not say that the session stopped")));
        }
        if !result.contains(COND_DBG) {
            fails.push(("resumed-on-other-session: peer-error-lost".to_string(), format!("{what}: the next operation on the link reports {result}, without the peer's condition")));
        }
    }
    drop(sb);
    (fails, trace_to_strings(&c.peer.trace), None)
}

fn part_i(out: &mut Outcome) -> u64 {
    let mut n = 0;
    for end_old_first in [false, true] {
        for receiver_side in [false, true] {
            let scen: Scenario<(Vec<(String, String)>, Vec<String>, Option<String>)> = Arc::new(move || Box::pin(scenario_i(end_old_first, receiver_side)));
            let ex = run_exec(vec![], &RunCfg::none(), &scen);
            n += 1;
            match ex.out {
                Some((fails, trace, mach)) => {
                    if let Some(m) = mach {
                        out.machinery_errors.push(m);
                    }
                    for (s, d) in fails {
                        out.violation(s, d, json!({"part": "I", "end_old_first": end_old_first, "receiver_side": receiver_side, "trace": trace}));
                    }
                }
                None => out.machinery_errors.push(format!("part I scenario died: {:?}", ex.panics)),
            }
        }
    }
    n
}

fn part_f(out: &mut Outcome) -> u64 {
    let mut n = 0;
    for opk in FOPS {
        for flt in FFAULTS {
            let scen: Scenario<FObs> = Arc::new(move || Box::pin(scenario_f(opk, flt)));
            let ex = run_exec(vec![], &RunCfg::none(), &scen);
            n += 1;
            let rj = json!({"part": "F", "op": format!("{:?}", opk), "fault": format!("{:?}", flt)});
            match ex.out {
                None => out.machinery_errors.push(format!("part F scenario died: {:?}", ex.panics)),
                Some(o) => {
                    if let Some(m) = &o.machinery {
                        out.machinery_errors.push(m.clone());
                        continue;
                    }
                    if !o.was_pending {
                        out.machinery_errors.push(format!("part F {:?}/{:?}: the operation was not pending when the fault came ({})", opk, flt, o.result));
                        continue;
                    }
                    for (s, d) in judge_f(opk, flt, &o) {
                        out.violation(s, d, rj.clone());
                    }
                }
            }
        }
    }
    n
}

pub async fn scenario_a(fault: Option<Fault>) -> AObs {
    let mut obs = AObs::default();
    let (pipe, a, b) = Pipe::new();
    pipe.set_shutdown_fails_when_broken(true);
    if let Some(f) = fault {
        pipe.set_fault(f);
    }
    // ---------------- listener
    let lst = tokio::spawn(async move {
        let mut log = vec![];
        let acceptor = ConnectionAcceptor::new("listener");
        let mut conn = match tokio::time::timeout(OP_TIMEOUT, acceptor.accept(b)).await {
            Ok(Ok(c)) => c,
            Ok(Err(e)) => return vec![format!("accept err:{:?}", e)],
            Err(_) => return vec!["accept TIMEOUT".to_string()],
        };
        let sacc = SessionAcceptor::default();
        let mut session = match tokio::time::timeout(OP_TIMEOUT, sacc.accept(&mut conn)).await {
            Ok(Ok(s)) => s,
            Ok(Err(e)) => {
                log.push(format!("session accept err:{:?}", e));
                log.push(format!("conn.on_close {}", op(conn.on_close()).await));
                return log;
            }
            Err(_) => return vec!["session accept TIMEOUT".to_string()],
        };
        let lacc = LinkAcceptor::new();
        let mut link_tasks = vec![];
        for _ in 0..2 {
            match tokio::time::timeout(OP_TIMEOUT, lacc.accept(&mut session)).await {
                Ok(Ok(LinkEndpoint::Receiver(mut r))) => link_tasks.push(tokio::spawn(async move {
                    let mut l = vec![];
                    loop {
                        match tokio::time::timeout(OP_TIMEOUT, r.recv::<Value>()).await {
                            Ok(Ok(d)) => {
                                l.push("listener recv ok".to_string());
                                let _ = tokio::time::timeout(OP_TIMEOUT, r.accept(&d)).await;
                            }
                            Ok(Err(e)) => {
                                l.push(format!("listener recv err:{:?}", e));
                                break;
                            }
                            Err(_) => {
                                l.push("listener recv TIMEOUT".to_string());
                                break;
                            }
                        }
                    }
                    l.push(format!("listener receiver.close {}", op(r.close()).await));
                    l
                })),
                Ok(Ok(LinkEndpoint::Sender(mut s))) => link_tasks.push(tokio::spawn(async move {
                    let mut l = vec![];
                    l.push(format!("listener send {}", op(s.send("from the listener")).await));
                    l.push(format!("listener sender.on_detach {:?}", tokio::time::timeout(OP_TIMEOUT, s.on_detach()).await.map(|e| format!("{:?}", e)).unwrap_or("TIMEOUT".into())));
                    l.push(format!("listener sender.close {}", op(s.close()).await));
                    l
                })),
                Ok(Err(e)) => {
                    log.push(format!("link accept err:{:?}", e));
                    break;
                }
                Err(_) => {
                    log.push("link accept TIMEOUT".to_string());
                    break;
                }
            }
        }
        log.push(format!("session.on_end {}", op(session.on_end()).await));
        for t in link_tasks {
            match tokio::time::timeout(OP_TIMEOUT * 3, t).await {
                Ok(Ok(l)) => log.extend(l),
                Ok(Err(e)) => log.push(format!("listener link task died: {e}")),
                Err(_) => log.push("listener link task TIMEOUT".to_string()),
            }
        }
        log.push(format!("conn.on_close {}", op(conn.on_close()).await));
        log
    });
    // ---------------- client
    let p = pipe.clone();
    let mut ops: Vec<(String, String, bool)> = vec![];
    macro_rules! step {
        ($name:expr, $fut:expr) => {{
            let after = p.broken();
            let r = op($fut).await;
            ops.push(($name.to_string(), r.clone(), after));
            r
        }};
    }
    let conn = tokio::time::timeout(OP_TIMEOUT, Connection::builder().container_id("client").max_frame_size(512).open_with_stream(a)).await;
    match conn {
        Err(_) => ops.push(("open".into(), "TIMEOUT".into(), false)),
        Ok(Err(e)) => ops.push(("open".into(), format!("err:{:?}", e), false)),
        Ok(Ok(mut conn)) => {
            ops.push(("open".into(), "ok".into(), false));
            let after = p.broken();
            match tokio::time::timeout(OP_TIMEOUT, Session::begin(&mut conn)).await {
                Err(_) => ops.push(("begin".into(), "TIMEOUT".into(), after)),
                Ok(Err(e)) => ops.push(("begin".into(), format!("err:{:?}", e), after)),
                Ok(Ok(mut session)) => {
                    ops.push(("begin".into(), "ok".into(), after));
                    let after = p.broken();
                    let s = tokio::time::timeout(OP_TIMEOUT, Sender::attach(&mut session, "c-s", "q")).await;
                    let after_r = p.broken();
                    let r = tokio::time::timeout(OP_TIMEOUT, Receiver::attach(&mut session, "c-r", "q")).await;
                    match s {
                        Err(_) => ops.push(("attach sender".into(), "TIMEOUT".into(), after)),
                        Ok(Err(e)) => ops.push(("attach sender".into(), format!("err:{:?}", e), after)),
                        Ok(Ok(mut sender)) => {
                            ops.push(("attach sender".into(), "ok".into(), after));
                            step!("send small", sender.send("hello"));
                            step!("send multi-frame", sender.send("x".repeat(1300)));
                            let after_b = p.broken();
                            match tokio::time::timeout(OP_TIMEOUT, sender.send_batchable("batchable")).await {
                                Ok(Ok(fut)) => {
                                    step!("send after batchable", sender.send("one more"));
                                    let rr = op(fut).await;
                                    ops.push(("batchable outcome".into(), rr, after_b));
                                }
                                Ok(Err(e)) => ops.push(("send_batchable".into(), format!("err:{:?}", e), after_b)),
                                Err(_) => ops.push(("send_batchable".into(), "TIMEOUT".into(), after_b)),
                            }
                            step!("sender.close", sender.close());
                        }
                    }
                    match r {
                        Err(_) => ops.push(("attach receiver".into(), "TIMEOUT".into(), after_r)),
                        Ok(Err(e)) => ops.push(("attach receiver".into(), format!("err:{:?}", e), after_r)),
                        Ok(Ok(mut receiver)) => {
                            ops.push(("attach receiver".into(), "ok".into(), after_r));
                            let after = p.broken();
                            match tokio::time::timeout(OP_TIMEOUT, receiver.recv::<Value>()).await {
                                Ok(Ok(d)) => {
                                    ops.push(("recv".into(), "ok".into(), after));
                                    step!("accept", receiver.accept(&d));
                                }
                                Ok(Err(e)) => ops.push(("recv".into(), format!("err:{:?}", e), after)),
                                Err(_) => ops.push(("recv".into(), "TIMEOUT".into(), after)),
                            }
                            step!("receiver.close", receiver.close());
                        }
                    }
                    step!("session.end", session.end());
                }
            }
            step!("connection.close", conn.close());
        }
    }
    obs.ops = ops;
    obs.listener = match tokio::time::timeout(OP_TIMEOUT * 6, lst).await {
        Ok(Ok(l)) => l,
        Ok(Err(e)) => vec![format!("listener task died: {e}")],
        Err(_) => vec!["listener TIMEOUT".to_string()],
    };
    tokio::time::sleep(Duration::from_millis(5)).await;
    obs.alive_tasks_end = tokio::runtime::Handle::current().metrics().num_alive_tasks();
    obs.bytes = [pipe.written(0), pipe.written(1)];
    obs.broken = pipe.broken();
    obs
}

fn judge_a(fault: &Fault, o: &AObs, panics: &[String]) -> Vec<(String, String)> {
    let mut f = vec![];
    let mode = match fault.mode {
        FaultMode::Eof => "eof",
        FaultMode::Reset => "reset",
        FaultMode::StallThenEof(_) => "stall-then-eof",
    };
    let what = format!("transport cut ({mode}) after {} bytes {}", fault.at, if fault.dir == 0 { "client->listener" } else { "listener->client" });
    for p in panics.iter().filter(|p| !p.contains("vcheck/src")) {
        f.push((format!("panic transport-{mode}"), format!("{what}: a library task panicked: {p}")));
    }
    for (name, r, _) in &o.ops {
        if r == "TIMEOUT" {
            f.push((format!("client-op-hangs op={name} transport-{mode}"), format!("{what}: client {name} never completed; client ops {:?}", o.ops)));
        }
    }
    for l in &o.listener {
        if l.contains("TIMEOUT") {
            f.push((format!("listener-op-hangs {} transport-{mode}", l.split(' ').take(3).collect::<Vec<_>>().join(" ")), format!("{what}: listener side: {l}; listener log {:?}", o.listener)));
        }
        if l.contains("task died") {
            f.push((format!("listener-task-died transport-{mode}"), format!("{what}: {l}")));
        }
    }
    // data-path operations issued after the cut fail
    for (name, r, after) in &o.ops {
        if *after && r == "ok" && matches!(name.as_str(), "begin" | "attach sender" | "attach receiver" | "send small" | "send multi-frame" | "send after batchable" | "batchable outcome") {
            f.push((format!("op-after-cut-succeeds op={name} transport-{mode}"), format!("{what}: client {name} was issued after the transport broke and returned Ok; ops {:?}", o.ops)));
        }
    }
    // the connection handle reports the failure
    if o.broken {
        if let Some((_, r, _)) = o.ops.iter().find(|(n, _, _)| n == "connection.close") {
            // a cut after the library had already received the peer's close may legitimately be clean
            let closes_exchanged = o.listener.iter().any(|l| l.starts_with("conn.on_close ok"));
            if r == "ok" && !closes_exchanged {
                f.push((format!("connection-handle-hides-transport-failure transport-{mode}"), format!("{what}: connection.close() returned Ok; listener log {:?}", o.listener)));
            }
        }
    }
    if o.alive_tasks_end > 0 {
        f.push((format!("engine-tasks-alive transport-{mode}"), format!("{what}: {} task(s) still alive after both sides finished", o.alive_tasks_end)));
    }
    f
}


// ================================================================================================ Part C
/// peer-initiated close / end / detach, injected behind every write of the library in a reference conversation
#[derive(Debug, Clone, Copy, PartialEq, Eq, Hash)]
pub enum CK {
    Close,
    CloseErr,
    End,
    EndErr,
    DetachS,
    DetachSErr,
    DetachSOpenErr,
    DetachR,
    DetachRErr,
    DetachROpenErr,
}
pub const CKS: [CK; 10] = [CK::Close, CK::CloseErr, CK::End, CK::EndErr, CK::DetachS, CK::DetachSErr, CK::DetachSOpenErr, CK::DetachR, CK::DetachRErr, CK::DetachROpenErr];

impl CK {
    fn perf(self) -> Performative {
        let e = Some(cond());
        match self {
            CK::Close => Performative::Close(Close { error: None }),
            CK::CloseErr => Performative::Close(Close { error: e }),
            CK::End => Performative::End(End { error: None }),
            CK::EndErr => Performative::End(End { error: e }),
            CK::DetachS => Performative::Detach(Detach { handle: Handle(0), closed: true, error: None }),
            CK::DetachSErr => Performative::Detach(Detach { handle: Handle(0), closed: true, error: e }),
            CK::DetachSOpenErr => Performative::Detach(Detach { handle: Handle(0), closed: false, error: e }),
            CK::DetachR => Performative::Detach(Detach { handle: Handle(1), closed: true, error: None }),
            CK::DetachRErr => Performative::Detach(Detach { handle: Handle(1), closed: true, error: e }),
            CK::DetachROpenErr => Performative::Detach(Detach { handle: Handle(1), closed: false, error: e }),
        }
    }
    fn conn(self) -> bool {
        matches!(self, CK::Close | CK::CloseErr)
    }
    fn sess(self) -> bool {
        matches!(self, CK::End | CK::EndErr)
    }
    fn on_s(self) -> bool {
        matches!(self, CK::DetachS | CK::DetachSErr | CK::DetachSOpenErr)
    }
    fn on_r(self) -> bool {
        matches!(self, CK::DetachR | CK::DetachRErr | CK::DetachROpenErr)
    }
    fn carries(self) -> bool {
        matches!(self, CK::CloseErr | CK::EndErr | CK::DetachSErr | CK::DetachSOpenErr | CK::DetachRErr | CK::DetachROpenErr)
    }
}

#[derive(Debug, Clone, Default)]
pub struct CObs {
    pub ops: Vec<(String, String, bool)>,
    pub alive_tasks_end: usize,
    pub fired: bool,
    pub trace: Vec<String>,
    /// (library bytes written so far, what the peer had sent by then) behind every write call of the library
    pub points: Vec<(usize, PeerSent)>,
    pub client_hung: bool,
}
#[derive(Debug, Clone, Copy, Default, PartialEq, Eq)]
pub struct PeerSent {
    pub open: bool,
    pub begin: bool,
    pub attach_s: bool,
    pub attach_r: bool,
    pub detach_s: bool,
    pub detach_r: bool,
    pub end: bool,
    pub close: bool,
}

pub async fn scenario_c(inject: Option<(usize, CK)>) -> CObs {
    let mut obs = CObs::default();
    let (pipe, a, _b) = Pipe::new();
    let mut auto = Auto::default();
    auto.grant_credit = Some(100);
    auto.accept_transfers = true;
    let mut peer = vlib::peer::Peer::new(pipe.clone(), 1, auto);
    if let Some((at, k)) = inject {
        peer.send_when_lib_wrote(at, 0, k.perf());
    }
    let p = pipe.clone();
    let client = tokio::spawn(async move {
        let mut ops: Vec<(String, String, bool)> = vec![];
        macro_rules! step {
            ($name:expr, $fut:expr) => {{
                let after = p.inject_fired();
                let r = op($fut).await;
                ops.push(($name.to_string(), r.clone(), after));
                r
            }};
        }
        let conn = tokio::time::timeout(OP_TIMEOUT, Connection::builder().container_id("client").max_frame_size(512).open_with_stream(a)).await;
        match conn {
            Err(_) => ops.push(("open".into(), "TIMEOUT".into(), false)),
            Ok(Err(e)) => ops.push(("open".into(), format!("err:{:?}", e), false)),
            Ok(Ok(mut conn)) => {
                ops.push(("open".into(), "ok".into(), false));
                let after = p.inject_fired();
                match tokio::time::timeout(OP_TIMEOUT, Session::begin(&mut conn)).await {
                    Err(_) => ops.push(("begin".into(), "TIMEOUT".into(), after)),
                    Ok(Err(e)) => ops.push(("begin".into(), format!("err:{:?}", e), after)),
                    Ok(Ok(mut session)) => {
                        ops.push(("begin".into(), "ok".into(), after));
                        let after = p.inject_fired();
                        let s = tokio::time::timeout(OP_TIMEOUT, Sender::attach(&mut session, "c-s", "q")).await;
                        let after_r = p.inject_fired();
                        let r = tokio::time::timeout(OP_TIMEOUT, Receiver::attach(&mut session, "c-r", "q")).await;
                        match s {
                            Err(_) => ops.push(("attach sender".into(), "TIMEOUT".into(), after)),
                            Ok(Err(e)) => ops.push(("attach sender".into(), format!("err:{:?}", e), after)),
                            Ok(Ok(mut sender)) => {
                                ops.push(("attach sender".into(), "ok".into(), after));
                                step!("send small", sender.send("hello"));
                                step!("send multi-frame", sender.send("x".repeat(1300)));
                                let after_b = p.inject_fired();
                                match tokio::time::timeout(OP_TIMEOUT, sender.send_batchable("batchable")).await {
                                    Ok(Ok(fut)) => {
                                        step!("send after batchable", sender.send("one more"));
                                        let rr = op(fut).await;
                                        ops.push(("batchable outcome".into(), rr, after_b));
                                    }
                                    Ok(Err(e)) => ops.push(("send_batchable".into(), format!("err:{:?}", e), after_b)),
                                    Err(_) => ops.push(("send_batchable".into(), "TIMEOUT".into(), after_b)),
                                }
                                step!("sender.close", sender.close());
                            }
                        }
                        match r {
                            Err(_) => ops.push(("attach receiver".into(), "TIMEOUT".into(), after_r)),
                            Ok(Err(e)) => ops.push(("attach receiver".into(), format!("err:{:?}", e), after_r)),
                            Ok(Ok(mut receiver)) => {
                                ops.push(("attach receiver".into(), "ok".into(), after_r));
                                let after = p.inject_fired();
                                match tokio::time::timeout(OP_TIMEOUT, receiver.recv::<Value>()).await {
                                    Ok(Ok(d)) => {
                                        ops.push(("recv".into(), "ok".into(), after));
                                        step!("accept", receiver.accept(&d));
                                    }
                                    Ok(Err(e)) => ops.push(("recv".into(), format!("err:{:?}", e), after)),
                                    Err(_) => ops.push(("recv".into(), "TIMEOUT".into(), after)),
                                }
                                step!("receiver.close", receiver.close());
                            }
                        }
                        step!("session.end", session.end());
                    }
                }
                step!("connection.close", conn.close());
            }
        }
        ops
    });
    // ---- the scripted peer answers at every quiescent point; once the library's receiver has credit it gets one message
    let start = tokio::time::Instant::now();
    let mut delivered = false;
    let mut log_seen = 0usize;
    let mut cum0 = 0usize;
    loop {
        tokio::time::sleep(Duration::from_millis(1)).await;
        // (bookkeeping for the reference run: which moments exist and what the peer had sent by then)
        let log = pipe.log();
        for e in &log[log_seen..] {
            if e.dir == 0 {
                cum0 += e.bytes.len();
                let mut ps = PeerSent::default();
                for f in peer.trace.iter().filter(|f| f.dir == vlib::peer::Dirn::FromPeer) {
                    match f.perf() {
                        Some(Performative::Open(_)) => ps.open = true,
                        Some(Performative::Begin(_)) => ps.begin = true,
                        Some(Performative::Attach(a)) if a.name == "c-s" => ps.attach_s = true,
                        Some(Performative::Attach(_)) => ps.attach_r = true,
                        Some(Performative::Detach(d)) if d.handle.0 == 0 => ps.detach_s = true,
                        Some(Performative::Detach(_)) => ps.detach_r = true,
                        Some(Performative::End(_)) => ps.end = true,
                        Some(Performative::Close(_)) => ps.close = true,
                        _ => {}
                    }
                }
                obs.points.push((cum0, ps));
            }
        }
        log_seen = log.len();
        peer.pump();
        if !delivered && !peer.close_sent {
            let ready = peer.links.iter().find(|l| l.name == "c-r" && l.credit > 0 && !l.detached && !l.detach_sent).map(|l| l.our_handle);
            let sess_open = peer.sessions.get(&0).map(|s| !s.end_sent).unwrap_or(false);
            if let (Some(h), true) = (ready, sess_open) {
                let payload = serde_amqp::to_vec(&fe2o3_amqp_types::messaging::message::__private::Serializable(Message::builder().value("from the peer").build())).unwrap();
                let t = Transfer {
                    handle: Handle(h),
                    delivery_id: Some(0),
                    delivery_tag: Some(serde_bytes::ByteBuf::from(b"p0".to_vec())),
                    message_format: Some(0),
                    settled: Some(false),
                    more: false,
                    rcv_settle_mode: None,
                    state: None,
                    resume: false,
                    aborted: false,
                    batchable: false,
                };
                peer.send_perf(0, Performative::Transfer(t), &payload);
                delivered = true;
            }
        }
        if client.is_finished() {
            break;
        }
        if start.elapsed() > OP_TIMEOUT * 20 {
            obs.client_hung = true;
            break;
        }
    }
    if obs.client_hung {
        client.abort();
    } else if let Ok(ops) = client.await {
        obs.ops = ops;
    }
    settle(&mut peer, 2).await;
    obs.fired = pipe.inject_fired();
    obs.alive_tasks_end = tokio::runtime::Handle::current().metrics().num_alive_tasks();
    obs.trace = trace_to_strings(&peer.trace);
    obs
}

fn judge_c(at: usize, k: CK, o: &CObs, panics: &[String]) -> Vec<(String, String)> {
    let mut f = vec![];
    let what = format!("peer sends {:?} at the moment the library has written {at} bytes", k);
    let all = || format!("client ops {:?}", o.ops);
    for p in panics.iter().filter(|p| !p.contains("vcheck/src")) {
        f.push((format!("panic peer-{:?}", k), format!("{what}: a library task panicked: {p}")));
    }
    if o.client_hung {
        f.push((format!("client-hangs peer-{:?}", k), format!("{what}: the client conversation never finished")));
    }
    for (name, r, _) in &o.ops {
        if r == "TIMEOUT" {
            f.push((format!("client-op-hangs op={name} peer-{:?}", k), format!("{what}: client {name} never completed; {}", all())));
        }
    }
    // data-path operations STARTED after the peer's frame had been delivered fail when their scope stopped
    // (recv may still hand out a message that had arrived before)
    for (name, r, after) in &o.ops {
        let on_sender = matches!(name.as_str(), "send small" | "send multi-frame" | "send_batchable" | "send after batchable");
        let affected = match name.as_str() {
            "begin" => k.conn(),
            "attach sender" | "attach receiver" => k.conn() || k.sess(),
            _ if on_sender => k.conn() || k.sess() || k.on_s(),
            _ => false,
        };
        if *after && affected && r == "ok" {
            f.push((format!("op-after-fault-succeeds op={name} peer-{:?}", k), format!("{what}: client {name} was started after that and returned Ok; {}", all())));
        }
    }
    // the first operation on a handle that fails after the peer's frame says which scope stopped and why.
    // Judged only if the application had not itself begun to tear that scope (or an enclosing one) down.
    let own_teardown_before = |scope_ops: &[&str]| o.ops.iter().any(|(n, _, after)| scope_ops.contains(&n.as_str()) && !*after);
    let first_err = |names: &[&str]| o.ops.iter().find(|(n, r, _)| names.contains(&n.as_str()) && r.starts_with("err:")).map(|(n, r, _)| (n.clone(), r.clone()));
    let mut firsts = vec![];
    if (k.conn() || k.sess() || k.on_s()) && !own_teardown_before(&["sender.close", "session.end", "connection.close"]) {
        if let Some(x) = first_err(&["send small", "send multi-frame", "send_batchable", "send after batchable"]) {
            firsts.push(x);
        }
    }
    if (k.conn() || k.sess() || k.on_r()) && !own_teardown_before(&["receiver.close", "session.end", "connection.close"]) {
        if let Some(x) = first_err(&["recv"]) {
            firsts.push(x);
        }
    }
    for (name, r) in firsts {
        if k.carries() && !r.contains(COND_DBG) {
            f.push((format!("peer-error-lost op={name} peer-{:?}", k), format!("{what}: the first failing {name} reports {r}; {}", all())));
        }
        let ok = if k.conn() {
            r.contains("Connection")
        } else if k.sess() {
            r.contains("Session") || r.contains("RemoteEnded")
        } else {
            r.contains("Detach") || r.contains("RemoteClosed") || r.contains("Closed")
        };
        if !ok {
            f.push((format!("wrong-scope op={name} peer-{:?}", k), format!("{what}: the first failing {name} reports {r}, which does not name the scope that stopped; {}", all())));
        }
    }
    if k == CK::CloseErr {
        if let Some((_, r, _)) = o.ops.iter().find(|(n, _, _)| n == "connection.close") {
            if !r.contains(COND_DBG) {
                f.push(("connection-handle-lost-peer-error peer-CloseErr".into(), format!("{what}: connection.close() reports {r}; {}", all())));
            }
        }
    }
    if k == CK::EndErr && !own_teardown_before(&["connection.close"]) {
        if let Some((_, r, _)) = o.ops.iter().find(|(n, _, _)| n == "session.end") {
            if !r.contains(COND_DBG) {
                f.push(("session-handle-lost-peer-error peer-EndErr".into(), format!("{what}: session.end() reports {r}; {}", all())));
            }
        }
    }
    if o.alive_tasks_end > 0 {
        f.push((format!("engine-tasks-alive peer-{:?}", k), format!("{what}: {} task(s) still alive after the conversation finished", o.alive_tasks_end)));
    }
    f
}

fn legal(k: CK, ps: &PeerSent) -> bool {
    if ps.close || !ps.open {
        return false;
    }
    match k {
        CK::Close | CK::CloseErr => true,
        CK::End | CK::EndErr => ps.begin && !ps.end,
        CK::DetachS | CK::DetachSErr | CK::DetachSOpenErr => ps.begin && !ps.end && ps.attach_s && !ps.detach_s,
        CK::DetachR | CK::DetachRErr | CK::DetachROpenErr => ps.begin && !ps.end && ps.attach_r && !ps.detach_r,
    }
}

// ================================================================================================ driver
pub fn run(ctx: &Ctx) -> Outcome {
    let mut out = Outcome::new("fault_enumeration");
    if let Some(p) = &ctx.replay {
        return replay(p, out);
    }
    // ---- Part B
    let casesb: Vec<(Pending, Flt)> = PENDINGS.iter().flat_map(|p| FAULTS.iter().map(move |f| (*p, *f))).collect();
    let resb = par_map(&casesb, ctx.threads, |_, (pd, flt)| {
        let (pd, flt) = (*pd, *flt);
        let scen: Scenario<BObs> = Arc::new(move || Box::pin(scenario_b(pd, flt)));
        let ex = run_exec(vec![], &RunCfg::none(), &scen);
        (ex.out, ex.panics, ex.spun, ex.watchdog)
    });
    let mut distinct = std::collections::HashSet::new();
    let mut really_pending = 0u64;
    let mut samples = vec![];
    for ((pd, flt), (o, panics, spun, wd)) in casesb.iter().zip(resb) {
        let rj = json!({"part": "B", "pending": format!("{:?}", pd), "fault": format!("{:?}", flt)});
        if spun {
            out.violation(format!("spin fault={:?}", flt), format!("pending={:?} fault={:?}: busy loop", pd, flt), rj.clone());
        }
        match o {
            None => {
                if wd {
                    out.violation(format!("real-time-hang fault={:?}", flt), format!("pending={:?}: the execution did not finish in real time", pd), rj.clone());
                } else {
                    out.machinery_errors.push(format!("part B scenario died: {:?}", panics));
                }
            }
            Some(o) => {
                if let Some(m) = &o.machinery {
                    out.machinery_errors.push(m.clone());
                    continue;
                }
                if o.pending_was_pending {
                    really_pending += 1;
                }
                distinct.insert(h64(&(pd, flt, o.pending_result.split(':').next().map(|s| s.to_string()), o.followups.iter().map(|(n, r)| (n.clone(), r.split('(').next().unwrap_or("").to_string())).collect::<Vec<_>>())));
                if samples.len() < 2 && o.pending_was_pending {
                    samples.push(json!({"case": rj, "pending_result": o.pending_result, "followups": o.followups}));
                }
                for (s, d) in judge_b(*pd, *flt, &o, &panics) {
                    let mut r = rj.clone();
                    r["trace"] = json!(o.trace);
                    out.violation(s, d, r);
                }
            }
        }
    }
    // ---- Part A: measure, then cut everywhere
    let base = {
        let scen: Scenario<AObs> = Arc::new(|| Box::pin(scenario_a(None)));
        run_exec(vec![], &RunCfg::none(), &scen)
    };
    let Some(base_obs) = base.out else {
        out.machinery_errors.push(format!("part A reference conversation died: {:?}", base.panics));
        return out;
    };
    if base_obs.ops.iter().any(|(_, r, _)| r != "ok") || base_obs.listener.iter().any(|l| l.contains("TIMEOUT")) {
        out.machinery_errors.push(format!("part A reference conversation does not complete cleanly: {:?} / {:?}", base_obs.ops, base_obs.listener));
    }
    let step = 1;
    let mut faults = vec![];
    for dir in 0..2usize {
        for at in (0..=base_obs.bytes[dir]).step_by(step) {
            faults.push(Fault { dir, at, mode: FaultMode::Eof });
            faults.push(Fault { dir, at, mode: FaultMode::Reset });
            {
                faults.push(Fault { dir, at, mode: FaultMode::StallThenEof(Duration::from_secs(30)) });
            }
        }
    }
    let resa = par_map(&faults, ctx.threads, |_, flt| {
        let flt2 = *flt;
        let scen: Scenario<AObs> = Arc::new(move || Box::pin(scenario_a(Some(flt2))));
        let ex = run_exec(vec![], &RunCfg::none(), &scen);
        (ex.out, ex.panics, ex.spun, ex.watchdog)
    });
    let mut cut_hit = 0u64;
    for (flt, (o, panics, spun, wd)) in faults.iter().zip(resa) {
        let rj = json!({"part": "A", "dir": flt.dir, "at": flt.at, "mode": format!("{:?}", flt.mode)});
        if spun {
            out.violation("spin transport-cut".to_string(), format!("{:?}: busy loop", flt), rj.clone());
        }
        match o {
            None => {
                if wd {
                    out.violation("real-time-hang transport-cut".to_string(), format!("{:?}: did not finish in real time", flt), rj);
                } else {
                    out.machinery_errors.push(format!("part A scenario died at {:?}: {:?}", flt, panics));
                }
            }
            Some(o) => {
                if o.broken {
                    cut_hit += 1;
                }
                distinct.insert(h64(&(flt.dir, o.ops.iter().map(|(n, r, a)| (n.clone(), r.split('(').next().unwrap_or("").to_string(), *a)).collect::<Vec<_>>())));
                for (s, d) in judge_a(flt, &o, &panics) {
                    let mut r = rj.clone();
                    r["client_ops"] = json!(o.ops);
                    r["listener"] = json!(o.listener);
                    out.violation(s, d, r);
                }
            }
        }
    }
    samples.push(json!({"part": "A reference conversation", "client_ops": base_obs.ops, "bytes": base_obs.bytes}));
    // ---- Part E: the listener's sender on a plain and on a transaction-enabled session
    let n_e = part_e(&mut out);
    out.set("part_e_listener_cases", n_e);
    let n_f = part_f(&mut out);
    let n_i = part_i(&mut out);
    out.set("resumed_on_another_session_cases", n_i);
    out.set("part_f_controller_cases", n_f);
    // ---- Part C: peer-initiated close/end/detach behind every write of the library
    let basec = {
        let scen: Scenario<CObs> = Arc::new(|| Box::pin(scenario_c(None)));
        run_exec(vec![], &RunCfg::none(), &scen)
    };
    let mut casesc: Vec<(usize, CK)> = vec![];
    let mut c_points = 0usize;
    match &basec.out {
        None => out.machinery_errors.push(format!("part C reference conversation died: {:?}", basec.panics)),
        Some(b) => {
            if b.client_hung || b.ops.iter().any(|(_, r, _)| r != "ok") || b.alive_tasks_end > 0 {
                out.machinery_errors.push(format!("part C reference conversation does not complete cleanly: {:?} alive={}", b.ops, b.alive_tasks_end));
            }
            c_points = b.points.len();
            for (at, ps) in &b.points {
                for k in CKS {
                    if legal(k, ps) {
                        casesc.push((*at, k));
                    }
                }
            }
            samples.push(json!({"part": "C reference conversation", "client_ops": b.ops, "moments": b.points.iter().map(|(a, _)| *a).collect::<Vec<_>>()}));
        }
    }
    let resc = par_map(&casesc, ctx.threads, |_, (at, k)| {
        let (at, k) = (*at, *k);
        let scen: Scenario<CObs> = Arc::new(move || Box::pin(scenario_c(Some((at, k)))));
        let ex = run_exec(vec![], &RunCfg::none(), &scen);
        (ex.out, ex.panics, ex.spun, ex.watchdog)
    });
    let mut c_fired = 0u64;
    for ((at, k), (o, panics, spun, wd)) in casesc.iter().zip(resc) {
        let rj = json!({"part": "C", "at": at, "kind": format!("{:?}", k)});
        if spun {
            out.violation(format!("spin peer-{:?}", k), format!("peer {:?} at {at}: busy loop", k), rj.clone());
        }
        match o {
            None => {
                if wd {
                    out.violation(format!("real-time-hang peer-{:?}", k), format!("peer {:?} at {at}: did not finish in real time", k), rj);
                } else {
                    out.machinery_errors.push(format!("part C scenario died at {at} {:?}: {:?}", k, panics));
                }
            }
            Some(o) => {
                if !o.fired {
                    out.machinery_errors.push(format!("part C: the injection at {at} {:?} never fired", k));
                    continue;
                }
                c_fired += 1;
                distinct.insert(h64(&(*k, o.ops.iter().map(|(n, r, a)| (n.clone(), r.split('(').next().unwrap_or("").to_string(), *a)).collect::<Vec<_>>())));
                for (s, d) in judge_c(*at, *k, &o, &panics) {
                    let mut r = rj.clone();
                    r["trace"] = json!(o.trace);
                    out.violation(s, d, r);
                }
            }
        }
    }
    // ---- Part G: peer-initiated teardown under back-pressure; Part H: receiver teardown with buffered deliveries
    let (n_g, n_h) = parts_g_h(ctx, &mut out, &mut distinct, &mut samples);
    // ---- Part D: the same B and C cases under every task schedule / select order with at most one deviation
    // (thorough: two) from the default; quick keeps to the data-path cases of B and every 3rd case of C
    let deadline = std::time::Instant::now() + Duration::from_secs_f64((ctx.budget_s as f64 * 0.8).max(20.0));
    let bounds = if ctx.quick() { Bounds::new(1) } else { Bounds::new(2) };
    let cfg = RunCfg::default();
    let mut d_exec = 0u64;
    let mut d_cases = 0u64;
    let mut d_complete = true;
    let mut d_distinct = 0usize;
    for (i, (pd, flt)) in casesb.iter().enumerate() {
        // (debug knob: C14_ONLY_PENDING=<kind> explores only that pending kind, with two deviations)
        let only = std::env::var("C14_ONLY_PENDING").ok();
        if let Some(o) = &only {
            if &format!("{:?}", pd) != o {
                continue;
            }
        } else if ctx.quick() && (is_teardown(*pd) || i % 2 == 1) && *pd != Pending::BatchableGrantedWithFault {
            // (the grant-with-fault kind is about an interleaving: all its faults are explored in the quick tier too)
            continue;
        }
        let bounds = if only.is_some() { Bounds::new(2) } else { bounds.clone() };
        let (pd, flt) = (*pd, *flt);
        let scen: Scenario<BObs> = Arc::new(move || Box::pin(scenario_b(pd, flt)));
        let fails = std::sync::Mutex::new(vec![]);
        let st = explore(&cfg, &bounds, &scen, ctx.threads, deadline, |e| {
            let mut f = vec![];
            if let Some(o) = &e.out {
                if o.machinery.is_none() {
                    f = judge_b(pd, flt, o, &e.panics);
                }
            } else if e.watchdog {
                f.push((format!("real-time-hang fault={:?}", flt), "did not finish in real time".to_string()));
            }
            if e.spun {
                f.push((format!("spin fault={:?}", flt), "busy loop".to_string()));
            }
            if !f.is_empty() {
                // (a few failing schedules per case are enough; thousands only cost memory)
                let mut g = fails.lock().unwrap();
                if g.len() < 4 {
                    g.push((f, e.points.clone()));
                }
            }
            h64(&e.out.as_ref().map(|o| (&o.pending_result, &o.followups)))
        });
        d_exec += st.executions;
        d_cases += 1;
        d_complete &= st.exhaustive;
        d_distinct += st.distinct_obs;
        for (f, points) in fails.into_inner().unwrap() {
            for (sg, d) in f {
                out.violation(sg, format!("(under a non-default schedule) {d}"), json!({"part": "B", "pending": format!("{:?}", pd), "fault": format!("{:?}", flt), "schedule": points}));
            }
        }
        for d in st.divergences.iter().take(2) {
            out.machinery_errors.push(format!("part D divergence: {d}"));
        }
    }
    for (i, (at, k)) in casesc.iter().enumerate() {
        if ctx.quick() && i % 3 != 0 {
            continue;
        }
        let (at, k) = (*at, *k);
        let scen: Scenario<CObs> = Arc::new(move || Box::pin(scenario_c(Some((at, k)))));
        let fails = std::sync::Mutex::new(vec![]);
        let st = explore(&cfg, &bounds, &scen, ctx.threads, deadline, |e| {
            let mut f = vec![];
            if let Some(o) = &e.out {
                // (under another schedule the library may write in different portions: an injection that
                // does not fire is simply not a case)
                if o.fired {
                    f = judge_c(at, k, o, &e.panics);
                }
            } else if e.watchdog {
                f.push((format!("real-time-hang peer-{:?}", k), "did not finish in real time".to_string()));
            }
            if e.spun {
                f.push((format!("spin peer-{:?}", k), "busy loop".to_string()));
            }
            if !f.is_empty() {
                // (a few failing schedules per case are enough; thousands only cost memory)
                let mut g = fails.lock().unwrap();
                if g.len() < 4 {
                    g.push((f, e.points.clone()));
                }
            }
            h64(&e.out.as_ref().map(|o| &o.ops))
        });
        d_exec += st.executions;
        d_cases += 1;
        d_complete &= st.exhaustive;
        d_distinct += st.distinct_obs;
        for (f, points) in fails.into_inner().unwrap() {
            for (sg, d) in f {
                out.violation(sg, format!("(under a non-default schedule) {d}"), json!({"part": "C", "at": at, "kind": format!("{:?}", k), "schedule": points}));
            }
        }
    }
    out.set("part_d_cases_explored_under_schedules", d_cases);
    out.set("part_d_schedule_executions", d_exec);
    out.set("part_d_distinct_outcomes_summed", d_distinct as u64);
    out.set("part_d_bound", bounds.describe());
    out.set("part_d_all_complete", d_complete);
    out.set("part_c_moments", c_points as u64);
    out.set("part_c_cases", casesc.len() as u64);
    out.set("part_c_injections_that_fired", c_fired);
    out.set("evaluations", (casesb.len() + faults.len() + casesc.len()) as u64 + d_exec + n_g + n_h);
    out.set("distinct_nontrivial", distinct.len() as u64);
    out.set("part_b_cases", casesb.len() as u64);
    out.set("part_b_cases_with_operation_really_pending", really_pending);
    out.set("part_a_cut_points", faults.len() as u64);
    out.set("part_a_cuts_that_fired", cut_hit);
    out.set("part_a_conversation_bytes", json!(base_obs.bytes));
    out.set("rule", "Part A: reference conversation client<->listener (open, begin, attach sender+receiver, small / multi-frame / batchable sends, recv+accept, closes, end, close) cut at every byte offset of either direction x {EOF, reset, stall 30 s then EOF}. Part B: 9 kinds of operation in progress x 13 faults (peer close/end/detach with and without error, closing and non-closing, transport EOF/reset, close-with-error followed by reset or by a dropped connection whose shutdown fails), followed by a data-path and a teardown call on every handle. Part C: reference conversation client<->scripted peer; behind EVERY write call of the library (= every frame it sends) the peer sends close / end / closing or non-closing detach of either link, with and without error, wherever the protocol allows the peer to do so at that moment. Part G (back-pressure): connection buffer x session buffer in {1,2} (thorough {1,2,3}), the transport takes no more bytes, 8 deliveries of a second session queued so that the session->connection channel is full and the library's own answer has to wait for room; the peer ends session A (with / without error, or with error and a close right behind), closes a link of A with error, or closes the connection with error; x operation {send on the affected link, send on a sibling link, recv, attach, begin} x issued {under the back-pressure before the peer's frame (with a second send of session A in flight), while the answer waits, at the very instant the peer's frame arrives, after the transport has been released}; then follow-up data-path and teardown calls on every handle. Part H: receiving link with N in {0,1,3} (thorough {0,1,2,3,5,8}) deliveries the application has not taken in front of the peer's detach {closing, non-closing} x {error, none} x {detach(), close(), recv() until it fails then detach(), accept() of an earlier delivery then detach()} with the peer's detach before the call, and detach()/close() with the peer's detach sent in answer to the call's own detach. Every public call runs under a 120 s virtual-time limit. distinct = distinct (fault class, per-operation result class) vectors");
    out.set("samples", json!(samples));
    out.set("exhaustive", d_complete);
    out.set("bound", format!("part A byte step {step}; part B full product; parts G and H full product of the stated dimensions ({} + {} cases), default schedule", n_g, n_h));
    out.assume("part G: 'the answer waits for room' is established by the wire order after the release (the answer comes out behind at least connection-buffer + 2 frames of the other session); cases where it did not wait are still judged but counted separately (part_g_answers_that_really_waited_for_room)");
    out.assume("parts G/H: a disposition (accept) issued after the peer's detach has ARRIVED at the link counts as 'issued afterwards' and has to fail; a teardown call that is the first call to observe a detach of the peer carrying an error has to report that error");
    out.assume("a call counts as hanging if it has not completed after 120 s of virtual time with the peer answering everything it is asked");
    out.assume("'errors say whether the link, the session or the connection stopped': judged on the Debug rendering of the error of the first data-path call on the affected handle (must mention the stopped scope and, when the peer supplied one, its condition)");
    out
}

fn parts_g_h(ctx: &Ctx, out: &mut Outcome, distinct: &mut std::collections::HashSet<u64>, samples: &mut Vec<serde_json::Value>) -> (u64, u64) {
    use c14_bp::*;
    let class = |r: &str| r.split('(').next().unwrap_or("").to_string();
    let cpu = std::sync::atomic::AtomicU64::new(0);
    let t0 = std::time::Instant::now();
    // ---- G
    let casesg = g_cases(ctx.quick());
    let resg = par_map(&casesg, ctx.threads, |_, c| {
        let c = *c;
        let scen: Scenario<GObs> = Arc::new(move || Box::pin(scenario_g(c)));
        let ex = run_exec(vec![], &RunCfg::none(), &scen);
        cpu.fetch_add((ex.cpu_ms * 1000.0) as u64, std::sync::atomic::Ordering::Relaxed);
        (ex.out, ex.panics, ex.spun, ex.watchdog)
    });
    let mut waited: std::collections::BTreeMap<String, u64> = Default::default();
    let mut done_while_stalled = 0u64;
    for (c, (o, panics, spun, wd)) in casesg.iter().zip(resg) {
        let rj = g_case_json(c);
        if spun {
            out.violation(format!("spin under back-pressure fault={:?}", c.flt), format!("{:?}: busy loop", c), rj.clone());
        }
        match o {
            None => {
                if wd {
                    out.violation(format!("real-time-hang under back-pressure fault={:?}", c.flt), format!("{:?}: the execution did not finish in real time", c), rj.clone());
                } else {
                    out.machinery_errors.push(format!("part G scenario died: {:?}: {:?}", c, panics));
                }
            }
            Some(o) => {
                if let Some(m) = &o.machinery {
                    out.machinery_errors.push(m.clone());
                    continue;
                }
                if o.answer_waited {
                    *waited.entry(format!("{:?} / operation issued {:?}", c.flt, c.when)).or_insert(0) += 1;
                }
                if o.op_done_while_stalled {
                    done_while_stalled += 1;
                }
                distinct.insert(h64(&("G", c.flt, c.op, c.when, class(&o.op_result), o.inflight.as_ref().map(|(_, r)| class(r)), class(&o.bulk_result), o.followups.iter().map(|(n, r)| (n.clone(), class(r))).collect::<Vec<_>>())));
                if samples.len() < 5 && c.when == c14_bp::GWhen::WhileStuck && o.answer_waited && c.op == c14_bp::GOp::SendAffected {
                    samples.push(json!({"case": rj, "operation": o.op_result, "other_session_delivery": o.bulk_result, "followups": o.followups, "trace_since_the_stall": o.trace}));
                }
                for (s, d) in judge_g(c, &o, &panics) {
                    out.violation(s, d, rj.clone());
                }
            }
        }
    }
    out.set("part_g_cases", casesg.len() as u64);
    out.set("part_g_answers_that_really_waited_for_room", json!(waited));
    out.set("part_g_operations_completed_while_still_stalled", done_while_stalled);
    // ---- H
    let casesh = h_cases(ctx.quick());
    let resh = par_map(&casesh, ctx.threads, |_, c| {
        let c = *c;
        let scen: Scenario<HObs> = Arc::new(move || Box::pin(scenario_h(c)));
        let ex = run_exec(vec![], &RunCfg::none(), &scen);
        cpu.fetch_add((ex.cpu_ms * 1000.0) as u64, std::sync::atomic::Ordering::Relaxed);
        (ex.out, ex.panics, ex.spun, ex.watchdog)
    });
    let mut buffered_cases = 0u64;
    for (c, (o, panics, spun, wd)) in casesh.iter().zip(resh) {
        let rj = h_case_json(c);
        if spun {
            out.violation(format!("spin receiver-teardown peer-detach={:?}", c.kind), format!("{:?}: busy loop", c), rj.clone());
        }
        match o {
            None => {
                if wd {
                    out.violation(format!("real-time-hang receiver-teardown peer-detach={:?}", c.kind), format!("{:?}: the execution did not finish in real time", c), rj.clone());
                } else {
                    out.machinery_errors.push(format!("part H scenario died: {:?}: {:?}", c, panics));
                }
            }
            Some(o) => {
                if let Some(m) = &o.machinery {
                    out.machinery_errors.push(m.clone());
                    continue;
                }
                if o.buffered_really != c.n {
                    out.machinery_errors.push(format!("part H {:?}: {} deliveries buffered instead of {}", c, o.buffered_really, c.n));
                    continue;
                }
                if c.n > 0 {
                    buffered_cases += 1;
                }
                distinct.insert(h64(&("H", *c, o.recvs.iter().map(|r| class(r)).collect::<Vec<_>>(), o.accept.as_ref().map(|r| class(r)), class(&o.teardown))));
                for (s, d) in judge_h(c, &o, &panics) {
                    out.violation(s, d, rj.clone());
                }
            }
        }
    }
    out.set("part_h_cases", casesh.len() as u64);
    out.set("part_h_cases_with_deliveries_really_buffered", buffered_cases);
    out.set("parts_g_h_cpu_seconds_all_threads", (cpu.load(std::sync::atomic::Ordering::Relaxed) as f64 / 1e6 * 100.0).round() / 100.0);
    out.set("parts_g_h_wall_seconds", (t0.elapsed().as_secs_f64() * 100.0).round() / 100.0);
    (casesg.len() as u64, casesh.len() as u64)
}

fn replay(p: &std::path::Path, mut out: Outcome) -> Outcome {
    let s = std::fs::read_to_string(p).unwrap_or_default();
    let j: serde_json::Value = serde_json::from_str(&s).unwrap_or_default();
    let r = &j["replay"];
    if r["part"] == "B" {
        let pd = PENDINGS.iter().copied().find(|p| format!("{:?}", p) == r["pending"].as_str().unwrap_or("")).unwrap_or(Pending::Idle);
        let flt = FAULTS.iter().copied().find(|p| format!("{:?}", p) == r["fault"].as_str().unwrap_or("")).unwrap_or(Flt::Eof);
        let scen: Scenario<BObs> = Arc::new(move || Box::pin(scenario_b(pd, flt)));
        let ex = run_exec(vec![], &RunCfg::none(), &scen);
        if let Some(o) = ex.out {
            for l in &o.trace {
                println!("  {l}");
            }
            println!("  pending -> {}; followups {:?}; alive {}", o.pending_result, o.followups, o.alive_tasks_end);
            for (s, d) in judge_b(pd, flt, &o, &ex.panics) {
                println!("  FAIL {s}: {d}");
                out.violation(s, d, r.clone());
            }
        }
    } else if r["part"] == "G" {
        if let Some(c) = c14_bp::g_case_from_json(r) {
            let scen: Scenario<c14_bp::GObs> = Arc::new(move || Box::pin(c14_bp::scenario_g(c)));
            let ex = run_exec(vec![], &RunCfg::none(), &scen);
            if let Some(o) = ex.out {
                for l in &o.trace {
                    println!("  {l}");
                }
                println!("  operation -> {} (done while stalled: {}); in flight {:?}; other session's delivery -> {}\n  followups {:?}\n  frames of the other session before the answer {}; answer waited for room {}; alive {}; machinery {:?}", o.op_result, o.op_done_while_stalled, o.inflight, o.bulk_result, o.followups, o.b_frames_before_answer, o.answer_waited, o.alive_tasks_end, o.machinery);
                for (s, d) in c14_bp::judge_g(&c, &o, &ex.panics) {
                    println!("  FAIL {s}");
                    out.violation(s, d, r.clone());
                }
            } else {
                println!("  the scenario died: {:?}", ex.panics);
            }
        }
    } else if r["part"] == "H" {
        if let Some(c) = c14_bp::h_case_from_json(r) {
            let scen: Scenario<c14_bp::HObs> = Arc::new(move || Box::pin(c14_bp::scenario_h(c)));
            let ex = run_exec(vec![], &RunCfg::none(), &scen);
            if let Some(o) = ex.out {
                for l in &o.trace {
                    println!("  {l}");
                }
                println!("  recv -> {:?}; accept -> {:?}; teardown -> {}; followups {:?}; alive {}; machinery {:?}", o.recvs, o.accept, o.teardown, o.followups, o.alive_tasks_end, o.machinery);
                for (s, d) in c14_bp::judge_h(&c, &o, &ex.panics) {
                    println!("  FAIL {s}");
                    out.violation(s, d, r.clone());
                }
            } else {
                println!("  the scenario died: {:?}", ex.panics);
            }
        }
    } else if r["part"] == "C" {
        let k = CKS.iter().copied().find(|p| format!("{:?}", p) == r["kind"].as_str().unwrap_or("")).unwrap_or(CK::Close);
        let at = r["at"].as_u64().unwrap_or(0) as usize;
        let scen: Scenario<CObs> = Arc::new(move || Box::pin(scenario_c(Some((at, k)))));
        let ex = run_exec(vec![], &RunCfg::none(), &scen);
        if let Some(o) = ex.out {
            for l in &o.trace {
                println!("  {l}");
            }
            println!("  client ops {:?}\n  fired {} alive {}", o.ops, o.fired, o.alive_tasks_end);
            for (s, d) in judge_c(at, k, &o, &ex.panics) {
                println!("  FAIL {s}: {d}");
                out.violation(s, d, r.clone());
            }
        }
    } else {
        let mode = match r["mode"].as_str().unwrap_or("") {
            "Eof" => FaultMode::Eof,
            "Reset" => FaultMode::Reset,
            _ => FaultMode::StallThenEof(Duration::from_secs(30)),
        };
        let flt = Fault { dir: r["dir"].as_u64().unwrap_or(0) as usize, at: r["at"].as_u64().unwrap_or(0) as usize, mode };
        let scen: Scenario<AObs> = Arc::new(move || Box::pin(scenario_a(Some(flt))));
        let ex = run_exec(vec![], &RunCfg::none(), &scen);
        if let Some(o) = ex.out {
            println!("  client ops {:?}\n  listener {:?}\n  alive {}", o.ops, o.listener, o.alive_tasks_end);
            for (s, d) in judge_a(&flt, &o, &ex.panics) {
                println!("  FAIL {s}: {d}");
                out.violation(s, d, r.clone());
            }
        }
    }
    out.set("evaluations", 1);
    out.set("distinct_nontrivial", 0);
    out.set("rule", "replay");
    out.set("samples", json!([r]));
    out
}
